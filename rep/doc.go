package rep
