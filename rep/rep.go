// Package rep is the reporting side shared by every check: it matches
// violations against /verif/known_findings.jsonl, writes replay artefacts,
// prints the VIOLATION / KNOWN-FINDING lines of the interface and writes
// /verif/evidence/<id>.json. It never writes known_findings.jsonl.
package rep

import (
	"bufio"
	"crypto/sha1"
	"encoding/hex"
	"encoding/json"
	"fmt"
	"os"
	"path/filepath"
	"sort"
	"strconv"
	"strings"
	"sync"
	"time"
)

// Root is the /verif directory (overridable for tests through VERIF_ROOT).
func Root() string {
	if r := os.Getenv("VERIF_ROOT"); r != "" {
		return r
	}
	return "/verif"
}

// Finding is one line of known_findings.jsonl.
type Finding struct {
	Status    string `json:"status"`   // "known" | "fixed"
	Property  string `json:"property"` // C07
	Signature string `json:"signature"`
	What      string `json:"what"`
	Commit    string `json:"commit,omitempty"`
}

// Report collects the outcome of one run of one check.
type Report struct {
	Property string
	Tier     string
	Level    string // exploration | fault_enumeration | model_checking
	Seed     int

	mu         sync.Mutex
	start      time.Time
	known      []Finding
	seenKnown  map[string]int
	violations map[string]string // signature -> replay path
	order      []string
	Coverage   map[string]any
	Assume     []string
	samples    []any

	partViolations int
}

// MergePart folds the evidence written by an earlier partial run (see
// VERIF_PART_OUT) into this report: integer counters are added, samples
// concatenated, exhaustive AND-ed, rules joined, violations added.
func (r *Report) MergePart(path string) {
	body, err := os.ReadFile(path)
	if err != nil {
		return
	}
	var ev struct {
		Coverage    map[string]any `json:"coverage"`
		Assumptions []string       `json:"assumptions"`
		Violations  int            `json:"violations"`
	}
	if json.Unmarshal(body, &ev) != nil {
		return
	}
	r.mu.Lock()
	defer r.mu.Unlock()
	r.partViolations += ev.Violations
	r.Assume = append(r.Assume, ev.Assumptions...)
	for k, v := range ev.Coverage {
		switch k {
		case "samples":
			if l, ok := v.([]any); ok {
				for _, s := range l {
					if len(r.samples) < 8 {
						r.samples = append(r.samples, s)
					}
				}
			}
		case "known_findings_witnessed":
		case "exhaustive":
			b, _ := v.(bool)
			if cur, ok := r.Coverage[k].(bool); ok {
				b = b && cur
			}
			r.Coverage[k] = b
		case "rule":
			sv, _ := v.(string)
			if cur, ok := r.Coverage[k].(string); ok && cur != "" {
				sv = sv + " || " + cur
			}
			r.Coverage[k] = sv
		default:
			if f, ok := v.(float64); ok && f == float64(int(f)) {
				cur, _ := r.Coverage[k].(int)
				r.Coverage[k] = cur + int(f)
			} else if _, exists := r.Coverage[k]; !exists {
				r.Coverage[k] = v
			}
		}
	}
}

// New starts a report. tier is "quick" or "thorough".
func New(property, tier, level string) *Report {
	r := &Report{Property: property, Tier: tier, Level: level, start: time.Now(),
		seenKnown: map[string]int{}, violations: map[string]string{}, Coverage: map[string]any{}}
	if s, err := strconv.Atoi(os.Getenv("VERIF_SEED")); err == nil {
		r.Seed = s
	}
	r.known = LoadKnown(property)
	return r
}

// LoadKnown returns the "known" entries for a property from
// /verif/known_findings.txt. Line formats (anything else is ignored):
//
//	known: property=C16 sig=<signature-without-spaces> what=<free text>
//	fixed: property=C17 <commit> <what failed>      (suppresses nothing)
func LoadKnown(property string) []Finding {
	var out []Finding
	f, err := os.Open(filepath.Join(Root(), "known_findings.txt"))
	if err != nil {
		return nil
	}
	defer f.Close()
	sc := bufio.NewScanner(f)
	sc.Buffer(make([]byte, 1<<20), 1<<20)
	for sc.Scan() {
		line := strings.TrimSpace(sc.Text())
		if !strings.HasPrefix(line, "known:") {
			continue
		}
		rest := strings.TrimSpace(strings.TrimPrefix(line, "known:"))
		k := Finding{Status: "known"}
		if i := strings.Index(rest, " what="); i >= 0 {
			k.What = rest[i+6:]
			rest = rest[:i]
		}
		for _, f := range strings.Fields(rest) {
			switch {
			case strings.HasPrefix(f, "property="):
				k.Property = f[9:]
			case strings.HasPrefix(f, "sig="):
				k.Signature = f[4:]
			}
		}
		if k.Property == property && k.Signature != "" {
			out = append(out, k)
		}
	}
	return out
}

// IsKnown reports whether sig is covered by a known (not fixed) finding. A
// known signature matches exactly or as a prefix ending at a '/' boundary.
func (r *Report) IsKnown(sig string) (Finding, bool) {
	for _, k := range r.known {
		if sig == k.Signature || strings.HasPrefix(sig, k.Signature+"/") {
			return k, true
		}
	}
	return Finding{}, false
}

// Violation records a failing case. sig identifies the defect (scenario +
// oracle + site), replay is any JSON-serialisable artefact that reproduces it.
// It returns true when the violation is new (not a known finding).
func (r *Report) Violation(sig string, replay any) bool {
	r.mu.Lock()
	defer r.mu.Unlock()
	sig = strings.ReplaceAll(sig, " ", "_")
	if k, ok := r.IsKnown(sig); ok {
		r.seenKnown[k.Signature]++
		return false
	}
	if _, dup := r.violations[sig]; dup {
		return true
	}
	h := sha1.Sum([]byte(sig))
	dir := filepath.Join(Root(), "replays", r.Property)
	_ = os.MkdirAll(dir, 0o755)
	path := filepath.Join(dir, sanitize(sig)+"-"+hex.EncodeToString(h[:4])+".json")
	body, _ := json.MarshalIndent(map[string]any{"property": r.Property, "signature": sig, "replay": replay}, "", " ")
	_ = os.WriteFile(path, body, 0o644)
	r.violations[sig] = path
	r.order = append(r.order, sig)
	return true
}

func sanitize(s string) string {
	var b strings.Builder
	for _, c := range s {
		switch {
		case c >= 'a' && c <= 'z', c >= 'A' && c <= 'Z', c >= '0' && c <= '9', c == '-', c == '_', c == '.':
			b.WriteRune(c)
		default:
			b.WriteByte('_')
		}
		if b.Len() > 80 {
			break
		}
	}
	return b.String()
}

// Sample keeps up to 8 written-out cases for the evidence file.
func (r *Report) Sample(s any) {
	r.mu.Lock()
	defer r.mu.Unlock()
	if len(r.samples) < 8 {
		r.samples = append(r.samples, s)
	}
}

// Add accumulates an integer coverage counter.
func (r *Report) Add(key string, n int) {
	r.mu.Lock()
	defer r.mu.Unlock()
	cur, _ := r.Coverage[key].(int)
	r.Coverage[key] = cur + n
}

// Set stores a coverage value.
func (r *Report) Set(key string, v any) {
	r.mu.Lock()
	defer r.mu.Unlock()
	r.Coverage[key] = v
}

// NumViolations is the number of distinct new violations so far.
func (r *Report) NumViolations() int {
	r.mu.Lock()
	defer r.mu.Unlock()
	return len(r.violations)
}

// Finish prints the interface lines, writes the evidence file and returns the
// exit code (0 held / only known findings, 1 new violation).
func (r *Report) Finish() int {
	r.mu.Lock()
	defer r.mu.Unlock()
	keys := make([]string, 0, len(r.seenKnown))
	for k := range r.seenKnown {
		keys = append(keys, k)
	}
	sort.Strings(keys)
	for _, k := range keys {
		what := ""
		for _, f := range r.known {
			if f.Signature == k {
				what = f.What
			}
		}
		fmt.Printf("KNOWN-FINDING: property=%s %s -- %s (%d cases)\n", r.Property, k, what, r.seenKnown[k])
	}
	for _, sig := range r.order {
		fmt.Printf("VIOLATION property=%s replay=%s\n", r.Property, r.violations[sig])
		fmt.Printf("  signature: %s\n", sig)
	}
	if len(r.samples) > 0 {
		r.Coverage["samples"] = r.samples
	} else if _, ok := r.Coverage["samples"]; !ok {
		r.Coverage["samples"] = []any{"(none recorded)"}
	}
	r.Coverage["known_findings_witnessed"] = keys
	ev := map[string]any{
		"property_id": r.Property,
		"tier":        r.Tier,
		"seed":        r.Seed,
		"level":       r.Level,
		"coverage":    r.Coverage,
		"assumptions": r.Assume,
		"wall_s":      time.Since(r.start).Seconds(),
		"violations":  len(r.violations) + r.partViolations,
	}
	if r.Assume == nil {
		ev["assumptions"] = []string{}
	}
	body, _ := json.MarshalIndent(ev, "", " ")
	dir := filepath.Join(Root(), "evidence")
	if d := os.Getenv("VERIF_EVIDENCE_DIR"); d != "" {
		// runs against another checkout than /repo (seeded changes, snapshots) must not
		// overwrite the committed evidence
		dir = d
	}
	_ = os.MkdirAll(dir, 0o755)
	out := filepath.Join(dir, r.Property+".json")
	if p := os.Getenv("VERIF_PART_OUT"); p != "" {
		// a partial run (e.g. the sequential half of a two-binary check): the
		// final binary merges this file into the real evidence
		out = p
	}
	if err := os.WriteFile(out, body, 0o644); err != nil {
		fmt.Fprintln(os.Stderr, "cannot write evidence:", err)
		return 2
	}
	if len(r.violations) > 0 || r.partViolations > 0 {
		return 1
	}
	if os.Getenv("VERIF_PART_OUT") != "" {
		return 0
	}
	fmt.Printf("OK property=%s tier=%s wall=%.1fs\n", r.Property, r.Tier, time.Since(r.start).Seconds())
	return 0
}
