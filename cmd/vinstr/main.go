// vinstr is the source-to-source instrumenter: it rewrites the real packages
// of /repo (working tree) and one harness directory so that every
// synchronisation operation goes through the runtime model in verif/vs, and
// every plain access to shared memory is visible to the happens-before race
// oracle. Output is a `go build -overlay` file; /repo is never written.
//
//	vinstr -work DIR -harness ./checks/c14 [-repo /repo] pkg...
//
// pkg are package directories relative to the repo root ("." for the root).
package main

import (
	"encoding/json"
	"flag"
	"fmt"
	"go/ast"
	"go/build"
	"go/importer"
	"go/parser"
	"go/printer"
	"go/token"
	"go/types"
	"os"
	"path/filepath"
	"sort"
	"strings"
)

const repoMod = "github.com/tychoish/fun"

var (
	fset    = token.NewFileSet()
	repo    = flag.String("repo", "/repo", "repository root")
	work    = flag.String("work", "", "output directory")
	harness = flag.String("harness", "", "harness directory (relative to the verif root)")
	vroot   = flag.String("root", defaultRoot(), "root of the verif module (default $VERIF_ROOT or /verif)")
	noAcc   = flag.Bool("noaccess", false, "do not instrument plain memory accesses")
	drop    = flag.String("drop", "", "comma separated repo files (relative) replaced by stubs: file=stubfile")
	dropFn  = flag.String("dropfuncs", "srv:HTTP,srv:Cmd,srv:sendSignal", "comma separated pkg:Func top-level functions removed from the instrumented build (they hand a context to net/http / os/exec)")
)

func defaultRoot() string {
	if r := os.Getenv("VERIF_ROOT"); r != "" {
		return r
	}
	return "/verif"
}

type pkgInfo struct {
	dir   string
	path  string
	files []*ast.File
	names []string
	info  *types.Info
	pkg   *types.Package
}

var (
	loaded  = map[string]*pkgInfo{} // import path -> package
	stdImp  types.ImporterFrom
	overlay = map[string]string{}
	stubs   = map[string]string{}
)

type imp struct{}

func (imp) Import(path string) (*types.Package, error) { return imp{}.ImportFrom(path, "", 0) }
func (imp) ImportFrom(path, dir string, mode types.ImportMode) (*types.Package, error) {
	if p, ok := loaded[path]; ok {
		return p.pkg, nil
	}
	if path == repoMod || strings.HasPrefix(path, repoMod+"/") {
		rel := strings.TrimPrefix(strings.TrimPrefix(path, repoMod), "/")
		p, err := load(filepath.Join(*repo, rel), path)
		if err != nil {
			return nil, err
		}
		return p.pkg, nil
	}
	if path == "verif" || strings.HasPrefix(path, "verif/") {
		p, err := load(filepath.Join(*vroot, strings.TrimPrefix(path, "verif")), path)
		if err != nil {
			return nil, err
		}
		return p.pkg, nil
	}
	return stdImp.ImportFrom(path, dir, mode)
}

func load(dir, path string) (*pkgInfo, error) {
	if p, ok := loaded[path]; ok {
		return p, nil
	}
	ctx := build.Default
	ctx.BuildTags = append(ctx.BuildTags, "verif")
	bp, err := ctx.ImportDir(dir, 0)
	if err != nil {
		return nil, fmt.Errorf("%s: %v", dir, err)
	}
	p := &pkgInfo{dir: dir, path: path}
	for _, name := range bp.GoFiles {
		full := filepath.Join(dir, name)
		src := full
		rel, _ := filepath.Rel(*repo, full)
		if s, ok := stubs[rel]; ok {
			src = s
		}
		f, err := parser.ParseFile(fset, src, nil, parser.ParseComments)
		if err != nil {
			return nil, err
		}
		p.files = append(p.files, f)
		p.names = append(p.names, full)
	}
	p.info = &types.Info{
		Types:      map[ast.Expr]types.TypeAndValue{},
		Defs:       map[*ast.Ident]types.Object{},
		Uses:       map[*ast.Ident]types.Object{},
		Selections: map[*ast.SelectorExpr]*types.Selection{},
		Scopes:     map[ast.Node]*types.Scope{},
		Implicits:  map[ast.Node]types.Object{},
	}
	conf := types.Config{Importer: imp{}, GoVersion: "go1.22", Error: func(err error) {
		fmt.Fprintln(os.Stderr, "typecheck:", err)
	}}
	pkg, err := conf.Check(path, fset, p.files, p.info)
	if err != nil {
		return nil, fmt.Errorf("type-check %s: %v", path, err)
	}
	p.pkg = pkg
	loaded[path] = p
	return p, nil
}

func main() {
	flag.Parse()
	if *work == "" {
		fmt.Fprintln(os.Stderr, "usage: vinstr -work DIR [-harness ./checks/cNN] pkg...")
		os.Exit(2)
	}
	stdImp = importer.ForCompiler(fset, "source", nil).(types.ImporterFrom)
	if *drop != "" {
		for _, kv := range strings.Split(*drop, ",") {
			parts := strings.SplitN(kv, "=", 2)
			if len(parts) == 2 {
				stubs[parts[0]] = parts[1]
			}
		}
	}
	var targets []*pkgInfo
	for _, rel := range flag.Args() {
		path := repoMod
		if rel != "." {
			path += "/" + rel
		}
		p, err := load(filepath.Join(*repo, rel), path)
		if err != nil {
			fmt.Fprintln(os.Stderr, "vinstr:", err)
			os.Exit(2)
		}
		targets = append(targets, p)
	}
	if *harness != "" {
		abs, _ := filepath.Abs(*harness)
		rel, _ := filepath.Rel(*vroot, abs)
		p, err := load(abs, "verif/"+rel)
		if err != nil {
			fmt.Fprintln(os.Stderr, "vinstr:", err)
			os.Exit(2)
		}
		targets = append(targets, p)
	}
	// every loaded repo package that a target depends on must itself be a target
	// when it uses the rewritten types; instrumenting all loaded repo packages
	// keeps the build consistent.
	seen := map[*pkgInfo]bool{}
	for _, t := range targets {
		seen[t] = true
	}
	var paths []string
	for path := range loaded {
		paths = append(paths, path)
	}
	sort.Strings(paths)
	for _, path := range paths {
		p := loaded[path]
		if !seen[p] && strings.HasPrefix(path, repoMod) {
			targets = append(targets, p)
			seen[p] = true
		}
	}
	if err := os.MkdirAll(*work, 0o755); err != nil {
		fmt.Fprintln(os.Stderr, err)
		os.Exit(2)
	}
	for _, p := range targets {
		if err := instrument(p); err != nil {
			fmt.Fprintln(os.Stderr, "vinstr:", err)
			os.Exit(2)
		}
	}
	body, _ := json.MarshalIndent(map[string]any{"Replace": overlay}, "", " ")
	if err := os.WriteFile(filepath.Join(*work, "overlay.json"), body, 0o644); err != nil {
		fmt.Fprintln(os.Stderr, err)
		os.Exit(2)
	}
	fmt.Printf("vinstr: %d packages, %d files\n", len(targets), len(overlay))
}

func instrument(p *pkgInfo) error {
	rw := &rewriter{p: p, shared: map[types.Object]bool{}, access: !*noAcc}
	if strings.HasPrefix(p.path, "verif/") {
		rw.access = false // harness code is not subject to the race oracle
	}
	rw.findShared()
	dropped := map[string]bool{}
	for _, d := range strings.Split(*dropFn, ",") {
		parts := strings.SplitN(d, ":", 2)
		if len(parts) == 2 && (p.path == repoMod+"/"+parts[0] || (parts[0] == "." && p.path == repoMod)) {
			dropped[parts[1]] = true
		}
	}
	for i, f := range p.files {
		if len(dropped) > 0 {
			var keep []ast.Decl
			for _, d := range f.Decls {
				if fd, ok := d.(*ast.FuncDecl); ok && fd.Recv == nil && dropped[fd.Name.Name] {
					continue
				}
				keep = append(keep, d)
			}
			f.Decls = keep
		}
		rw.file(f)
		out := filepath.Join(*work, strings.ReplaceAll(p.path, "/", "_"), filepath.Base(p.names[i]))
		if err := os.MkdirAll(filepath.Dir(out), 0o755); err != nil {
			return err
		}
		w, err := os.Create(out)
		if err != nil {
			return err
		}
		// keep build constraints
		for _, cg := range f.Comments {
			if cg.Pos() < f.Package {
				for _, c := range cg.List {
					if strings.HasPrefix(c.Text, "//go:build") {
						fmt.Fprintln(w, c.Text)
						fmt.Fprintln(w)
					}
				}
			}
		}
		f.Comments = nil
		f.Doc = nil
		stripDocs(f)
		cfg := printer.Config{Mode: printer.UseSpaces | printer.TabIndent, Tabwidth: 8}
		if err := cfg.Fprint(w, token.NewFileSet(), f); err != nil {
			w.Close()
			return fmt.Errorf("print %s: %v", p.names[i], err)
		}
		w.Close()
		overlay[p.names[i]] = out
	}
	return nil
}

func stripDocs(f *ast.File) {
	ast.Inspect(f, func(n ast.Node) bool {
		switch d := n.(type) {
		case *ast.FuncDecl:
			keep := keepDirectives(d.Doc)
			d.Doc = keep
		case *ast.GenDecl:
			d.Doc = nil
		case *ast.TypeSpec:
			d.Doc, d.Comment = nil, nil
		case *ast.ValueSpec:
			d.Doc, d.Comment = nil, nil
		case *ast.Field:
			d.Doc, d.Comment = nil, nil
		case *ast.ImportSpec:
			d.Doc, d.Comment = nil, nil
		}
		return true
	})
}

func keepDirectives(cg *ast.CommentGroup) *ast.CommentGroup {
	return nil
}
