package main

import (
	"fmt"
	"go/ast"
	"go/token"
	"go/types"
	"strconv"
	"strings"
)

const vsName = "vsrt"

var importMap = map[string]string{
	"sync":        "verif/vs/vsync",
	"sync/atomic": "verif/vs/vatomic",
	"context":     "verif/vs/vctx",
	"time":        "verif/vs/vtime",
}

type mode int

const (
	mRead mode = iota
	mWrite
	mRW
	mAddr // address taken / method receiver: no access to the outermost location
)

type rewriter struct {
	p      *pkgInfo
	shared map[types.Object]bool // local variables captured by a closure, assigned package variables
	access bool
	tmp    int
	usedVS bool
}

func (rw *rewriter) vs(name string) ast.Expr {
	rw.usedVS = true
	return &ast.SelectorExpr{X: ast.NewIdent(vsName), Sel: ast.NewIdent(name)}
}

func (rw *rewriter) fresh(prefix string) *ast.Ident {
	rw.tmp++
	return ast.NewIdent(fmt.Sprintf("_vs%s%d", prefix, rw.tmp))
}

func call(fun ast.Expr, args ...ast.Expr) *ast.CallExpr { return &ast.CallExpr{Fun: fun, Args: args} }

func (rw *rewriter) typeOf(e ast.Expr) types.Type {
	if tv, ok := rw.p.info.Types[e]; ok {
		return tv.Type
	}
	if id, ok := e.(*ast.Ident); ok {
		if o := rw.p.info.Uses[id]; o != nil {
			return o.Type()
		}
		if o := rw.p.info.Defs[id]; o != nil {
			return o.Type()
		}
	}
	return nil
}

func isChan(t types.Type) bool {
	if t == nil {
		return false
	}
	_, ok := t.Underlying().(*types.Chan)
	return ok
}

func isMap(t types.Type) bool {
	if t == nil {
		return false
	}
	_, ok := t.Underlying().(*types.Map)
	return ok
}

// findShared computes the variables whose plain accesses are instrumented:
// local variables referenced from a function literal other than the function
// that declares them, and package-level variables assigned outside their
// declaration.
func (rw *rewriter) findShared() {
	if !rw.access {
		return
	}
	info := rw.p.info
	for _, f := range rw.p.files {
		var stack []ast.Node // enclosing FuncDecl / FuncLit
		declFunc := map[types.Object]ast.Node{}
		var visit func(n ast.Node) bool
		visit = func(n ast.Node) bool {
			switch v := n.(type) {
			case *ast.FuncDecl:
				stack = append(stack, v)
				if v.Recv != nil {
					ast.Inspect(v.Recv, visit)
				}
				ast.Inspect(v.Type, visit)
				if v.Body != nil {
					ast.Inspect(v.Body, visit)
				}
				stack = stack[:len(stack)-1]
				return false
			case *ast.FuncLit:
				stack = append(stack, v)
				ast.Inspect(v.Type, visit)
				ast.Inspect(v.Body, visit)
				stack = stack[:len(stack)-1]
				return false
			case *ast.Ident:
				if o, ok := info.Defs[v].(*types.Var); ok && o != nil && len(stack) > 0 && !o.IsField() {
					declFunc[o] = stack[len(stack)-1]
				}
				if o, ok := info.Uses[v].(*types.Var); ok && o != nil && !o.IsField() {
					if d, ok := declFunc[o]; ok && len(stack) > 0 && d != stack[len(stack)-1] {
						rw.shared[o] = true
					}
				}
			case *ast.AssignStmt:
				for _, l := range v.Lhs {
					if id, ok := l.(*ast.Ident); ok {
						if o, ok := info.Uses[id].(*types.Var); ok && o.Parent() == rw.p.pkg.Scope() {
							rw.shared[o] = true
						}
					}
				}
			case *ast.IncDecStmt:
				if id, ok := v.X.(*ast.Ident); ok {
					if o, ok := info.Uses[id].(*types.Var); ok && o.Parent() == rw.p.pkg.Scope() {
						rw.shared[o] = true
					}
				}
			}
			return true
		}
		ast.Inspect(f, visit)
	}
}

func (rw *rewriter) file(f *ast.File) {
	rw.usedVS = false
	for _, d := range f.Decls {
		switch d := d.(type) {
		case *ast.FuncDecl:
			if d.Recv != nil {
				rw.fieldList(d.Recv)
			}
			rw.funcType(d.Type)
			if d.Body != nil {
				rw.block(d.Body)
			}
		case *ast.GenDecl:
			for _, s := range d.Specs {
				switch s := s.(type) {
				case *ast.TypeSpec:
					if s.TypeParams != nil {
						rw.fieldList(s.TypeParams)
					}
					s.Type = rw.typ(s.Type)
				case *ast.ValueSpec:
					if s.Type != nil {
						s.Type = rw.typ(s.Type)
					}
					for i := range s.Values {
						s.Values[i] = rw.expr(s.Values[i], mRead)
					}
				}
			}
		}
	}
	// imports
	used := map[string]bool{}
	ast.Inspect(f, func(n ast.Node) bool {
		if se, ok := n.(*ast.SelectorExpr); ok {
			if id, ok := se.X.(*ast.Ident); ok {
				used[id.Name] = true
			}
		}
		return true
	})
	for _, d := range f.Decls {
		gd, ok := d.(*ast.GenDecl)
		if !ok || gd.Tok != token.IMPORT {
			continue
		}
		var keep []ast.Spec
		for _, s := range gd.Specs {
			is := s.(*ast.ImportSpec)
			path, _ := strconv.Unquote(is.Path.Value)
			name := path[strings.LastIndex(path, "/")+1:]
			if is.Name != nil {
				name = is.Name.Name
			}
			if np, ok := importMap[path]; ok {
				is.Path = &ast.BasicLit{Kind: token.STRING, Value: strconv.Quote(np)}
				if is.Name == nil {
					is.Name = ast.NewIdent(name)
				}
			}
			if name == "_" || name == "." || used[name] {
				keep = append(keep, is)
			}
		}
		gd.Specs = keep
		gd.Lparen = 1 // force parenthesised form (valid even when empty)
		gd.Rparen = 1
	}
	f.Imports = nil
	if rw.usedVS {
		imp := &ast.GenDecl{Tok: token.IMPORT, Specs: []ast.Spec{&ast.ImportSpec{Name: ast.NewIdent(vsName), Path: &ast.BasicLit{Kind: token.STRING, Value: `"verif/vs"`}}}}
		f.Decls = append([]ast.Decl{imp}, f.Decls...)
	}
}

// ---- types ----

func (rw *rewriter) fieldList(fl *ast.FieldList) {
	if fl == nil {
		return
	}
	for _, f := range fl.List {
		f.Type = rw.typ(f.Type)
	}
}

func (rw *rewriter) funcType(ft *ast.FuncType) {
	if ft == nil {
		return
	}
	rw.fieldList(ft.TypeParams)
	rw.fieldList(ft.Params)
	rw.fieldList(ft.Results)
}

// typ rewrites a type expression: chan T -> *vsrt.Chan[T].
func (rw *rewriter) typ(e ast.Expr) ast.Expr {
	switch t := e.(type) {
	case nil:
		return nil
	case *ast.ChanType:
		elem := rw.typ(t.Value)
		return &ast.StarExpr{X: &ast.IndexExpr{X: rw.vs("Chan"), Index: elem}}
	case *ast.StarExpr:
		t.X = rw.typ(t.X)
	case *ast.ArrayType:
		t.Elt = rw.typ(t.Elt)
		if t.Len != nil {
			if _, ok := t.Len.(*ast.Ellipsis); !ok {
				t.Len = rw.expr(t.Len, mRead)
			}
		}
	case *ast.MapType:
		t.Key = rw.typ(t.Key)
		t.Value = rw.typ(t.Value)
	case *ast.FuncType:
		rw.funcType(t)
	case *ast.StructType:
		rw.fieldList(t.Fields)
	case *ast.InterfaceType:
		if t.Methods != nil {
			for _, m := range t.Methods.List {
				m.Type = rw.typ(m.Type)
			}
		}
	case *ast.Ellipsis:
		t.Elt = rw.typ(t.Elt)
	case *ast.ParenExpr:
		t.X = rw.typ(t.X)
	case *ast.IndexExpr:
		t.X = rw.typ(t.X)
		t.Index = rw.typ(t.Index)
	case *ast.IndexListExpr:
		t.X = rw.typ(t.X)
		for i := range t.Indices {
			t.Indices[i] = rw.typ(t.Indices[i])
		}
	case *ast.BinaryExpr: // constraint unions
		t.X = rw.typ(t.X)
		t.Y = rw.typ(t.Y)
	case *ast.UnaryExpr: // ~T
		t.X = rw.typ(t.X)
	}
	return e
}

func (rw *rewriter) isType(e ast.Expr) bool {
	if tv, ok := rw.p.info.Types[e]; ok {
		return tv.IsType()
	}
	switch e.(type) {
	case *ast.ChanType, *ast.ArrayType, *ast.MapType, *ast.FuncType, *ast.StructType, *ast.InterfaceType:
		return true
	}
	return false
}

// ---- statements ----

func (rw *rewriter) block(b *ast.BlockStmt) {
	if b == nil {
		return
	}
	b.List = rw.stmts(b.List)
}

func (rw *rewriter) stmts(list []ast.Stmt) []ast.Stmt {
	out := make([]ast.Stmt, 0, len(list))
	for _, s := range list {
		out = append(out, rw.stmt(s))
	}
	return out
}

func (rw *rewriter) stmt(s ast.Stmt) ast.Stmt {
	switch s := s.(type) {
	case nil:
		return nil
	case *ast.BlockStmt:
		rw.block(s)
	case *ast.ExprStmt:
		s.X = rw.expr(s.X, mRead)
	case *ast.SendStmt:
		ch := rw.expr(s.Chan, mRead)
		v := rw.expr(s.Value, mRead)
		return &ast.ExprStmt{X: call(&ast.SelectorExpr{X: paren(ch), Sel: ast.NewIdent("Send")}, v)}
	case *ast.IncDecStmt:
		s.X = rw.expr(s.X, mRW)
	case *ast.AssignStmt:
		return rw.assign(s)
	case *ast.GoStmt:
		return rw.goStmt(s)
	case *ast.DeferStmt:
		s.Call = rw.expr(s.Call, mRead).(*ast.CallExpr)
	case *ast.ReturnStmt:
		for i := range s.Results {
			s.Results[i] = rw.expr(s.Results[i], mRead)
		}
	case *ast.IfStmt:
		s.Init = rw.stmt(s.Init)
		s.Cond = rw.expr(s.Cond, mRead)
		rw.block(s.Body)
		s.Else = rw.stmt(s.Else)
	case *ast.ForStmt:
		s.Init = rw.stmt(s.Init)
		if s.Cond != nil {
			s.Cond = rw.expr(s.Cond, mRead)
		}
		s.Post = rw.stmt(s.Post)
		rw.block(s.Body)
	case *ast.RangeStmt:
		return rw.rangeStmt(s)
	case *ast.SwitchStmt:
		s.Init = rw.stmt(s.Init)
		if s.Tag != nil {
			s.Tag = rw.expr(s.Tag, mRead)
		}
		rw.caseBodies(s.Body)
	case *ast.TypeSwitchStmt:
		s.Init = rw.stmt(s.Init)
		s.Assign = rw.stmt(s.Assign)
		for _, c := range s.Body.List {
			cc := c.(*ast.CaseClause)
			for i := range cc.List {
				cc.List[i] = rw.typ(cc.List[i])
			}
			cc.Body = rw.stmts(cc.Body)
		}
	case *ast.SelectStmt:
		return rw.selectStmt(s)
	case *ast.LabeledStmt:
		s.Stmt = rw.stmt(s.Stmt)
	case *ast.DeclStmt:
		gd := s.Decl.(*ast.GenDecl)
		for _, sp := range gd.Specs {
			switch sp := sp.(type) {
			case *ast.ValueSpec:
				if sp.Type != nil {
					sp.Type = rw.typ(sp.Type)
				}
				for i := range sp.Values {
					sp.Values[i] = rw.expr(sp.Values[i], mRead)
				}
			case *ast.TypeSpec:
				sp.Type = rw.typ(sp.Type)
			}
		}
	case *ast.BranchStmt, *ast.EmptyStmt:
	default:
		panic(fmt.Sprintf("vinstr: unhandled statement %T at %v", s, fset.Position(s.Pos())))
	}
	return s
}

func (rw *rewriter) caseBodies(b *ast.BlockStmt) {
	for _, c := range b.List {
		cc := c.(*ast.CaseClause)
		for i := range cc.List {
			cc.List[i] = rw.expr(cc.List[i], mRead)
		}
		cc.Body = rw.stmts(cc.Body)
	}
}

func paren(e ast.Expr) ast.Expr {
	switch e.(type) {
	case *ast.Ident, *ast.SelectorExpr, *ast.CallExpr, *ast.IndexExpr, *ast.ParenExpr:
		return e
	}
	return &ast.ParenExpr{X: e}
}

func (rw *rewriter) assign(s *ast.AssignStmt) ast.Stmt {
	// v, ok := <-ch   /   v, ok = <-ch
	if len(s.Lhs) == 2 && len(s.Rhs) == 1 {
		if u, ok := s.Rhs[0].(*ast.UnaryExpr); ok && u.Op == token.ARROW {
			ch := rw.expr(u.X, mRead)
			s.Rhs[0] = call(&ast.SelectorExpr{X: paren(ch), Sel: ast.NewIdent("Recv2")})
			if s.Tok != token.DEFINE {
				for i := range s.Lhs {
					s.Lhs[i] = rw.expr(s.Lhs[i], mWrite)
				}
			}
			return s
		}
	}
	for i := range s.Rhs {
		s.Rhs[i] = rw.expr(s.Rhs[i], mRead)
	}
	switch s.Tok {
	case token.DEFINE:
		// new variables: no access (a redeclared captured variable is missed)
	case token.ASSIGN:
		for i := range s.Lhs {
			s.Lhs[i] = rw.expr(s.Lhs[i], mWrite)
		}
	default: // op=
		for i := range s.Lhs {
			s.Lhs[i] = rw.expr(s.Lhs[i], mRW)
		}
	}
	return s
}

// go f(a, b)  ->  { _f := f; _a := a; _b := b; vsrt.Go(func() { _f(_a, _b) }) }
func (rw *rewriter) goStmt(s *ast.GoStmt) ast.Stmt {
	c := s.Call
	var pre []ast.Stmt
	var fun ast.Expr
	if fl, ok := c.Fun.(*ast.FuncLit); ok && len(c.Args) == 0 {
		rw.funcType(fl.Type)
		rw.block(fl.Body)
		return &ast.ExprStmt{X: call(rw.vs("Go"), fl)}
	}
	fv := rw.fresh("f")
	pre = append(pre, &ast.AssignStmt{Lhs: []ast.Expr{fv}, Tok: token.DEFINE, Rhs: []ast.Expr{rw.expr(c.Fun, mRead)}})
	fun = fv
	var args []ast.Expr
	for _, a := range c.Args {
		av := rw.fresh("a")
		pre = append(pre, &ast.AssignStmt{Lhs: []ast.Expr{av}, Tok: token.DEFINE, Rhs: []ast.Expr{rw.expr(a, mRead)}})
		args = append(args, av)
	}
	inner := &ast.CallExpr{Fun: fun, Args: args, Ellipsis: c.Ellipsis}
	lit := &ast.FuncLit{Type: &ast.FuncType{Params: &ast.FieldList{}}, Body: &ast.BlockStmt{List: []ast.Stmt{&ast.ExprStmt{X: inner}}}}
	pre = append(pre, &ast.ExprStmt{X: call(rw.vs("Go"), lit)})
	return &ast.BlockStmt{List: pre}
}

func (rw *rewriter) rangeStmt(s *ast.RangeStmt) ast.Stmt {
	t := rw.typeOf(s.X)
	x := rw.expr(s.X, mRead)
	if s.Tok == token.ASSIGN {
		if s.Key != nil {
			s.Key = rw.expr(s.Key, mWrite)
		}
		if s.Value != nil {
			s.Value = rw.expr(s.Value, mWrite)
		}
	}
	rw.block(s.Body)
	switch {
	case isChan(t):
		// for v := range ch { body } -> for { v, ok := ch.Recv2(); if !ok { break }; body }
		ok := rw.fresh("ok")
		var lhs ast.Expr = ast.NewIdent("_")
		tok := token.DEFINE
		if s.Key != nil {
			lhs = s.Key
			tok = s.Tok
		}
		var recv ast.Stmt
		if tok == token.DEFINE {
			recv = &ast.AssignStmt{Lhs: []ast.Expr{lhs, ok}, Tok: token.DEFINE, Rhs: []ast.Expr{call(&ast.SelectorExpr{X: paren(x), Sel: ast.NewIdent("Recv2")})}}
		} else {
			tmp := rw.fresh("v")
			recv = &ast.BlockStmt{List: []ast.Stmt{}}
			_ = tmp
			panic("vinstr: `for v = range ch` (assignment form) not supported")
		}
		brk := &ast.IfStmt{Cond: &ast.UnaryExpr{Op: token.NOT, X: ok}, Body: &ast.BlockStmt{List: []ast.Stmt{&ast.BranchStmt{Tok: token.BREAK}}}}
		body := append([]ast.Stmt{recv, brk}, s.Body.List...)
		return &ast.ForStmt{Body: &ast.BlockStmt{List: body}}
	case isMap(t) && s.Tok != token.ASSIGN:
		// deterministic iteration order:
		// for k, v := range m { body } ->
		// for _, _k := range vsrt.MapKeys(m) { _v, _ok := m[_k]; if !_ok { continue }; k, v := _k, _v; _, _ = k, v; body }
		m := rw.fresh("m")
		k, v, ok := rw.fresh("k"), rw.fresh("v"), rw.fresh("ok")
		var body []ast.Stmt
		body = append(body, &ast.AssignStmt{Lhs: []ast.Expr{v, ok}, Tok: token.DEFINE, Rhs: []ast.Expr{&ast.IndexExpr{X: m, Index: k}}})
		body = append(body, &ast.IfStmt{Cond: &ast.UnaryExpr{Op: token.NOT, X: ok}, Body: &ast.BlockStmt{List: []ast.Stmt{&ast.BranchStmt{Tok: token.CONTINUE}}}})
		var lhs, rhs, blank []ast.Expr
		if s.Key != nil && !isBlank(s.Key) {
			lhs, rhs, blank = append(lhs, s.Key), append(rhs, k), append(blank, ast.NewIdent("_"))
		}
		if s.Value != nil && !isBlank(s.Value) {
			lhs, rhs, blank = append(lhs, s.Value), append(rhs, v), append(blank, ast.NewIdent("_"))
		} else {
			body = append(body, &ast.AssignStmt{Lhs: []ast.Expr{ast.NewIdent("_")}, Tok: token.ASSIGN, Rhs: []ast.Expr{v}})
		}
		if len(lhs) > 0 {
			body = append(body, &ast.AssignStmt{Lhs: lhs, Tok: token.DEFINE, Rhs: rhs})
			body = append(body, &ast.AssignStmt{Lhs: blank, Tok: token.ASSIGN, Rhs: append([]ast.Expr(nil), lhs...)})
		}
		body = append(body, s.Body.List...)
		loop := &ast.RangeStmt{Key: ast.NewIdent("_"), Value: k, Tok: token.DEFINE, X: call(rw.vs("MapKeys"), m), Body: &ast.BlockStmt{List: body}}
		init := &ast.AssignStmt{Lhs: []ast.Expr{m}, Tok: token.DEFINE, Rhs: []ast.Expr{x}}
		// keep a label-compatible shape: if m := x; true { for ... }  would break `continue L`; use a block.
		return &ast.BlockStmt{List: []ast.Stmt{init, loop}}
	}
	s.X = x
	return s
}

func isBlank(e ast.Expr) bool {
	id, ok := e.(*ast.Ident)
	return ok && id.Name == "_"
}

// select { case <-a: A; case v, ok := <-b: B; case c <- x: C; default: D }
// ->
// switch _c0, _c1, _c2 := vsrt.RecvCase(a), vsrt.RecvCase(b), vsrt.SendCase(c, x); vsrt.Select(true, _c0, _c1, _c2) {
// case 0: A
// case 1: v, ok := _c1.Val(), _c1.Ok(); B
// case 2: C
// default: D }
func (rw *rewriter) selectStmt(s *ast.SelectStmt) ast.Stmt {
	var names, ctors []ast.Expr
	var clauses []ast.Stmt
	hasDefault := false
	idx := 0
	for _, c := range s.Body.List {
		cc := c.(*ast.CommClause)
		body := rw.stmts(cc.Body)
		if cc.Comm == nil {
			hasDefault = true
			clauses = append(clauses, &ast.CaseClause{List: nil, Body: body})
			continue
		}
		cv := rw.fresh("c")
		names = append(names, cv)
		var pre []ast.Stmt
		switch comm := cc.Comm.(type) {
		case *ast.SendStmt:
			ctors = append(ctors, call(rw.vs("SendCase"), rw.expr(comm.Chan, mRead), rw.expr(comm.Value, mRead)))
		case *ast.ExprStmt:
			u := unparen(comm.X).(*ast.UnaryExpr)
			ctors = append(ctors, call(rw.vs("RecvCase"), rw.expr(u.X, mRead)))
		case *ast.AssignStmt:
			u := unparen(comm.Rhs[0]).(*ast.UnaryExpr)
			ctors = append(ctors, call(rw.vs("RecvCase"), rw.expr(u.X, mRead)))
			rhs := []ast.Expr{call(&ast.SelectorExpr{X: cv, Sel: ast.NewIdent("Val")})}
			if len(comm.Lhs) == 2 {
				rhs = append(rhs, call(&ast.SelectorExpr{X: cv, Sel: ast.NewIdent("Ok")}))
			}
			lhs := comm.Lhs
			if comm.Tok != token.DEFINE {
				for i := range lhs {
					lhs[i] = rw.expr(lhs[i], mWrite)
				}
			}
			allBlank := true
			for _, l := range lhs {
				if !isBlank(l) {
					allBlank = false
				}
			}
			tok := comm.Tok
			if allBlank {
				tok = token.ASSIGN
			}
			pre = append(pre, &ast.AssignStmt{Lhs: lhs, Tok: tok, Rhs: rhs})
		default:
			panic(fmt.Sprintf("vinstr: unhandled comm clause %T", comm))
		}
		clauses = append(clauses, &ast.CaseClause{List: []ast.Expr{&ast.BasicLit{Kind: token.INT, Value: strconv.Itoa(idx)}}, Body: append(pre, body...)})
		idx++
	}
	dflt := ast.NewIdent("false")
	if hasDefault {
		dflt = ast.NewIdent("true")
	} else {
		// keeps the statement terminating when every case is (a select without
		// default is terminating, a switch without default is not)
		clauses = append(clauses, &ast.CaseClause{List: nil, Body: []ast.Stmt{&ast.ExprStmt{X: call(ast.NewIdent("panic"), call(rw.vs("Unreachable")))}}})
	}
	sel := call(rw.vs("Select"), append([]ast.Expr{dflt}, names...)...)
	sw := &ast.SwitchStmt{Tag: sel, Body: &ast.BlockStmt{List: clauses}}
	if len(names) > 0 {
		sw.Init = &ast.AssignStmt{Lhs: names, Tok: token.DEFINE, Rhs: ctors}
	}
	return sw
}

func unparen(e ast.Expr) ast.Expr {
	for {
		p, ok := e.(*ast.ParenExpr)
		if !ok {
			return e
		}
		e = p.X
	}
}

// ---- expressions ----

func (rw *rewriter) exprs(list []ast.Expr, m mode) {
	for i := range list {
		list[i] = rw.expr(list[i], m)
	}
}

func (rw *rewriter) builtin(e ast.Expr) string {
	if id, ok := unparen(e).(*ast.Ident); ok {
		if _, ok := rw.p.info.Uses[id].(*types.Builtin); ok {
			return id.Name
		}
	}
	return ""
}

func (rw *rewriter) addressable(e ast.Expr) bool {
	tv, ok := rw.p.info.Types[e]
	return ok && tv.Addressable()
}

// wrap returns *vsrt.R(&e) / W / RW according to the access mode.
func (rw *rewriter) wrap(e ast.Expr, m mode) ast.Expr {
	if !rw.access || m == mAddr {
		return e
	}
	fn := "R"
	switch m {
	case mWrite:
		fn = "W"
	case mRW:
		fn = "RW"
	}
	return &ast.StarExpr{X: call(rw.vs(fn), &ast.UnaryExpr{Op: token.AND, X: e})}
}

func (rw *rewriter) expr(e ast.Expr, m mode) ast.Expr {
	switch x := e.(type) {
	case nil:
		return nil
	case *ast.BadExpr, *ast.BasicLit:
		return e
	case *ast.Ident:
		if !rw.access || m == mAddr || x.Name == "_" {
			return e
		}
		if o, ok := rw.p.info.Uses[x].(*types.Var); ok && rw.shared[o] && !o.IsField() {
			return rw.wrap(e, m)
		}
		return e
	case *ast.ParenExpr:
		if rw.isType(x.X) {
			x.X = rw.typ(x.X)
			return e
		}
		x.X = rw.expr(x.X, m)
		return e
	case *ast.FuncLit:
		rw.funcType(x.Type)
		rw.block(x.Body)
		return e
	case *ast.CompositeLit:
		if x.Type != nil {
			x.Type = rw.typ(x.Type)
		}
		lt := rw.typeOf(e)
		isStruct := false
		if lt != nil {
			u := lt.Underlying()
			if p, ok := u.(*types.Pointer); ok {
				u = p.Elem().Underlying()
			}
			_, isStruct = u.(*types.Struct)
		}
		for i, el := range x.Elts {
			if kv, ok := el.(*ast.KeyValueExpr); ok {
				if !isStruct {
					kv.Key = rw.expr(kv.Key, mRead)
				}
				kv.Value = rw.expr(kv.Value, mRead)
			} else {
				x.Elts[i] = rw.expr(el, mRead)
			}
		}
		return e
	case *ast.SelectorExpr:
		return rw.selector(x, m)
	case *ast.IndexExpr:
		return rw.index(x, m)
	case *ast.IndexListExpr:
		x.X = rw.expr(x.X, mRead)
		for i := range x.Indices {
			x.Indices[i] = rw.typ(x.Indices[i])
		}
		return e
	case *ast.SliceExpr:
		bt := rw.typeOf(x.X)
		bm := mRead
		if bt != nil {
			if _, ok := bt.Underlying().(*types.Array); ok {
				bm = mAddr
			}
		}
		x.X = rw.expr(x.X, bm)
		x.Low, x.High, x.Max = rw.expr(x.Low, mRead), rw.expr(x.High, mRead), rw.expr(x.Max, mRead)
		return e
	case *ast.TypeAssertExpr:
		x.X = rw.expr(x.X, mRead)
		if x.Type != nil {
			x.Type = rw.typ(x.Type)
		}
		return e
	case *ast.CallExpr:
		return rw.call(x)
	case *ast.StarExpr:
		if rw.isType(e) {
			return rw.typ(e)
		}
		x.X = rw.expr(x.X, mRead)
		if !rw.access || m == mAddr {
			return e
		}
		// *p  ->  *vsrt.R(p)
		fn := map[mode]string{mRead: "R", mWrite: "W", mRW: "RW"}[m]
		return &ast.StarExpr{X: call(rw.vs(fn), x.X)}
	case *ast.UnaryExpr:
		switch x.Op {
		case token.ARROW:
			ch := rw.expr(x.X, mRead)
			return call(&ast.SelectorExpr{X: paren(ch), Sel: ast.NewIdent("Recv")})
		case token.AND:
			if cl, ok := unparen(x.X).(*ast.CompositeLit); ok {
				rw.expr(cl, mRead)
				return e
			}
			x.X = rw.expr(x.X, mAddr)
			return e
		}
		x.X = rw.expr(x.X, mRead)
		return e
	case *ast.BinaryExpr:
		x.X = rw.expr(x.X, mRead)
		x.Y = rw.expr(x.Y, mRead)
		return e
	case *ast.KeyValueExpr:
		x.Value = rw.expr(x.Value, mRead)
		return e
	case *ast.ArrayType, *ast.StructType, *ast.FuncType, *ast.InterfaceType, *ast.MapType, *ast.ChanType, *ast.Ellipsis:
		return rw.typ(e)
	}
	panic(fmt.Sprintf("vinstr: unhandled expression %T at %v", e, fset.Position(e.Pos())))
}

func (rw *rewriter) selector(x *ast.SelectorExpr, m mode) ast.Expr {
	info := rw.p.info
	sel, ok := info.Selections[x]
	if !ok {
		// qualified identifier pkg.Name (or a type)
		if id, ok := x.X.(*ast.Ident); ok {
			if pn, ok := info.Uses[id].(*types.PkgName); ok && pn.Imported().Path() == "runtime" {
				switch x.Sel.Name {
				case "NumCPU":
					return rw.vs("NumCPU")
				case "SetFinalizer":
					return rw.vs("NoFinalizer")
				case "Gosched":
					return rw.vs("Yield")
				}
			}
		}
		return x
	}
	baseT := rw.typeOf(x.X)
	_, basePtr := deref(baseT)
	switch sel.Kind() {
	case types.FieldVal:
		addr := rw.addressable(x)
		if basePtr {
			x.X = rw.expr(x.X, mRead)
		} else {
			x.X = rw.expr(x.X, mAddr)
		}
		if addr && m != mAddr && rw.access {
			return rw.wrap(x, m)
		}
		if !addr && !basePtr {
			// value that is not addressable (call result, map element): base was
			// rewritten in addr mode which is right only for addressable bases
		}
		return x
	case types.MethodVal:
		// receiver: pointer receiver on an addressable non-pointer value takes its
		// address (no access); otherwise the receiver value is read.
		recvPtr := false
		if fn, ok := sel.Obj().(*types.Func); ok {
			if sig, ok := fn.Type().(*types.Signature); ok && sig.Recv() != nil {
				_, recvPtr = sig.Recv().Type().(*types.Pointer)
			}
		}
		if recvPtr && !basePtr {
			x.X = rw.expr(x.X, mAddr)
		} else {
			x.X = rw.expr(x.X, mRead)
		}
		return x
	default:
		x.X = rw.expr(x.X, mRead)
		return x
	}
}

func deref(t types.Type) (types.Type, bool) {
	if t == nil {
		return nil, false
	}
	if p, ok := t.Underlying().(*types.Pointer); ok {
		return p.Elem(), true
	}
	return t, false
}

func (rw *rewriter) index(x *ast.IndexExpr, m mode) ast.Expr {
	// generic instantiation f[T] / T[int]
	if tv, ok := rw.p.info.Types[x.Index]; ok && tv.IsType() {
		x.X = rw.expr(x.X, mRead)
		x.Index = rw.typ(x.Index)
		return x
	}
	if rw.isType(x) {
		return rw.typ(x)
	}
	bt := rw.typeOf(x.X)
	x.Index = rw.expr(x.Index, mRead)
	if bt == nil {
		x.X = rw.expr(x.X, mRead)
		return x
	}
	switch u := bt.Underlying().(type) {
	case *types.Map:
		x.X = rw.expr(x.X, mRead)
		if rw.access && m != mAddr {
			fn := "MR"
			if m != mRead {
				fn = "MW"
			}
			x.X = call(rw.vs(fn), x.X)
		}
		return x
	case *types.Slice:
		x.X = rw.expr(x.X, mRead)
		return rw.wrap(x, m)
	case *types.Array:
		addr := rw.addressable(x)
		x.X = rw.expr(x.X, mAddr)
		if addr {
			return rw.wrap(x, m)
		}
		return x
	case *types.Pointer:
		_ = u
		x.X = rw.expr(x.X, mRead)
		return rw.wrap(x, m)
	}
	x.X = rw.expr(x.X, mRead)
	return x
}

func (rw *rewriter) call(c *ast.CallExpr) ast.Expr {
	// conversion T(x)
	if rw.isType(c.Fun) {
		c.Fun = rw.typ(c.Fun)
		rw.exprs(c.Args, mRead)
		return c
	}
	switch rw.builtin(c.Fun) {
	case "make":
		if ct, ok := c.Args[0].(*ast.ChanType); ok {
			elem := rw.typ(ct.Value)
			args := []ast.Expr{}
			for _, a := range c.Args[1:] {
				args = append(args, rw.expr(a, mRead))
			}
			return call(&ast.IndexExpr{X: rw.vs("MakeChan"), Index: elem}, args...)
		}
		if isChan(rw.typeOf(c.Args[0])) {
			panic(fmt.Sprintf("vinstr: make of a named channel type at %v not supported", fset.Position(c.Pos())))
		}
		c.Args[0] = rw.typ(c.Args[0])
		for i := 1; i < len(c.Args); i++ {
			c.Args[i] = rw.expr(c.Args[i], mRead)
		}
		return c
	case "new":
		c.Args[0] = rw.typ(c.Args[0])
		return c
	case "close":
		ch := rw.expr(c.Args[0], mRead)
		return call(&ast.SelectorExpr{X: paren(ch), Sel: ast.NewIdent("Close")})
	case "len", "cap":
		t := rw.typeOf(c.Args[0])
		if isChan(t) {
			name := map[string]string{"len": "Len", "cap": "Cap"}[rw.builtin(c.Fun)]
			ch := rw.expr(c.Args[0], mRead)
			return call(&ast.SelectorExpr{X: paren(ch), Sel: ast.NewIdent(name)})
		}
		c.Args[0] = rw.expr(c.Args[0], mRead)
		if isMap(t) && rw.access {
			c.Args[0] = call(rw.vs("MR"), c.Args[0])
		}
		return c
	case "delete":
		c.Args[0] = rw.expr(c.Args[0], mRead)
		if rw.access {
			c.Args[0] = call(rw.vs("MW"), c.Args[0])
		}
		c.Args[1] = rw.expr(c.Args[1], mRead)
		return c
	case "":
	default:
		rw.exprs(c.Args, mRead)
		return c
	}
	c.Fun = rw.expr(c.Fun, mRead)
	rw.exprs(c.Args, mRead)
	return c
}
