// C01: parallel iterator stages deliver every item exactly once.
package main

import (
	"context"
	"errors"
	"fmt"
	"io"
	"sort"
	"strings"
	"sync/atomic"
	"time"

	"github.com/tychoish/fun"
	"github.com/tychoish/fun/itertool"
	"verif/vs"
	"verif/vs/runner"
)

type result struct {
	out     []int // delivered / processed items in observation order
	err     error
	done    bool
	ordered bool // order must equal input order
	errOK   bool // the construct is expected to report a (recorded, non-fatal) error at Close
}

type construct struct {
	name string
	// run executes the construct on input with width w and reports what came out.
	run func(ctx context.Context, in []int, w int, r *result)
}

func input(n int) []int {
	out := make([]int, n)
	for i := range out {
		out[i] = i + 1
	}
	return out
}

func drain(ctx context.Context, it *fun.Iterator[int], into *[]int) error {
	for {
		v, err := it.ReadOne(ctx)
		if err != nil {
			return err
		}
		*into = append(*into, v)
	}
}

func constructs() []construct {
	nw := fun.WorkerGroupConfNumWorkers
	return []construct{
		{"Split", func(ctx context.Context, in []int, w int, r *result) {
			parts := fun.SliceIterator(in).Split(w)
			fin := make(chan struct{}, w)
			for _, p := range parts {
				p := p
				go func() { _ = drain(ctx, p, &r.out); fin <- struct{}{} }()
			}
			for range parts {
				<-fin
			}
			r.ordered = w == 1
		}},
		{"ProcessParallel", func(ctx context.Context, in []int, w int, r *result) {
			r.err = fun.SliceIterator(in).ProcessParallel(func(_ context.Context, v int) error { r.out = append(r.out, v); return nil }, nw(w)).Run(ctx)
			r.ordered = w == 1
		}},
		// processors that honour their context (return ctx.Err() when it has ended): nothing
		// cancels a run that nobody aborted, so they must behave like the plain ones
		{"ProcessParallel/ctx-aware", func(ctx context.Context, in []int, w int, r *result) {
			r.err = fun.SliceIterator(in).ProcessParallel(func(c context.Context, v int) error {
				vs.Yield()
				if err := c.Err(); err != nil {
					return err
				}
				r.out = append(r.out, v)
				return nil
			}, nw(w)).Run(ctx)
			r.ordered = w == 1
		}},
		{"itertool.ParallelForEach/ctx-aware", func(ctx context.Context, in []int, w int, r *result) {
			r.err = itertool.ParallelForEach(ctx, fun.SliceIterator(in), func(c context.Context, v int) error {
				vs.Yield()
				if err := c.Err(); err != nil {
					return err
				}
				r.out = append(r.out, v)
				return nil
			}, nw(w))
			r.ordered = w == 1
		}},
		{"itertool.Map/ctx-aware", func(ctx context.Context, in []int, w int, r *result) {
			it := itertool.Map(fun.SliceIterator(in), func(c context.Context, v int) (int, error) {
				vs.Yield()
				if err := c.Err(); err != nil {
					return 0, err
				}
				return v, nil
			}, nw(w))
			_ = drain(ctx, it, &r.out)
			r.err = it.Close()
			r.ordered = w == 1
		}},
		// back-pressure: the consumer takes one item, lets the stage run until every worker is
		// parked on the full buffer holding an item, and only then drains
		{"ParallelBuffer/backpressure", func(ctx context.Context, in []int, w int, r *result) {
			it := fun.SliceIterator(in).ParallelBuffer(w)
			if v, err := it.ReadOne(ctx); err == nil {
				r.out = append(r.out, v)
				vs.Quiesce()
			}
			_ = drain(ctx, it, &r.out)
			r.err = it.Close()
			r.ordered = w == 1
		}},
		{"Buffer/backpressure", func(ctx context.Context, in []int, w int, r *result) {
			it := fun.SliceIterator(in).Buffer(w - 1)
			if v, err := it.ReadOne(ctx); err == nil {
				r.out = append(r.out, v)
				vs.Quiesce()
			}
			_ = drain(ctx, it, &r.out)
			r.err = it.Close()
			r.ordered = true
		}},
		{"itertool.ParallelForEach", func(ctx context.Context, in []int, w int, r *result) {
			r.err = itertool.ParallelForEach(ctx, fun.SliceIterator(in), func(_ context.Context, v int) error { r.out = append(r.out, v); return nil }, nw(w))
			r.ordered = w == 1
		}},
		{"itertool.Worker", func(ctx context.Context, in []int, w int, r *result) {
			ops := make([]fun.Operation, len(in))
			for i, v := range in {
				v := v
				ops[i] = func(context.Context) { r.out = append(r.out, v) }
			}
			r.err = itertool.Worker(ctx, fun.SliceIterator(ops), nw(w))
			r.ordered = w == 1
		}},
		{"itertool.Map", func(ctx context.Context, in []int, w int, r *result) {
			it := itertool.Map(fun.SliceIterator(in), func(_ context.Context, v int) (int, error) { return v * 10, nil }, nw(w))
			var got []int
			_ = drain(ctx, it, &got)
			r.err = it.Close()
			for _, v := range got {
				if v%10 != 0 {
					r.out = append(r.out, -v)
				} else {
					r.out = append(r.out, v/10)
				}
			}
			r.ordered = w == 1
		}},
		{"Buffer", func(ctx context.Context, in []int, w int, r *result) {
			it := fun.SliceIterator(in).Buffer(w - 1)
			_ = drain(ctx, it, &r.out)
			r.err = it.Close()
			r.ordered = true
		}},
		{"ParallelBuffer", func(ctx context.Context, in []int, w int, r *result) {
			it := fun.SliceIterator(in).ParallelBuffer(w)
			_ = drain(ctx, it, &r.out)
			r.err = it.Close()
			r.ordered = w == 1
		}},
		{"MergeIterators", func(ctx context.Context, in []int, w int, r *result) {
			parts := make([][]int, w)
			for i, v := range in {
				parts[i%w] = append(parts[i%w], v)
			}
			its := make([]*fun.Iterator[int], w)
			for i := range its {
				its[i] = fun.SliceIterator(parts[i])
			}
			it := fun.MergeIterators(its...)
			_ = drain(ctx, it, &r.out)
			r.err = it.Close()
			r.ordered = w == 1
		}},
		// an input that delivers everything but carries a recorded, non-fatal error (as the
		// output of a continue-on-error stage does) is not an abort: its siblings are still merged
		{"MergeIterators/input-with-recorded-error", func(ctx context.Context, in []int, w int, r *result) {
			parts := make([][]int, w+1)
			for i, v := range in {
				parts[1+i%w] = append(parts[1+i%w], v) // parts[0] stays empty: that input finishes first
			}
			its := make([]*fun.Iterator[int], w+1)
			for i := range its {
				its[i] = fun.SliceIterator(parts[i])
			}
			its[0].AddError(errors.New("recorded-earlier"))
			it := fun.MergeIterators(its...)
			_ = drain(ctx, it, &r.out)
			r.err = it.Close()
			r.ordered, r.errOK = false, true
		}},
		// a worker count below one means one worker, whichever way the option is supplied
		{"ProcessParallel/NumWorkers<1", func(ctx context.Context, in []int, w int, r *result) {
			conf := &fun.WorkerGroupConf{NumWorkers: 1 - w} // 0, -1
			err := fun.SliceIterator(in).ProcessParallel(func(_ context.Context, v int) error { r.out = append(r.out, v); return nil }, fun.WorkerGroupConfSet(conf)).Run(ctx)
			r.err = err
			r.ordered = true
		}},
		{"itertool.Map/NumWorkers<1", func(ctx context.Context, in []int, w int, r *result) {
			conf := &fun.WorkerGroupConf{NumWorkers: 1 - w}
			it := itertool.Map(fun.SliceIterator(in), func(_ context.Context, v int) (int, error) { return v, nil }, fun.WorkerGroupConfSet(conf))
			_ = drain(ctx, it, &r.out)
			r.err = it.Close()
			r.ordered = true
		}},
		// Split outputs consumed the iterator way (Next / Value), one goroutine per output
		{"Split/NextValue", func(ctx context.Context, in []int, w int, r *result) {
			parts := fun.SliceIterator(in).Split(w)
			fin := make(chan struct{}, len(parts))
			for _, p := range parts {
				p := p
				go func() {
					for p.Next(ctx) {
						r.out = append(r.out, p.Value())
					}
					fin <- struct{}{}
				}()
			}
			for range parts {
				<-fin
			}
			r.ordered = w == 1
		}},
		// fan-out followed by fan-in
		{"Split+MergeIterators", func(ctx context.Context, in []int, w int, r *result) {
			it := fun.MergeIterators(fun.SliceIterator(in).Split(w)...)
			_ = drain(ctx, it, &r.out)
			r.err = it.Close()
			r.ordered = w == 1
		}},
		// two fan-out stages reading one channel-backed iterator at the same time
		{"TwoSplitsOfOneChannelIterator", func(ctx context.Context, in []int, w int, r *result) {
			ch := make(chan int, len(in))
			for _, v := range in {
				ch <- v
			}
			close(ch)
			src := fun.ChannelIterator(ch)
			stages := []*fun.Iterator[int]{src.Split(1)[0], src.Split(1)[0]}
			fin := make(chan struct{}, 2)
			for _, st := range stages {
				st := st
				go func() { _ = drain(ctx, st, &r.out); fin <- struct{}{} }()
			}
			<-fin
			<-fin
			r.ordered = false
		}},
		{"GenerateParallel", func(ctx context.Context, in []int, w int, r *result) {
			var next atomic.Int64
			n := int64(len(in))
			it := fun.Producer[int](func(context.Context) (int, error) {
				v := next.Add(1)
				if v > n {
					return 0, io.EOF
				}
				return int(v), nil
			}).GenerateParallel(nw(w))
			_ = drain(ctx, it, &r.out)
			r.err = it.Close()
			r.ordered = w == 1
		}},
		{"ConcurrentReadOne", func(ctx context.Context, in []int, w int, r *result) {
			ch := make(chan int, len(in))
			for _, v := range in {
				ch <- v
			}
			close(ch)
			it := fun.ChannelIterator(ch)
			fin := make(chan struct{}, w)
			for i := 0; i < w; i++ {
				go func() { _ = drain(ctx, it, &r.out); fin <- struct{}{} }()
			}
			for i := 0; i < w; i++ {
				<-fin
			}
			r.ordered = w == 1
		}},
		{"HF.WorkerPool", func(ctx context.Context, in []int, w int, r *result) {
			ws := make([]fun.Worker, len(in))
			for i, v := range in {
				v := v
				ws[i] = func(context.Context) error { r.out = append(r.out, v); return nil }
			}
			r.err = fun.HF.WorkerPool(fun.SliceIterator(ws)).Run(ctx)
		}},
		{"HF.OperationPool", func(ctx context.Context, in []int, w int, r *result) {
			ops := make([]fun.Operation, len(in))
			for i, v := range in {
				v := v
				ops[i] = func(context.Context) { r.out = append(r.out, v) }
			}
			fun.HF.OperationPool(fun.SliceIterator(ops)).Run(ctx)
		}},
	}
}

func scenario(c construct, n, w int) vs.Scenario {
	return func() (func(), func(*vs.End) (string, string)) {
		r := &result{}
		in := input(n)
		body := func() {
			ctx, cancel := context.WithCancel(context.Background())
			c.run(ctx, in, w, r)
			r.done = true
			vs.Quiesce()
			cancel()
		}
		check := func(e *vs.End) (string, string) {
			if len(e.Panics) > 0 {
				return "panic/" + e.Panics[0].Site, e.Panics[0].Value
			}
			if !r.done {
				return "deadlock/" + e.Status.String() + "/" + e.LibSites(), fmt.Sprintf("delivered %v of %v; stuck: %+v", r.out, in, e.Stuck)
			}
			got := append([]int(nil), r.out...)
			if !r.ordered {
				sort.Ints(got)
			}
			if fmt.Sprint(got) != fmt.Sprint(in) {
				tag := "lost-or-duplicated"
				if r.ordered && len(got) == len(in) {
					s := append([]int(nil), got...)
					sort.Ints(s)
					if fmt.Sprint(s) == fmt.Sprint(in) {
						tag = "order"
					}
				}
				return tag, fmt.Sprintf("%s n=%d w=%d: input %v, output %v (err=%v)", c.name, n, w, in, r.out, r.err)
			}
			if r.err != nil && !r.errOK {
				return "unexpected-error", fmt.Sprintf("%s n=%d w=%d: %v", c.name, n, w, r.err)
			}
			return "", ""
		}
		return body, check
	}
}

func build(tier string) ([]runner.Instance, time.Duration) {
	bound, budget := 2, 80*time.Second
	maxN, maxW := 2, 2
	if tier == "thorough" {
		bound, budget, maxN, maxW = 3, 14*time.Minute, 3, 3
	}
	var out []runner.Instance
	for _, c := range constructs() {
		if strings.HasSuffix(c.name, "/backpressure") {
			// inputs longer than buffer + workers (+1 taken by the consumer), smaller bound
			for w := 1; w <= maxW; w++ {
				for n := 2*w + 1; n <= 2*w+2; n++ {
					out = append(out, runner.Instance{Group: c.name, Name: fmt.Sprintf("%s/n=%d,w=%d", c.name, n, w), Bound: bound - 1, Scenario: scenario(c, n, w)})
				}
			}
			continue
		}
		for n := 0; n <= maxN; n++ {
			for w := 1; w <= maxW; w++ {
				out = append(out, runner.Instance{Group: c.name, Name: fmt.Sprintf("%s/n=%d,w=%d", c.name, n, w), Bound: bound, Scenario: scenario(c, n, w)})
			}
		}
	}
	return out, budget
}

func main() {
	runner.Main(runner.Options{Property: "C01", Level: "exploration", Build: build, RacePoints: true,
		Assume: []string{"model of sync/context/channels in verif/vs (DESIGN §2.2)", "small scope: <=3 items, <=3 workers / outputs / sources", "runtime.NumCPU seam = 2"}})
}
