// C14: fun.WaitGroup — Wait returns iff the counter is zero or its context ended.
// Exhaustive schedule exploration (deviation bounded) of small closed programs
// over the real fun.WaitGroup, instrumented by vinstr.
package main

import (
	"context"
	"errors"
	"fmt"
	"time"

	"github.com/tychoish/fun"
	"verif/vs"
	"verif/vs/runner"
)

type waitRec struct {
	call, ret   int
	ctxCanceled bool // ctx was cancelled (cancel invoked) before Wait returned
}

func stuckTag(e *vs.End) (string, string) {
	if len(e.Panics) > 0 {
		return "panic/" + e.Panics[0].Site, e.Panics[0].Value
	}
	if e.NonTerminating() {
		return "livelock/" + e.LibSites(), e.StuckSites()
	}
	if e.Status != vs.Clean {
		return "stuck/" + e.LibSites(), fmt.Sprintf("threads never returned: %+v", e.Stuck)
	}
	return "", ""
}

// workers: main Add(w); k waiters; w workers each Done. Safety: a Wait (live
// ctx) may not return before all w Done calls have at least been invoked.
func workersScenario(k, w int, addFirst bool) vs.Scenario {
	return func() (func(), func(*vs.End) (string, string)) {
		wg := &fun.WaitGroup{}
		waits := make([]waitRec, k)
		doneStart := make([]int, w)
		var num int
		body := func() {
			ctx := context.Background()
			wg.Add(w)
			fin := make(chan struct{}, k+w)
			for i := 0; i < k; i++ {
				i := i
				go func() {
					waits[i].call = vs.Now()
					wg.Wait(ctx)
					waits[i].ret = vs.Now()
					fin <- struct{}{}
				}()
			}
			for j := 0; j < w; j++ {
				j := j
				go func() {
					doneStart[j] = vs.Now()
					wg.Done()
					fin <- struct{}{}
				}()
			}
			for i := 0; i < k+w; i++ {
				<-fin
			}
			num = wg.Num()
		}
		check := func(e *vs.End) (string, string) {
			if t, d := stuckTag(e); t != "" {
				return t, d
			}
			for i, wr := range waits {
				started := 0
				for _, s := range doneStart {
					if s <= wr.ret {
						started++
					}
				}
				if started < w {
					return "wait-returned-early", fmt.Sprintf("waiter %d returned at %d with only %d of %d Done calls invoked", i, wr.ret, started, w)
				}
			}
			if num != 0 {
				return "counter-mismatch", fmt.Sprintf("Num()=%d after Add(%d) and %d Done", num, w, w)
			}
			return "", ""
		}
		return body, check
	}
}

// cancel: counter stays positive, the waiter's context is cancelled by another
// thread at an arbitrary point: Wait must return.
func cancelScenario(k int) vs.Scenario {
	return func() (func(), func(*vs.End) (string, string)) {
		wg := &fun.WaitGroup{}
		returned := 0
		body := func() {
			wg.Add(1)
			fin := make(chan struct{}, k)
			cancels := make([]context.CancelFunc, k)
			for i := 0; i < k; i++ {
				ctx, cancel := context.WithCancel(context.Background())
				cancels[i] = cancel
				go func() {
					wg.Wait(ctx)
					returned++
					fin <- struct{}{}
				}()
			}
			for i := 0; i < k; i++ {
				cancels[i]()
			}
			for i := 0; i < k; i++ {
				<-fin
			}
		}
		check := func(e *vs.End) (string, string) {
			if t, d := stuckTag(e); t != "" {
				return "cancelled-waiter-" + t, d
			}
			return "", ""
		}
		return body, check
	}
}

// reuse: two rounds on the same group; a waiter of round 1 and of round 2.
func reuseScenario() vs.Scenario {
	return func() (func(), func(*vs.End) (string, string)) {
		wg := &fun.WaitGroup{}
		var r1ret, d1start, r2ret, d2start int
		body := func() {
			ctx := context.Background()
			fin := make(chan struct{}, 4)
			wg.Add(1)
			go func() { wg.Wait(ctx); r1ret = vs.Now(); fin <- struct{}{} }()
			go func() { d1start = vs.Now(); wg.Done(); fin <- struct{}{} }()
			<-fin
			<-fin
			wg.Add(1)
			go func() { wg.Wait(ctx); r2ret = vs.Now(); fin <- struct{}{} }()
			go func() { d2start = vs.Now(); wg.Done(); fin <- struct{}{} }()
			<-fin
			<-fin
		}
		check := func(e *vs.End) (string, string) {
			if t, d := stuckTag(e); t != "" {
				return t, d
			}
			if r1ret < d1start || r2ret < d2start {
				return "wait-returned-early", fmt.Sprintf("r1=%d d1=%d r2=%d d2=%d", r1ret, d1start, r2ret, d2start)
			}
			return "", ""
		}
		return body, check
	}
}

// launch: Launch / DoTimes / Operation.Add account for the goroutines they
// start: Wait (live ctx) returns only after every launched operation finished.
func launchScenario(kind string, n int) vs.Scenario {
	return func() (func(), func(*vs.End) (string, string)) {
		wg := &fun.WaitGroup{}
		finished := 0
		atReturn := -1
		var num int
		body := func() {
			ctx := context.Background()
			op := fun.Operation(func(context.Context) { vs.Yield(); finished++ })
			switch kind {
			case "launch":
				for i := 0; i < n; i++ {
					wg.Launch(ctx, op)
				}
			case "dotimes":
				wg.DoTimes(ctx, n, op)
			case "opadd":
				for i := 0; i < n; i++ {
					op.Add(ctx, wg)
				}
			case "startgroup":
				op.StartGroup(ctx, wg, n)
			}
			wg.Wait(ctx)
			atReturn = finished
			num = wg.Num()
		}
		check := func(e *vs.End) (string, string) {
			if t, d := stuckTag(e); t != "" {
				return t, d
			}
			if atReturn != n {
				return "wait-does-not-cover-launched", fmt.Sprintf("%s: Wait returned with %d of %d operations finished", kind, atReturn, n)
			}
			if num != 0 {
				return "counter-mismatch", fmt.Sprint(num)
			}
			return "", ""
		}
		return body, check
	}
}

// negative: an Add that would make the counter negative panics with an
// invariant violation and leaves the counter unchanged, also next to a
// concurrent Add.
func negativeScenario(pre int) vs.Scenario {
	return func() (func(), func(*vs.End) (string, string)) {
		wg := &fun.WaitGroup{}
		var perr error
		var panicked bool
		var num int
		body := func() {
			wg.Add(pre)
			fin := make(chan struct{}, 2)
			go func() {
				defer func() {
					if r := recover(); r != nil {
						panicked = true
						perr, _ = r.(error)
					}
					fin <- struct{}{}
				}()
				wg.Add(-(pre + 1))
			}()
			go func() { wg.Inc(); fin <- struct{}{} }()
			<-fin
			<-fin
			num = wg.Num()
		}
		check := func(e *vs.End) (string, string) {
			if t, d := stuckTag(e); t != "" {
				return t, d
			}
			// the negative Add legitimately succeeds iff it ran after the
			// concurrent Inc had raised the counter to pre+1
			if !panicked {
				if num != 0 {
					return "negative-add/counter-mismatch", fmt.Sprintf("no panic, Num()=%d", num)
				}
				return "", ""
			}
			if perr == nil || !errors.Is(perr, fun.ErrInvariantViolation) {
				return "negative-add/not-invariant-violation", fmt.Sprint(perr)
			}
			if num != pre+1 {
				return "negative-add/counter-changed", fmt.Sprintf("Num()=%d want %d", num, pre+1)
			}
			return "", ""
		}
		return body, check
	}
}

// sibling: the counter stays positive; several waiters, each with its own
// context; only waiter 0's context is cancelled. At quiescence waiter 0 has
// returned and every other waiter (live context, positive counter) has not.
// Then the last Done releases them all.
func siblingScenario(k int, via string) vs.Scenario {
	return func() (func(), func(*vs.End) (string, string)) {
		wg := &fun.WaitGroup{}
		returned := make([]bool, k)
		atQuiet := make([]bool, k)
		quiet := false
		body := func() {
			wg.Add(1)
			fin := make(chan struct{}, k)
			cancels := make([]context.CancelFunc, k)
			for i := 0; i < k; i++ {
				i := i
				ctx, cancel := context.WithCancel(context.Background())
				cancels[i] = cancel
				go func() {
					switch via {
					case "worker":
						_ = wg.Worker()(ctx)
					case "operation":
						wg.Operation()(ctx)
					default:
						wg.Wait(ctx)
					}
					returned[i] = true
					vs.Progress()
					fin <- struct{}{}
				}()
			}
			cancels[0]()
			vs.Quiesce()
			copy(atQuiet, returned)
			quiet = true
			wg.Done()
			for i := 0; i < k; i++ {
				<-fin
			}
			for _, c := range cancels {
				c()
			}
		}
		check := func(e *vs.End) (string, string) {
			if quiet {
				if !atQuiet[0] {
					return "cancelled-waiter-still-blocked", "waiter 0 did not return although its context was cancelled"
				}
				for i := 1; i < k; i++ {
					if atQuiet[i] {
						return "wait-returned-early/live-context", fmt.Sprintf("waiter %d returned with counter 1 and a live context after a sibling's context was cancelled", i)
					}
				}
			}
			if t, d := stuckTag(e); t != "" {
				return t, d
			}
			return "", ""
		}
		return body, check
	}
}

// account: with `pre` operations outstanding, Launch / DoTimes / Operation.Add
// / StartGroup / Processor.Add called for n goroutines (n may be zero or
// negative: nothing starts) change the counter by exactly the number of
// goroutines they start: at quiescence Num() == pre and max(n,0) operations
// ran; a Wait started before the call does not return before the pre-existing
// work is done.
func accountScenario(kind string, pre, n int) vs.Scenario {
	return func() (func(), func(*vs.End) (string, string)) {
		wg := &fun.WaitGroup{}
		finished, numAtQuiet := 0, -1
		waiterAtQuiet, waiterDone := false, false
		var perr any
		body := func() {
			ctx := context.Background()
			wg.Add(pre)
			fin := make(chan struct{}, 1)
			if pre > 0 {
				go func() { wg.Wait(ctx); waiterDone = true; fin <- struct{}{} }()
			}
			op := fun.Operation(func(context.Context) { vs.Yield(); finished++ })
			func() {
				defer func() { perr = recover() }()
				switch kind {
				case "dotimes":
					wg.DoTimes(ctx, n, op)
				case "startgroup":
					op.StartGroup(ctx, wg, n)
				case "launch":
					for i := 0; i < n; i++ {
						wg.Launch(ctx, op)
					}
				case "opadd":
					for i := 0; i < n; i++ {
						op.Add(ctx, wg)
					}
				case "procadd":
					pf := fun.Processor[int](func(context.Context, int) error { vs.Yield(); finished++; return nil })
					for i := 0; i < n; i++ {
						pf.Add(ctx, wg, func(error) {}, i)
					}
				}
			}()
			vs.Quiesce()
			numAtQuiet = wg.Num()
			waiterAtQuiet = waiterDone
			if numAtQuiet >= pre {
				wg.Add(-pre)
			}
			wg.Wait(ctx)
			if pre > 0 {
				<-fin
			}
		}
		check := func(e *vs.End) (string, string) {
			where := fmt.Sprintf("%s pre=%d n=%d", kind, pre, n)
			if perr != nil {
				return "account/panic", where + fmt.Sprintf(": %v", perr)
			}
			started := n
			if started < 0 {
				started = 0
			}
			if numAtQuiet >= 0 {
				if numAtQuiet != pre {
					return "account/counter-not-restored", where + fmt.Sprintf(": %d goroutines started and finished, Num()=%d want %d", started, numAtQuiet, pre)
				}
				if finished != started {
					return "account/started-mismatch", where + fmt.Sprintf(": %d operations ran, want %d", finished, started)
				}
				if waiterAtQuiet {
					return "wait-returned-early", where + ": a Wait returned although the pre-existing work is not done"
				}
			}
			if t, d := stuckTag(e); t != "" {
				return t, where + ": " + d
			}
			return "", ""
		}
		return body, check
	}
}

// rearm: a waiter is parked; the counter reaches zero and is immediately
// raised again (Done; Add(1)) - possibly before the woken waiter has looked -
// and then reaches zero for good. Every waiter is released in the end.
func rearmScenario(k int) vs.Scenario {
	return func() (func(), func(*vs.End) (string, string)) {
		wg := &fun.WaitGroup{}
		var num int
		body := func() {
			ctx := context.Background()
			wg.Add(1)
			fin := make(chan struct{}, k+1)
			for i := 0; i < k; i++ {
				go func() { wg.Wait(ctx); fin <- struct{}{} }()
			}
			go func() {
				wg.Done()
				wg.Add(1)
				wg.Done()
				fin <- struct{}{}
			}()
			for i := 0; i < k+1; i++ {
				<-fin
			}
			num = wg.Num()
		}
		check := func(e *vs.End) (string, string) {
			if t, d := stuckTag(e); t != "" {
				return "rearm/waiter-not-released/" + t, d
			}
			if num != 0 {
				return "counter-mismatch", fmt.Sprint(num)
			}
			return "", ""
		}
		return body, check
	}
}

// observers: Num / IsDone agree with the completed Add/Done calls while other
// threads wait.
func observerScenario() vs.Scenario {
	return func() (func(), func(*vs.End) (string, string)) {
		wg := &fun.WaitGroup{}
		type obs struct {
			t, num int
			done   bool
		}
		var seen []obs
		var addRet, doneCall, doneRet int
		body := func() {
			ctx := context.Background()
			fin := make(chan struct{}, 3)
			wg.Add(1)
			addRet = vs.Now()
			go func() { wg.Wait(ctx); fin <- struct{}{} }()
			go func() {
				n := wg.Num()
				d := wg.IsDone()
				seen = append(seen, obs{vs.Now(), n, d})
				fin <- struct{}{}
			}()
			go func() { doneCall = vs.Now(); wg.Done(); doneRet = vs.Now(); fin <- struct{}{} }()
			for i := 0; i < 3; i++ {
				<-fin
			}
			seen = append(seen, obs{vs.Now(), wg.Num(), wg.IsDone()})
		}
		check := func(e *vs.End) (string, string) {
			if t, d := stuckTag(e); t != "" {
				return t, d
			}
			for _, o := range seen {
				if o.num < 0 || o.num > 1 {
					return "observer/num-out-of-range", fmt.Sprint(o)
				}
				if o.t < doneCall && (o.num != 1 || o.done) {
					return "observer/wrong-before-done", fmt.Sprint(o)
				}
			}
			last := seen[len(seen)-1]
			if last.num != 0 || !last.done {
				return "observer/wrong-after-done", fmt.Sprint(last)
			}
			_, _ = addRet, doneRet
			return "", ""
		}
		return body, check
	}
}

func build(tier string) ([]runner.Instance, time.Duration) {
	b := 3
	budget := 60 * time.Second
	maxK, maxW := 2, 2
	if tier == "thorough" {
		b, budget, maxK, maxW = 5, 12*time.Minute, 2, 3
	}
	var out []runner.Instance
	add := func(group, name string, bound int, sc vs.Scenario) {
		out = append(out, runner.Instance{Group: group, Name: name, Bound: bound, Scenario: sc, NoSpin: true})
	}
	for k := 1; k <= maxK; k++ {
		for w := 1; w <= maxW; w++ {
			add("workers", fmt.Sprintf("workers/k=%d,w=%d", k, w), b, workersScenario(k, w, true))
		}
	}
	for k := 1; k <= maxK; k++ {
		add("cancel", fmt.Sprintf("cancel/k=%d", k), b, cancelScenario(k))
	}
	add("reuse", "reuse", b, reuseScenario())
	for _, kind := range []string{"launch", "dotimes", "opadd", "startgroup"} {
		for n := 1; n <= 2; n++ {
			add("launch", fmt.Sprintf("launch/%s,n=%d", kind, n), b, launchScenario(kind, n))
		}
	}
	for k := 2; k <= maxK+1; k++ {
		for _, via := range []string{"wait", "worker", "operation"} {
			if via != "wait" && k > 2 {
				continue
			}
			add("sibling", fmt.Sprintf("sibling/k=%d,%s", k, via), b-1, siblingScenario(k, via))
		}
	}
	for _, kind := range []string{"dotimes", "startgroup", "launch", "opadd", "procadd"} {
		for pre := 0; pre <= 2; pre++ {
			for n := -2; n <= 2; n++ {
				if n < 0 && kind != "dotimes" && kind != "startgroup" {
					continue
				}
				if n == 2 && pre == 2 && tier != "thorough" {
					continue
				}
				add("account", fmt.Sprintf("account/%s,pre=%d,n=%d", kind, pre, n), 2, accountScenario(kind, pre, n))
			}
		}
	}
	add("observer", "observer", b, observerScenario())
	for k := 1; k <= maxK; k++ {
		add("rearm", fmt.Sprintf("rearm/k=%d", k), b, rearmScenario(k))
	}
	for pre := 0; pre <= 1; pre++ {
		add("negative", fmt.Sprintf("negative/pre=%d", pre), b, negativeScenario(pre))
	}
	return out, budget
}

func main() {
	runner.Main(runner.Options{Property: "C14", Level: "exploration", Build: build, RacePoints: true,
		Assume: []string{"model of sync/context/channels in verif/vs (DESIGN §2.2)", "small scope: <=2 waiters, <=3 workers, <=3 deviations"}})
}
