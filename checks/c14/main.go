// C14: fun.WaitGroup — Wait returns iff the counter is zero or its context ended.
// Exhaustive schedule exploration (deviation bounded) of small closed programs
// over the real fun.WaitGroup, instrumented by vinstr.
package main

import (
	"context"
	"errors"
	"fmt"
	"time"

	"github.com/tychoish/fun"
	"verif/vs"
	"verif/vs/runner"
)

type waitRec struct {
	call, ret   int
	ctxCanceled bool // ctx was cancelled (cancel invoked) before Wait returned
}

func stuckTag(e *vs.End) (string, string) {
	if len(e.Panics) > 0 {
		return "panic/" + e.Panics[0].Site, e.Panics[0].Value
	}
	if e.NonTerminating() {
		return "livelock/" + e.LibSites(), e.StuckSites()
	}
	if e.Status != vs.Clean {
		return "stuck/" + e.LibSites(), fmt.Sprintf("threads never returned: %+v", e.Stuck)
	}
	return "", ""
}

// workers: main Add(w); k waiters; w workers each Done. Safety: a Wait (live
// ctx) may not return before all w Done calls have at least been invoked.
func workersScenario(k, w int, addFirst bool) vs.Scenario {
	return func() (func(), func(*vs.End) (string, string)) {
		wg := &fun.WaitGroup{}
		waits := make([]waitRec, k)
		doneStart := make([]int, w)
		var num int
		body := func() {
			ctx := context.Background()
			wg.Add(w)
			fin := make(chan struct{}, k+w)
			for i := 0; i < k; i++ {
				i := i
				go func() {
					waits[i].call = vs.Now()
					wg.Wait(ctx)
					waits[i].ret = vs.Now()
					fin <- struct{}{}
				}()
			}
			for j := 0; j < w; j++ {
				j := j
				go func() {
					doneStart[j] = vs.Now()
					wg.Done()
					fin <- struct{}{}
				}()
			}
			for i := 0; i < k+w; i++ {
				<-fin
			}
			num = wg.Num()
		}
		check := func(e *vs.End) (string, string) {
			if t, d := stuckTag(e); t != "" {
				return t, d
			}
			for i, wr := range waits {
				started := 0
				for _, s := range doneStart {
					if s <= wr.ret {
						started++
					}
				}
				if started < w {
					return "wait-returned-early", fmt.Sprintf("waiter %d returned at %d with only %d of %d Done calls invoked", i, wr.ret, started, w)
				}
			}
			if num != 0 {
				return "counter-mismatch", fmt.Sprintf("Num()=%d after Add(%d) and %d Done", num, w, w)
			}
			return "", ""
		}
		return body, check
	}
}

// cancel: counter stays positive, the waiter's context is cancelled by another
// thread at an arbitrary point: Wait must return.
func cancelScenario(k int) vs.Scenario {
	return func() (func(), func(*vs.End) (string, string)) {
		wg := &fun.WaitGroup{}
		returned := 0
		body := func() {
			wg.Add(1)
			fin := make(chan struct{}, k)
			cancels := make([]context.CancelFunc, k)
			for i := 0; i < k; i++ {
				ctx, cancel := context.WithCancel(context.Background())
				cancels[i] = cancel
				go func() {
					wg.Wait(ctx)
					returned++
					fin <- struct{}{}
				}()
			}
			for i := 0; i < k; i++ {
				cancels[i]()
			}
			for i := 0; i < k; i++ {
				<-fin
			}
		}
		check := func(e *vs.End) (string, string) {
			if t, d := stuckTag(e); t != "" {
				return "cancelled-waiter-" + t, d
			}
			return "", ""
		}
		return body, check
	}
}

// reuse: two rounds on the same group; a waiter of round 1 and of round 2.
func reuseScenario() vs.Scenario {
	return func() (func(), func(*vs.End) (string, string)) {
		wg := &fun.WaitGroup{}
		var r1ret, d1start, r2ret, d2start int
		body := func() {
			ctx := context.Background()
			fin := make(chan struct{}, 4)
			wg.Add(1)
			go func() { wg.Wait(ctx); r1ret = vs.Now(); fin <- struct{}{} }()
			go func() { d1start = vs.Now(); wg.Done(); fin <- struct{}{} }()
			<-fin
			<-fin
			wg.Add(1)
			go func() { wg.Wait(ctx); r2ret = vs.Now(); fin <- struct{}{} }()
			go func() { d2start = vs.Now(); wg.Done(); fin <- struct{}{} }()
			<-fin
			<-fin
		}
		check := func(e *vs.End) (string, string) {
			if t, d := stuckTag(e); t != "" {
				return t, d
			}
			if r1ret < d1start || r2ret < d2start {
				return "wait-returned-early", fmt.Sprintf("r1=%d d1=%d r2=%d d2=%d", r1ret, d1start, r2ret, d2start)
			}
			return "", ""
		}
		return body, check
	}
}

// launch: Launch / DoTimes / Operation.Add account for the goroutines they
// start: Wait (live ctx) returns only after every launched operation finished.
func launchScenario(kind string, n int) vs.Scenario {
	return func() (func(), func(*vs.End) (string, string)) {
		wg := &fun.WaitGroup{}
		finished := 0
		atReturn := -1
		var num int
		body := func() {
			ctx := context.Background()
			op := fun.Operation(func(context.Context) { vs.Yield(); finished++ })
			switch kind {
			case "launch":
				for i := 0; i < n; i++ {
					wg.Launch(ctx, op)
				}
			case "dotimes":
				wg.DoTimes(ctx, n, op)
			case "opadd":
				for i := 0; i < n; i++ {
					op.Add(ctx, wg)
				}
			case "startgroup":
				op.StartGroup(ctx, wg, n)
			}
			wg.Wait(ctx)
			atReturn = finished
			num = wg.Num()
		}
		check := func(e *vs.End) (string, string) {
			if t, d := stuckTag(e); t != "" {
				return t, d
			}
			if atReturn != n {
				return "wait-does-not-cover-launched", fmt.Sprintf("%s: Wait returned with %d of %d operations finished", kind, atReturn, n)
			}
			if num != 0 {
				return "counter-mismatch", fmt.Sprint(num)
			}
			return "", ""
		}
		return body, check
	}
}

// negative: an Add that would make the counter negative panics with an
// invariant violation and leaves the counter unchanged, also next to a
// concurrent Add.
func negativeScenario(pre int) vs.Scenario {
	return func() (func(), func(*vs.End) (string, string)) {
		wg := &fun.WaitGroup{}
		var perr error
		var panicked bool
		var num int
		body := func() {
			wg.Add(pre)
			fin := make(chan struct{}, 2)
			go func() {
				defer func() {
					if r := recover(); r != nil {
						panicked = true
						perr, _ = r.(error)
					}
					fin <- struct{}{}
				}()
				wg.Add(-(pre + 1))
			}()
			go func() { wg.Inc(); fin <- struct{}{} }()
			<-fin
			<-fin
			num = wg.Num()
		}
		check := func(e *vs.End) (string, string) {
			if t, d := stuckTag(e); t != "" {
				return t, d
			}
			// the negative Add legitimately succeeds iff it ran after the
			// concurrent Inc had raised the counter to pre+1
			if !panicked {
				if num != 0 {
					return "negative-add/counter-mismatch", fmt.Sprintf("no panic, Num()=%d", num)
				}
				return "", ""
			}
			if perr == nil || !errors.Is(perr, fun.ErrInvariantViolation) {
				return "negative-add/not-invariant-violation", fmt.Sprint(perr)
			}
			if num != pre+1 {
				return "negative-add/counter-changed", fmt.Sprintf("Num()=%d want %d", num, pre+1)
			}
			return "", ""
		}
		return body, check
	}
}

func build(tier string) ([]runner.Instance, time.Duration) {
	b := 3
	budget := 60 * time.Second
	maxK, maxW := 2, 2
	if tier == "thorough" {
		b, budget, maxK, maxW = 5, 12*time.Minute, 2, 3
	}
	var out []runner.Instance
	add := func(group, name string, bound int, sc vs.Scenario) {
		out = append(out, runner.Instance{Group: group, Name: name, Bound: bound, Scenario: sc, NoSpin: true})
	}
	for k := 1; k <= maxK; k++ {
		for w := 1; w <= maxW; w++ {
			add("workers", fmt.Sprintf("workers/k=%d,w=%d", k, w), b, workersScenario(k, w, true))
		}
	}
	for k := 1; k <= maxK; k++ {
		add("cancel", fmt.Sprintf("cancel/k=%d", k), b, cancelScenario(k))
	}
	add("reuse", "reuse", b, reuseScenario())
	for _, kind := range []string{"launch", "dotimes", "opadd", "startgroup"} {
		for n := 1; n <= 2; n++ {
			add("launch", fmt.Sprintf("launch/%s,n=%d", kind, n), b, launchScenario(kind, n))
		}
	}
	for pre := 0; pre <= 1; pre++ {
		add("negative", fmt.Sprintf("negative/pre=%d", pre), b, negativeScenario(pre))
	}
	return out, budget
}

func main() {
	runner.Main(runner.Options{Property: "C14", Level: "exploration", Build: build,
		Assume: []string{"model of sync/context/channels in verif/vs (DESIGN §2.2)", "small scope: <=2 waiters, <=3 workers, <=3 deviations"}})
}
