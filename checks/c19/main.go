// Check C19: HDR histogram conserves counts and answers quantiles within its
// precision. Exhaustive input enumeration (no randomness) over a finite grid of
// shapes, values and quantiles; see seqpart for the bounds and the oracle.
package main

import (
	"flag"
	"os"

	"verif/checks/c19/seqpart"
	"verif/rep"
)

func main() {
	tier := flag.String("tier", "quick", "quick|thorough")
	flag.Parse()
	r := rep.New("C19", *tier, "model_checking")
	seqpart.Run(r, *tier)
	os.Exit(r.Finish())
}
