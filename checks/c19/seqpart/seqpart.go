// Package seqpart is the C19 harness: exhaustive (never sampled) enumeration
// of histogram shapes x recorded multisets x quantiles, checked against an
// oracle that is a sorted run-length list of the recorded values and the
// arithmetic of the property statement only.
//
// # Reading of the statement
//
//   - "recording any values in [min, max] always succeeds": RecordValue /
//     RecordValues return nil for every min <= v <= max.
//   - "TotalCount equals the number of recorded occurrences": sum of n over the
//     accepted RecordValues(v, n) calls.
//   - "for every quantile whose rank is at least one ValueAtQuantile returns a
//     value v with exact <= v and v - exact ... at most max(2^floor(log2 min),
//     exact / 10^sigfigs)": the statement does not say how a quantile q maps to
//     a rank. The property's anchor says "cumulative walk to round(q/100*total)".
//     Candidate ranks are therefore round-half-up, round-half-down and ceil of
//     x = q/100*total (computed with a 1e-6 tolerance against float noise,
//     totals are kept <= 2e6 so the noise is < 1e-8). A quantile is asserted
//     only if every candidate rank is >= 1, and it passes if the bound holds for
//     the order statistic of any candidate rank. For q = 100*k/total (exact
//     rank) and q = 100 all candidates coincide, so there the check is exact.
//     The bound is evaluated in integers: d = v - exact is accepted iff
//     0 <= d and (d <= unit or d*10^sigfigs <= exact), unit = 2^floor(log2 min).
//   - "Min and Max bracket the smallest and largest recorded value with the same
//     precision": Min() <= smallest, smallest - Min() within the bound at
//     smallest; Max() >= largest, Max() - largest within the bound at largest.
//   - Export -> Import and Merge into an empty histogram of the same shape give
//     a histogram for which Equals (both directions) holds, Merge returns 0.
//   - no call panics (every case runs under recover).
//
// When a record call is rejected the rejection is reported and the value is
// left out of the model, so the remaining oracles stay meaningful.
package seqpart

import (
	"fmt"
	"math"
	"math/bits"
	"os"
	"runtime"
	"sort"
	"sync"
	"sync/atomic"
	"time"

	"github.com/tychoish/fun/dt/hdrhist"

	"verif/rep"
)

// Shape is one (min, max, sigfigs) configuration.
type Shape struct {
	Min int64 `json:"min"`
	Max int64 `json:"max"`
	Sig int   `json:"sigfigs"`
}

// Rec is one RecordValue(V) (N == 1) or RecordValues(V, N) call.
type Rec struct {
	V int64 `json:"v"`
	N int64 `json:"n"`
}

type replay struct {
	Shape    Shape  `json:"shape"`
	Records  []Rec  `json:"records"`
	Op       string `json:"op"`
	Arg      any    `json:"arg,omitempty"`
	Observed any    `json:"observed"`
	Expected string `json:"expected"`
	Go       string `json:"go"`
}

type finding struct {
	sig    string
	rp     replay
	weight [4]int64 // smaller = simpler reproducer
}

// acc is the per-worker accumulator.
type acc struct {
	cases, calls, asserted int
	skippedQ               int
	found                  map[string]finding
}

func (a *acc) fail(sig string, c *kase, op string, arg any, observed any, expected string) {
	var n int64
	for _, r := range c.recs {
		n += r.N
	}
	f := finding{sig: sig, weight: [4]int64{int64(len(c.recs)), n, c.sh.Max, int64(c.sh.Sig)*1_000_000 + c.sh.Min}}
	if old, ok := a.found[sig]; ok && !less(f.weight, old.weight) {
		return
	}
	g := fmt.Sprintf("h := hdrhist.New(%d, %d, %d)", c.sh.Min, c.sh.Max, c.sh.Sig)
	for _, r := range c.recs {
		if r.N == 1 {
			g += fmt.Sprintf("; h.RecordValue(%d)", r.V)
		} else {
			g += fmt.Sprintf("; h.RecordValues(%d, %d)", r.V, r.N)
		}
	}
	if op == "" {
		g += " // last call returns the error"
	} else if arg != nil {
		g += fmt.Sprintf("; h.%s(%v)", op, arg)
	} else {
		g += fmt.Sprintf("; %s", op)
	}
	f.rp = replay{Shape: c.sh, Records: append([]Rec(nil), c.recs...), Op: op, Arg: arg, Observed: observed, Expected: expected, Go: g}
	a.found[sig] = f
}

func less(a, b [4]int64) bool {
	for i := range a {
		if a[i] != b[i] {
			return a[i] < b[i]
		}
	}
	return false
}

// ---------------------------------------------------------------- geometry
// (only what the statement mentions: the unit 2^floor(log2 min) and the
// number of distinct values 10^sigfigs needs; used for choosing inputs and for
// the precision bound, never for predicting bucket indexes).

func unitOf(min int64) int64 { return int64(1) << uint(bits.Len64(uint64(min))-1) }

func pow10(s int) int64 {
	p := int64(1)
	for i := 0; i < s; i++ {
		p *= 10
	}
	return p
}

// subCount is the smallest power of two >= 2*10^sigfigs.
func subCount(sig int) int64 {
	s := int64(1)
	for s < 2*pow10(sig) {
		s <<= 1
	}
	return s
}

func within(d, exact, unit int64, sig int) bool {
	if d < 0 {
		return false
	}
	return d <= unit || d*pow10(sig) <= exact
}

// estimated number of count slots walked by a full iteration (budgeting only).
func estSlots(sh Shape) int64 {
	s := subCount(sh.Sig)
	b := s * unitOf(sh.Min)
	k := int64(0)
	for b < sh.Max {
		b <<= 1
		k++
	}
	return (k + 2) * s / 2
}

// ---------------------------------------------------------------- inputs

func shapes(tier string) []Shape {
	var out []Shape
	seen := map[Shape]bool{}
	add := func(sh Shape) {
		if sh.Max < sh.Min || seen[sh] {
			return
		}
		seen[sh] = true
		out = append(out, sh)
	}
	for _, sig := range []int{1, 2, 3, 4, 5} {
		for _, min := range []int64{1, 2, 3, 8, 1000} {
			base := subCount(sig) * unitOf(min)
			if tier == "thorough" {
				for k := uint(0); k <= 6; k++ {
					b := base << k
					add(Shape{min, b - 1, sig})
					add(Shape{min, b, sig})
					add(Shape{min, b + 1, sig})
				}
				add(Shape{min, base + base/2, sig})
				add(Shape{min, 4*base + 2*base, sig})
				add(Shape{min, 5*base + base/3, sig})
				add(Shape{min, 37*base + base/7, sig})
				add(Shape{min, min + 7, sig})
				add(Shape{min, min, sig})
				add(Shape{min, 2 * min, sig})
			} else {
				add(Shape{min, base, sig})            // boundary k=0
				add(Shape{min, base + 1, sig})        // just above
				add(Shape{min, 2*base - 1, sig})      // just below k=1
				add(Shape{min, 2 * base, sig})        // boundary k=1
				add(Shape{min, 8 * base, sig})        // boundary k=3
				add(Shape{min, 5*base + base/3, sig}) // not a boundary
			}
		}
	}
	return out
}

// boundaryValues returns the sorted full boundary set of a shape and a
// priority-ordered "core" subset used for multisets.
func boundaryValues(sh Shape) (full []int64, core []int64) {
	unit := unitOf(sh.Min)
	s := subCount(sh.Sig)
	base := s * unit
	inRange := func(v int64) bool { return v >= sh.Min && v <= sh.Max }
	fseen := map[int64]bool{}
	addF := func(vs ...int64) {
		for _, v := range vs {
			if inRange(v) && !fseen[v] {
				fseen[v] = true
				full = append(full, v)
			}
		}
	}
	cseen := map[int64]bool{}
	addC := func(vs ...int64) {
		for _, v := range vs {
			if inRange(v) && !cseen[v] {
				cseen[v] = true
				core = append(core, v)
			}
		}
		addF(vs...)
	}
	// core, by priority
	addC(sh.Min, sh.Max, sh.Max-1, sh.Min+1)
	top := base // largest bucket boundary <= max
	for top*2 <= sh.Max {
		top *= 2
	}
	wTop := top / s * 2 // width of the sub-buckets above top
	addC(top-1, top, top+wTop-1, top+wTop)
	addC(base-1, base, base/2)
	p := int64(1)
	for p <= sh.Min {
		p <<= 1
	}
	addC(p-1, p)
	addC(sh.Min + (sh.Max-sh.Min)/2)
	addC(sh.Min+(sh.Max-sh.Min)/3, p+1, base/2-1, base+1)
	// full: every power of two and every bucket edge
	for q := int64(1); q > 0 && q/2 <= sh.Max; q <<= 1 {
		addF(q-1, q, q+1, q+q/2-1, q+q/2, q+q/2+1)
	}
	for b := base; b > 0 && b/2 <= sh.Max; b <<= 1 {
		w := b / s * 2 // width of sub-buckets in the bucket starting at b
		addF(b-1, b, b+1, b+w-1, b+w, b+w+1, b+w*(s/4)-1, b+w*(s/4), 2*b-w-1, 2*b-w, 2*b-1)
		hw := w / 2 // widths in the bucket below b
		if hw > 0 {
			addF(b-hw-1, b-hw, b-hw+1)
		}
	}
	addF(3*sh.Min, 10*sh.Min, sh.Min+unit-1, sh.Min+unit, sh.Min+2*unit)
	sort.Slice(full, func(i, j int) bool { return full[i] < full[j] })
	return full, core
}

// ---------------------------------------------------------------- one case

type kase struct {
	sh   Shape
	recs []Rec
	rt   bool // Export/Import + Merge round trips
	aux  bool // Mean/StdDev/CumulativeDistribution/Distribution (panic oracle only)
	// light: only the quantile 100 (a single recorded value has one rank; most
	// other standard quantiles map to rank < 1 under some convention).
	light bool
	sym   bool // also evaluate Equals with receiver and argument swapped
}

const tol = 1e-6

func runCase(c *kase, a *acc) {
	a.cases++
	cur := "New"
	var curArg any
	defer func() {
		if p := recover(); p != nil {
			a.fail("case/panic/"+cur, c, cur, curArg, fmt.Sprint(p), "no panic on a valid call sequence")
		}
	}()
	h := hdrhist.New(c.sh.Min, c.sh.Max, c.sh.Sig)
	a.calls++
	unit := unitOf(c.sh.Min)

	// record + model
	model := make([]Rec, 0, len(c.recs))
	for _, r := range c.recs {
		var err error
		curArg = r.V
		if r.N == 1 {
			cur = "RecordValue"
			err = h.RecordValue(r.V)
		} else {
			cur = "RecordValues"
			err = h.RecordValues(r.V, r.N)
		}
		a.calls++
		a.asserted++
		if err != nil {
			site := "interior"
			switch r.V {
			case c.sh.Max:
				site = "max"
			case c.sh.Min:
				site = "min"
			}
			var arg any = r.V
			if r.N != 1 {
				arg = fmt.Sprintf("%d, %d", r.V, r.N)
			}
			a.fail("record/rejected-in-range/"+site, &kase{sh: c.sh, recs: []Rec{r}}, "", arg, err.Error(), "nil error for min <= v <= max")
			continue
		}
		model = append(model, r)
	}
	curArg = nil
	sort.SliceStable(model, func(i, j int) bool { return model[i].V < model[j].V })
	w := 0
	for _, r := range model {
		if w > 0 && model[w-1].V == r.V {
			model[w-1].N += r.N
		} else {
			model[w] = r
			w++
		}
	}
	model = model[:w]
	var total int64
	for _, r := range model {
		total += r.N
	}
	orderStat := func(rank int64) int64 {
		var cum int64
		for _, r := range model {
			cum += r.N
			if cum >= rank {
				return r.V
			}
		}
		return model[len(model)-1].V
	}

	cur = "TotalCount"
	a.calls++
	a.asserted++
	if got := h.TotalCount(); got != total {
		a.fail("count/total-mismatch/TotalCount", c, cur, nil, got, fmt.Sprint(total))
	}

	// quantiles
	qs := []float64{0.001, 50, 99.999, 100}
	if c.light {
		qs = []float64{100}
	}
	if total > 0 && !c.light {
		ranks := map[int64]bool{1: true, total: true, (total + 1) / 2: true}
		if total <= 8 {
			for k := int64(1); k <= total; k++ {
				ranks[k] = true
			}
		}
		var cum int64
		for _, r := range model {
			cum += r.N
			ranks[cum] = true
			if cum < total {
				ranks[cum+1] = true
			}
		}
		rs := make([]int64, 0, len(ranks))
		for k := range ranks {
			rs = append(rs, k)
		}
		sort.Slice(rs, func(i, j int) bool { return rs[i] < rs[j] })
		for _, k := range rs {
			if k < total { // k == total is q=100, already there
				qs = append(qs, 100*float64(k)/float64(total))
			}
		}
	}
	sort.Float64s(qs)
	for qi, q := range qs {
		if qi > 0 && qs[qi-1] == q {
			continue
		}
		cur, curArg = "ValueAtQuantile", q
		v := h.ValueAtQuantile(q)
		a.calls++
		if total == 0 {
			continue // nothing recorded: only the panic oracle applies
		}
		x := q / 100 * float64(total)
		cands := [3]int64{int64(math.Floor(x + 0.5 - tol)), int64(math.Floor(x + 0.5 + tol)), int64(math.Ceil(x - tol))}
		ok, assertable := false, true
		for i := range cands {
			if cands[i] > total {
				cands[i] = total
			}
			if cands[i] < 1 {
				assertable = false
			}
		}
		if !assertable {
			a.skippedQ++
			continue
		}
		a.asserted++
		for _, k := range cands {
			ex := orderStat(k)
			if ex <= v && within(v-ex, ex, unit, c.sh.Sig) {
				ok = true
			}
		}
		if !ok {
			ex := orderStat(cands[1])
			tag := "precision-exceeded"
			if v < ex {
				tag = "below-exact"
			}
			a.fail("quantile/"+tag+"/ValueAtQuantile", c, cur, q, v,
				fmt.Sprintf("exact=%d (rank %v of %d) <= v and v-exact <= max(%d, exact/10^%d)", ex, cands, total, unit, c.sh.Sig))
		}
	}
	curArg = nil

	// Min / Max
	cur = "Min"
	mn := h.Min()
	a.calls++
	cur = "Max"
	mx := h.Max()
	a.calls++
	if total > 0 {
		lo, hi := model[0].V, model[len(model)-1].V
		a.asserted += 2
		switch {
		case mn > lo:
			a.fail("minmax/not-bracketing/Min", c, "Min", nil, mn, fmt.Sprintf("<= smallest recorded %d", lo))
		case !within(lo-mn, lo, unit, c.sh.Sig):
			a.fail("minmax/precision-exceeded/Min", c, "Min", nil, mn, fmt.Sprintf("within max(%d, %d/10^%d) below %d", unit, lo, c.sh.Sig, lo))
		}
		switch {
		case mx < hi:
			a.fail("minmax/not-bracketing/Max", c, "Max", nil, mx, fmt.Sprintf(">= largest recorded %d", hi))
		case !within(mx-hi, hi, unit, c.sh.Sig):
			a.fail("minmax/precision-exceeded/Max", c, "Max", nil, mx, fmt.Sprintf("within max(%d, %d/10^%d) above %d", unit, hi, c.sh.Sig, hi))
		}
	}

	if c.rt {
		cur = "Export"
		snap := h.Export()
		cur = "Import"
		h2 := hdrhist.Import(snap)
		cur = "Equals"
		e1, e2 := h2.Equals(h), true
		if c.sym {
			e2 = h.Equals(h2)
			a.calls++
		}
		a.calls += 3
		a.asserted++
		if !e1 || !e2 {
			a.fail("roundtrip/not-equal/Import", c, "Import(h.Export()).Equals(h)", nil, []bool{e1, e2}, "true")
		} else if h2.TotalCount() != total {
			a.fail("roundtrip/total-mismatch/Import", c, "Import(h.Export()).TotalCount()", nil, h2.TotalCount(), fmt.Sprint(total))
		} else {
			// an Equal histogram answers every query like the original
			cur = "Max"
			a.asserted += 3
			if g, w := h2.Max(), h.Max(); g != w {
				a.fail("roundtrip/answers-differ/Max", c, "Import(h.Export()).Max()", nil, g, fmt.Sprint(w))
			}
			cur = "Min"
			if g, w := h2.Min(), h.Min(); g != w {
				a.fail("roundtrip/answers-differ/Min", c, "Import(h.Export()).Min()", nil, g, fmt.Sprint(w))
			}
			cur = "ValueAtQuantile"
			for _, q := range []float64{0.001, 50, 100} {
				if g, w := h2.ValueAtQuantile(q), h.ValueAtQuantile(q); g != w {
					a.fail("roundtrip/answers-differ/ValueAtQuantile", c, "Import(h.Export()).ValueAtQuantile", q, g, fmt.Sprint(w))
					break
				}
			}
			a.calls += 10
		}
		cur = "New"
		e := hdrhist.New(c.sh.Min, c.sh.Max, c.sh.Sig)
		cur = "Merge"
		dropped := e.Merge(h)
		cur = "Equals"
		m1, m2 := e.Equals(h), true
		if c.sym {
			m2 = h.Equals(e)
			a.calls++
		}
		a.calls += 3
		a.asserted += 2
		if dropped != 0 {
			a.fail("merge/dropped/Merge", c, "New(shape).Merge(h)", nil, dropped, "0")
		}
		if !m1 || !m2 {
			a.fail("merge/not-equal/Merge", c, "e := New(shape); e.Merge(h); e.Equals(h)", nil, []bool{m1, m2}, "true")
		} else if dropped == 0 {
			cur = "Max"
			a.asserted += 2
			if g, w := e.Max(), h.Max(); g != w {
				a.fail("merge/answers-differ/Max", c, "e := New(shape); e.Merge(h); e.Max()", nil, g, fmt.Sprint(w))
			}
			cur = "Min"
			if g, w := e.Min(), h.Min(); g != w {
				a.fail("merge/answers-differ/Min", c, "e := New(shape); e.Merge(h); e.Min()", nil, g, fmt.Sprint(w))
			}
			a.calls += 4
		}
	}
	if c.rt && c.sym && !c.light && len(model) <= 2 {
		// (small shapes only: these phases allocate three more histograms per case)
		// Merge twice = every count doubled; Reset restores the empty histogram of the
		// shape, and the reset histogram is fully usable again (same records -> Equal).
		cur = "New"
		d := hdrhist.New(c.sh.Min, c.sh.Max, c.sh.Sig)
		cur = "Merge"
		dr := d.Merge(h) + d.Merge(h)
		a.calls += 3
		a.asserted += 2
		if dr != 0 || d.TotalCount() != 2*total {
			a.fail("merge/total-mismatch/Merge-twice", c, "d := New(shape); d.Merge(h); d.Merge(h); d.TotalCount()", nil, fmt.Sprintf("dropped=%d total=%d", dr, d.TotalCount()), fmt.Sprint(2*total))
		}
		cur = "Reset"
		d.Reset()
		cur = "New"
		fresh := hdrhist.New(c.sh.Min, c.sh.Max, c.sh.Sig)
		cur = "Equals"
		a.calls += 4
		a.asserted += 2
		if d.TotalCount() != 0 || !d.Equals(fresh) || !fresh.Equals(d) {
			a.fail("reset/not-empty/Reset", c, "d.Reset(); d.Equals(New(shape))", nil, fmt.Sprintf("total=%d equals=%v", d.TotalCount(), d.Equals(fresh)), "total 0 and Equals")
		} else {
			for _, r := range model {
				cur, curArg = "RecordValues", r.V
				if err := d.RecordValues(r.V, r.N); err != nil {
					a.fail("reset/not-usable-after/Reset", c, "RecordValues after Reset", r.V, err.Error(), "nil")
				}
				a.calls++
			}
			curArg = nil
			cur = "Equals"
			a.asserted++
			if !d.Equals(h) || d.TotalCount() != total {
				a.fail("reset/not-usable-after/Reset", c, "same records after Reset: d.Equals(h)", nil, fmt.Sprintf("equals=%v total=%d", d.Equals(h), d.TotalCount()), fmt.Sprintf("true, %d", total))
			}
		}
		// RecordCorrectedValue(v, i) = RecordValue(v) plus RecordValue(v-k*i) for every
		// k >= 1 with v-k*i >= i: the occurrences it records are all counted, it never
		// fails for v in range, and it never trips an invariant
		if len(model) > 0 && len(model) <= 2 {
			for _, iv := range []int64{0, 1, c.sh.Min, (model[len(model)-1].V + 1) / 2, model[len(model)-1].V} {
				cur = "New"
				x := hdrhist.New(c.sh.Min, c.sh.Max, c.sh.Sig)
				y := hdrhist.New(c.sh.Min, c.sh.Max, c.sh.Sig)
				var want int64
				tooMany := false
				for _, r := range model {
					if iv > 0 && r.V/iv > 64 {
						tooMany = true
					}
				}
				if tooMany {
					continue
				}
				for _, r := range model {
					cur, curArg = "RecordCorrectedValue", fmt.Sprintf("%d, %d", r.V, iv)
					if err := x.RecordCorrectedValue(r.V, iv); err != nil {
						a.fail("record/rejected-in-range/corrected", c, "RecordCorrectedValue", curArg, err.Error(), "nil error for min <= v <= max")
					}
					_ = y.RecordValue(r.V)
					want++
					if iv > 0 && r.V > iv {
						for m := r.V - iv; m >= iv; m -= iv {
							_ = y.RecordValue(m)
							want++
						}
					}
					a.calls += 2
				}
				curArg = nil
				cur = "Equals"
				a.asserted += 2
				if x.TotalCount() != want {
					a.fail("total/mismatch/RecordCorrectedValue", c, fmt.Sprintf("RecordCorrectedValue(v, %d) for every v; TotalCount()", iv), nil, x.TotalCount(), fmt.Sprint(want))
				} else if !x.Equals(y) {
					a.fail("corrected/not-equal/RecordCorrectedValue", c, fmt.Sprintf("RecordCorrectedValue(v, %d) vs the same values recorded one by one", iv), nil, false, "Equals")
				}
			}
		}
	}
	if c.aux {
		cur = "Mean"
		_ = h.Mean()
		cur = "StdDev"
		_ = h.StdDev()
		cur = "CumulativeDistribution"
		_ = h.CumulativeDistribution()
		cur = "Distribution"
		_ = h.Distribution()
		a.calls += 4
	}
}

// ---------------------------------------------------------------- driver

type plan struct {
	sh         Shape
	singles    []int64 // values recorded alone
	singlesAll bool    // singles = every v in [min,max]
	core       []int64
	allCore    []int64
	msize      int // multisets of size 2..msize over core
	heavy      bool
	rt, aux    bool
	rtSingles  bool
	inFull     map[int64]bool
	sym        bool
	slots      int64
	nMultisets int
	nHeavy     int
}

func countMultisets(n, lo, hi int) int {
	// number of multisets of size lo..hi over n values
	t := 0
	for k := lo; k <= hi; k++ {
		c := 1
		for i := 1; i <= k; i++ {
			c = c * (n + i - 1) / i
		}
		t += c
	}
	return t
}

func makePlan(sh Shape, tier string) plan {
	p := plan{sh: sh, slots: estSlots(sh)}
	full, core := boundaryValues(sh)
	singleLimit, maxM, maxCore := int64(1)<<14, 3, 12
	// budget: slot-visits a shape may spend on multiset+heavy cases; each case
	// walks the counts array ~14 times when it contains a large value.
	budget := int64(4e7)
	if tier == "thorough" {
		singleLimit, maxM = 1<<16, 4
		budget = 4e8
	}
	// every value alone only while (number of values x slots walked) stays affordable
	singleWork := int64(1e8)
	if tier == "thorough" {
		singleWork = 17e8
	}
	if sh.Max <= singleLimit && (sh.Max-sh.Min+1)*p.slots <= singleWork {
		p.singlesAll = true
		for v := sh.Min; v <= sh.Max; v++ {
			p.singles = append(p.singles, v)
		}
	} else {
		p.singles = full
	}
	if len(core) > maxCore {
		core = core[:maxCore]
	}
	p.allCore = core
	p.inFull = map[int64]bool{}
	for _, v := range full {
		p.inFull[v] = true
	}
	// pick the largest (msize, |core|) that fits the budget; never below
	// pairs over the 6 highest-priority values.
	p.msize, p.core = 2, core
	if len(p.core) > 6 {
		p.core = core[:6]
	}
	done := false
	for m := maxM; m >= 2 && !done; m-- {
		for _, n := range []int{len(core), 9, 6} {
			if n > len(core) {
				continue
			}
			if int64(countMultisets(n, 2, m))*14*p.slots <= budget {
				p.msize, p.core, done = m, core[:n], true
				break
			}
		}
	}
	p.nMultisets = countMultisets(len(p.core), 2, p.msize)
	p.heavy = true
	// heavy-duplicate cases: 2n single-value + 4n(n-1) ordered-pair cases over
	// the n highest-priority core values, n as large as the same budget allows.
	p.nHeavy = 2
	for _, n := range []int{8, 6, 4, 3} {
		if n <= len(core) && int64(2*n+4*n*(n-1))*14*p.slots <= budget {
			p.nHeavy = n
			break
		}
	}
	if p.nHeavy > len(core) {
		p.nHeavy = len(core)
	}
	p.rt = true
	p.aux = p.slots <= 1<<14
	p.rtSingles = p.slots <= 1<<16
	p.sym = p.slots <= 1<<14
	return p
}

// Run enumerates everything for the tier.
func Run(r *rep.Report, tier string) {
	start := time.Now()
	limit := 50 * time.Second
	if tier == "thorough" {
		limit = 9 * time.Minute
	}
	deadline := start.Add(limit)

	shs := shapes(tier)
	plans := make([]plan, len(shs))
	for i, sh := range shs {
		plans[i] = makePlan(sh, tier)
	}

	var units []func(a *acc)
	var unitShape []int
	for i := range plans {
		p := &plans[i]
		// singles, in chunks
		chunk := int(3e6 / p.slots) // ~0.2 s of work per unit
		if chunk < 1 {
			chunk = 1
		}
		if chunk > 2048 {
			chunk = 2048
		}
		for lo := 0; lo < len(p.singles); lo += chunk {
			hi := lo + chunk
			if hi > len(p.singles) {
				hi = len(p.singles)
			}
			vals := p.singles[lo:hi]
			units = append(units, func(a *acc) {
				for _, v := range vals {
					// round trips: always on small shapes, else only for boundary values
					rt := p.rtSingles && (!p.singlesAll || p.slots <= 1024 || p.inFull[v])
					for _, cv := range p.allCore {
						rt = rt || cv == v
					}
					runCase(&kase{sh: p.sh, recs: []Rec{{v, 1}}, rt: rt, aux: p.aux && !p.singlesAll, light: true, sym: p.sym}, a)
				}
			})
		}
		// the empty histogram (panic oracle + TotalCount)
		units = append(units, func(a *acc) { runCase(&kase{sh: p.sh, rt: true, aux: p.aux, sym: p.sym}, a) })
		// multisets of size 2..msize, one unit per smallest element
		for first := range p.core {
			first := first
			units = append(units, func(a *acc) {
				idx := make([]int, 0, p.msize)
				var recur func(from int)
				recur = func(from int) {
					if len(idx) >= 2 {
						recs := make([]Rec, len(idx))
						for j, ix := range idx {
							recs[j] = Rec{p.core[ix], 1}
						}
						runCase(&kase{sh: p.sh, recs: recs, rt: p.rt, aux: p.aux, sym: p.sym}, a)
					}
					if len(idx) == p.msize {
						return
					}
					for j := from; j < len(p.core); j++ {
						idx = append(idx, j)
						recur(j)
						idx = idx[:len(idx)-1]
					}
				}
				idx = append(idx, first)
				recur(first)
			})
		}
		// heavy duplicates
		if p.heavy {
			hv := p.allCore[:p.nHeavy]
			units = append(units, func(a *acc) {
				for _, v := range hv {
					for _, n := range []int64{1000, 1_000_000} {
						runCase(&kase{sh: p.sh, recs: []Rec{{v, n}}, rt: p.rt, aux: p.aux, sym: p.sym}, a)
					}
				}
			})
			for i := range hv {
				i := i
				units = append(units, func(a *acc) {
					for j := range hv {
						if i == j {
							continue
						}
						for _, ns := range [][2]int64{{1, 999}, {1, 1_000_000}, {500_000, 500_000}, {3, 2}} {
							if ns[0] == ns[1] && j < i {
								continue // same multiset as (j, i)
							}
							runCase(&kase{sh: p.sh, recs: []Rec{{hv[i], ns[0]}, {hv[j], ns[1]}}, rt: p.rt, aux: p.aux, sym: p.sym}, a)
						}
					}
				})
			}
		}
		for len(unitShape) < len(units) {
			unitShape = append(unitShape, i)
		}
	}

	shapeNanos := make([]int64, len(plans))

	// run
	workers := runtime.NumCPU()
	accs := make([]*acc, workers)
	next := make(chan int, len(units))
	order := make([]int, len(units))
	for i := range order {
		order[i] = i
	}
	// most expensive shapes first (better load balance at the tail)
	sort.SliceStable(order, func(x, y int) bool { return plans[unitShape[order[x]]].slots > plans[unitShape[order[y]]].slots })
	for _, i := range order {
		next <- i
	}
	close(next)
	var wg sync.WaitGroup
	var mu sync.Mutex
	skipped := 0
	for w := 0; w < workers; w++ {
		a := &acc{found: map[string]finding{}}
		accs[w] = a
		wg.Add(1)
		go func() {
			defer wg.Done()
			for i := range next {
				if time.Now().After(deadline) {
					mu.Lock()
					skipped++
					mu.Unlock()
					continue
				}
				t0 := time.Now()
				units[i](a)
				atomic.AddInt64(&shapeNanos[unitShape[i]], int64(time.Since(t0)))
			}
		}()
	}
	wg.Wait()

	if os.Getenv("VERIF_C19_DEBUG") != "" {
		for i, p := range plans {
			fmt.Fprintf(os.Stderr, "shape %+v slots=%d singles=%d core=%d m=%d heavy=%d cpu=%.2fs\n", p.sh, p.slots, len(p.singles), len(p.core), p.msize, p.nHeavy, float64(shapeNanos[i])/1e9)
		}
	}

	// merge
	total := acc{found: map[string]finding{}}
	for _, a := range accs {
		total.cases += a.cases
		total.calls += a.calls
		total.asserted += a.asserted
		total.skippedQ += a.skippedQ
		for sig, f := range a.found {
			if old, ok := total.found[sig]; !ok || less(f.weight, old.weight) {
				total.found[sig] = f
			}
		}
	}
	sigs := make([]string, 0, len(total.found))
	for s := range total.found {
		sigs = append(sigs, s)
	}
	sort.Strings(sigs)
	for _, s := range sigs {
		r.Violation(s, total.found[s].rp)
	}

	nSinglesAll, nBoundaryAtExact := 0, 0
	minM, maxM := 99, 0
	for _, p := range plans {
		if p.singlesAll {
			nSinglesAll++
		}
		b := subCount(p.sh.Sig) * unitOf(p.sh.Min)
		for b < p.sh.Max {
			b <<= 1
		}
		if b == p.sh.Max {
			nBoundaryAtExact++
		}
		if p.msize < minM {
			minM = p.msize
		}
		if p.msize > maxM {
			maxM = p.msize
		}
	}
	r.Add("states", total.cases)
	r.Add("transitions", total.calls)
	r.Add("traces_validated_against_impl", total.cases)
	r.Add("evaluations", total.asserted)
	r.Add("distinct_nontrivial", total.cases-len(plans))
	r.Set("shapes", len(plans))
	r.Set("shapes_max_exactly_on_bucket_boundary", nBoundaryAtExact)
	r.Set("shapes_with_every_value_recorded_alone", nSinglesAll)
	r.Set("multiset_size_range_over_shapes", []int{minM, maxM})
	r.Set("quantiles_not_asserted_rank_ambiguous_or_below_one", total.skippedQ)
	r.Set("work_units_skipped_by_deadline", skipped)
	r.Set("exhaustive", skipped == 0)
	r.Set("rule", "shapes: min in {1,2,3,8,1000} x sigfigs 1..5 x max around subBucketCount*unit*2^k (exact, +-1, non-boundary); "+
		"per shape: every v in [min,max] alone when max <= 2^14 (thorough 2^16) and values*slots <= 1e8 (thorough 1.7e9), else the full boundary set (powers of two +-1, 3/2 powers, bucket and sub-bucket edges); "+
		"all multisets of size 2..m over the <=12-value core boundary set, m = 3 (thorough 4) reduced per shape by a slot-visit budget (never below pairs over 6 values); "+
		"heavy duplicates RecordValues(v,n) n in {1000,1e6} and ordered pairs with counts {1:999, 1:1e6, 5e5:5e5, 3:2}; "+
		"quantiles: 100*k/total for every rank (all ranks when total<=8, run edges otherwise), 0.001, 50, 99.999, 100; "+
		"oracle = sorted run-length list; see package doc for the rank convention")
	if len(plans) > 0 {
		p := plans[0]
		r.Sample(map[string]any{"shape": p.sh, "core": p.core, "msize": p.msize, "singles": len(p.singles)})
		p = plans[len(plans)-1]
		r.Sample(map[string]any{"shape": p.sh, "core": p.core, "msize": p.msize, "singles": len(p.singles), "slots": p.slots})
	}
}
