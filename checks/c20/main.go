// C20: non-destructive Queue/Deque iterators see every item in order and never crash.
package main

import (
	"context"
	"errors"
	"fmt"
	"io"
	"strings"
	"time"

	"github.com/tychoish/fun"
	"github.com/tychoish/fun/pubsub"
	"verif/vs"
	"verif/vs/runner"
)

// src adapts one iterator flavour of one container.
type src struct {
	name     string
	blocking bool // continues with later additions and ends with EOF on Close
	fresh    func(pre int) (next func() fun.Producer[int], add func(v int), remove func() (int, bool), closeFn func(), expect func(pre int, adds []int) []int)
}

func seqN(n int) []int {
	out := make([]int, n)
	for i := range out {
		out[i] = i + 1
	}
	return out
}

func rev(in []int) []int {
	out := make([]int, len(in))
	for i, v := range in {
		out[len(in)-1-i] = v
	}
	return out
}

func fwdExpect(pre int, adds []int) []int { return append(seqN(pre), adds...) }
func revExpect(pre int, adds []int) []int { return append(rev(seqN(pre)), adds...) }

func sources() []src {
	queue := func(viaIterator bool) func(int) (func() fun.Producer[int], func(int), func() (int, bool), func(), func(int, []int) []int) {
		return func(pre int) (func() fun.Producer[int], func(int), func() (int, bool), func(), func(int, []int) []int) {
			q := pubsub.NewUnlimitedQueue[int]()
			for _, v := range seqN(pre) {
				_ = q.Add(v)
			}
			mk := func() fun.Producer[int] {
				if viaIterator {
					return q.Iterator().ReadOne
				}
				return q.Producer()
			}
			return mk, func(v int) { _ = q.Add(v) }, q.Remove, func() { _ = q.Close() }, fwdExpect
		}
	}
	deque := func(kind string) func(int) (func() fun.Producer[int], func(int), func() (int, bool), func(), func(int, []int) []int) {
		return func(pre int) (func() fun.Producer[int], func(int), func() (int, bool), func(), func(int, []int) []int) {
			q := pubsub.NewUnlimitedDeque[int]()
			for _, v := range seqN(pre) {
				_ = q.PushBack(v)
			}
			reverse := false
			var mk func() fun.Producer[int]
			switch kind {
			case "Producer":
				mk = q.Producer
			case "ProducerBlocking":
				mk = q.ProducerBlocking
			case "ProducerReverse":
				mk, reverse = q.ProducerReverse, true
			case "ProducerReverseBlocking":
				mk, reverse = q.ProducerReverseBlocking, true
			case "Iterator":
				mk = func() fun.Producer[int] { return q.Iterator().ReadOne }
			case "IteratorReverse":
				mk, reverse = func() fun.Producer[int] { return q.IteratorReverse().ReadOne }, true
			}
			if reverse {
				return mk, func(v int) { _ = q.PushFront(v) }, q.PopBack, func() { _ = q.Close() }, revExpect
			}
			return mk, func(v int) { _ = q.PushBack(v) }, q.PopFront, func() { _ = q.Close() }, fwdExpect
		}
	}
	return []src{
		{"queue.Producer", true, queue(false)},
		{"queue.Iterator", true, queue(true)},
		{"deque.ProducerBlocking", true, deque("ProducerBlocking")},
		{"deque.ProducerReverseBlocking", true, deque("ProducerReverseBlocking")},
		{"deque.Producer", false, deque("Producer")},
		{"deque.ProducerReverse", false, deque("ProducerReverse")},
		{"deque.Iterator", false, deque("Iterator")},
		{"deque.IteratorReverse", false, deque("IteratorReverse")},
	}
}

func endTag(e *vs.End) (string, string) {
	if len(e.Panics) > 0 {
		return "panic/" + e.Panics[0].Site, e.Panics[0].Value
	}
	if e.NonTerminating() {
		return "livelock/" + e.LibSites(), fmt.Sprintf("%+v", e.Stuck)
	}
	if e.Status != vs.Clean {
		return "stuck/" + e.LibSites(), fmt.Sprintf("threads never returned: %+v", e.Stuck)
	}
	return "", ""
}

type itRec struct {
	got      []int
	err      error
	done     bool
	afterEOF []int // values yielded by calls made after io.EOF had been returned
}

func isPrefix(p, full []int) bool {
	if len(p) > len(full) {
		return false
	}
	for i := range p {
		if p[i] != full[i] {
			return false
		}
	}
	return true
}

// grow: no removals. n iterators read while a mutator adds; at quiescence each
// blocking iterator must have yielded pre+adds completely, in order; after
// Close each ends with io.EOF. Non-blocking iterators yield pre followed by a
// prefix of the additions and then io.EOF by themselves.
func grow(s src, pre, nAdds, n int, release string) vs.Scenario {
	return func() (func(), func(*vs.End) (string, string)) {
		recs := make([]*itRec, n)
		quiet := make([][]int, n)
		var want []int
		adds := []int{}
		for i := 0; i < nAdds; i++ {
			adds = append(adds, 11+i)
		}
		body := func() {
			mk, add, _, closeFn, expect := s.fresh(pre)
			want = expect(pre, adds)
			fin := make(chan struct{}, n+1)
			cancels := make([]context.CancelFunc, n)
			for i := 0; i < n; i++ {
				rec := &itRec{}
				recs[i] = rec
				ctx, cancel := context.WithCancel(context.Background())
				cancels[i] = cancel
				go func() {
					next := mk()
					for {
						v, err := next(ctx)
						if err != nil {
							rec.err = err
							break
						}
						rec.got = append(rec.got, v)
						if len(rec.got) > len(want)+2 {
							break
						}
					}
					if s.blocking && errors.Is(rec.err, io.EOF) {
						// a blocking flavour ends with io.EOF only because the container is
						// closed: nothing can be added any more, so asking again yields
						// nothing more (anything it did yield would be a repetition)
						for i := 0; i < 3; i++ {
							if v, err := next(ctx); err == nil {
								rec.afterEOF = append(rec.afterEOF, v)
							}
						}
					}
					rec.done = true
					fin <- struct{}{}
				}()
			}
			go func() {
				for _, v := range adds {
					add(v)
				}
				if release == "close-now" {
					// no pause between the last addition and Close
					closeFn()
				}
				fin <- struct{}{}
			}()
			vs.Quiesce()
			for i := range recs {
				quiet[i] = append([]int(nil), recs[i].got...)
			}
			if release == "close-now" {
				// already closed by the mutator
			} else if release == "close" {
				closeFn()
			} else {
				for _, c := range cancels {
					c()
				}
			}
			for i := 0; i < n+1; i++ {
				<-fin
			}
			for _, c := range cancels {
				c()
			}
		}
		check := func(e *vs.End) (string, string) {
			if len(e.Panics) > 0 {
				return "panic/" + e.Panics[0].Site, e.Panics[0].Value
			}
			for i, rec := range recs {
				if rec == nil {
					continue
				}
				if len(rec.afterEOF) > 0 {
					return "yielded-after-eof", fmt.Sprintf("%s iterator %d returned io.EOF after %v and then, asked again, yielded %v", s.name, i, rec.got, rec.afterEOF)
				}
				if !isPrefix(rec.got, want) {
					return "order-or-duplicate", fmt.Sprintf("%s iterator %d yielded %v, container order is %v", s.name, i, rec.got, want)
				}
				if s.blocking && release == "close-now" {
					if rec.done && errors.Is(rec.err, io.EOF) && len(rec.got) < len(want) {
						return "eof-before-items-added-before-close", fmt.Sprintf("%s iterator %d finished with io.EOF having yielded %v; %v were all added before Close", s.name, i, rec.got, want)
					}
				} else if s.blocking {
					if quiet[i] != nil && len(quiet[i]) < len(want) {
						return "blocked-with-unseen-item", fmt.Sprintf("%s iterator %d had yielded %v at quiescence, expected all of %v", s.name, i, quiet[i], want)
					}
				} else if len(rec.got) < pre && rec.done {
					return "skipped-present-item", fmt.Sprintf("%s iterator %d yielded %v, items present from the start: %v", s.name, i, rec.got, want[:pre])
				}
			}
			if t, d := endTag(e); t != "" {
				return "not-released-by-" + release + "/" + t, d
			}
			for i, rec := range recs {
				if release == "close" || release == "close-now" || !s.blocking {
					if !errors.Is(rec.err, io.EOF) {
						return "no-eof-after-close", fmt.Sprintf("%s iterator %d ended with %v", s.name, i, rec.err)
					}
				} else if !errors.Is(rec.err, context.Canceled) {
					return "wrong-error-on-cancel", fmt.Sprintf("%s iterator %d ended with %v", s.name, i, rec.err)
				}
			}
			return "", ""
		}
		return body, check
	}
}

// churn: concurrent removals (incl. remove-to-empty then add) and Close racing
// the iterator: never panics, yields only values that were in the container,
// returns on Close.
func churn(s src, pre int, script string) vs.Scenario {
	return func() (func(), func(*vs.End) (string, string)) {
		rec := &itRec{}
		ever := map[int]bool{}
		closed := false
		body := func() {
			mk, add, remove, closeFn, _ := s.fresh(pre)
			for _, v := range seqN(pre) {
				ever[v] = true
			}
			fin := make(chan struct{}, 2)
			ctx, cancel := context.WithCancel(context.Background())
			go func() {
				next := mk()
				for i := 0; i < 6; i++ {
					v, err := next(ctx)
					if err != nil {
						rec.err = err
						break
					}
					rec.got = append(rec.got, v)
				}
				rec.done = true
				fin <- struct{}{}
			}()
			go func() {
				nv := 21
				for _, c := range script {
					switch c {
					case 'r':
						_, _ = remove()
					case 'a':
						ever[nv] = true
						add(nv)
						nv++
					case 'c':
						closed = true
						closeFn()
					}
				}
				fin <- struct{}{}
			}()
			// a blocking iterator on a container that is never closed is released
			// through its context once nothing else moves
			vs.Quiesce()
			cancel()
			<-fin
			<-fin
		}
		check := func(e *vs.End) (string, string) {
			if len(e.Panics) > 0 {
				return "panic/" + e.Panics[0].Site, e.Panics[0].Value
			}
			for _, v := range rec.got {
				if !ever[v] {
					return "invented-value", fmt.Sprintf("%s yielded %d which was never in the container (%v)", s.name, v, rec.got)
				}
			}
			// Under concurrent removals the statement promises no completeness (the
			// real Queue iterator whose cursor element is removed while the queue runs
			// empty never sees later additions), so omissions are not judged here. What
			// it does fix is how a blocking iterator finishes: io.EOF once the
			// container is closed, or its context's error - never io.EOF while open.
			if s.blocking && rec.done && errors.Is(rec.err, io.EOF) && !closed {
				return "eof-although-open", fmt.Sprintf("%s (pre=%d, script %s) finished with io.EOF but the container was never closed (yielded %v)", s.name, pre, script, rec.got)
			}
			if t, d := endTag(e); t != "" {
				return "not-released-by-close/" + t, d
			}
			return "", ""
		}
		return body, check
	}
}

func build(tier string) ([]runner.Instance, time.Duration) {
	bound, budget := 2, 100*time.Second
	churnBound := 2
	maxPre, maxAdds := 2, 2
	if tier == "thorough" {
		bound, budget, churnBound = 4, 14*time.Minute, 5
	}
	var out []runner.Instance
	for _, s := range sources() {
		for pre := 0; pre <= maxPre; pre++ {
			for a := 0; a <= maxAdds; a++ {
				for n := 1; n <= 2; n++ {
					rels := []string{"close"}
					if s.blocking {
						rels = append(rels, "cancel")
						if a > 0 {
							rels = append(rels, "close-now")
						}
					}
					for _, rel := range rels {
						gb := bound
						if n == 2 && s.blocking && strings.HasPrefix(s.name, "deque.") && tier != "thorough" && !(rel == "cancel" && a == 0) {
							// two parked deque waiters wake each other: long executions. Kept at the
							// full bound without additions, released by cancelling (who is woken
							// when only one of two parked waiters is cancelled)
							gb = bound - 1
						}
						out = append(out, runner.Instance{Group: "grow/" + s.name, Name: fmt.Sprintf("grow/%s/pre=%d,adds=%d,iters=%d,release=%s", s.name, pre, a, n, rel), Bound: gb, Scenario: grow(s, pre, a, n, rel)})
					}
				}
			}
			for _, script := range []string{"rc", "rac", "rrac", "arc", "c", "rarc", "r", "ra", "rra", "rar"} {
				if !strings.Contains(script, "c") && (!s.blocking || pre == 0) {
					continue // scripts without Close matter for the blocking flavours (EOF only once closed)
				}
				out = append(out, runner.Instance{Group: "churn/" + s.name, Name: fmt.Sprintf("churn/%s/pre=%d,%s", s.name, pre, script), Bound: churnBound, Scenario: churn(s, pre, script)})
			}
		}
	}
	return out, budget
}

func main() {
	runner.Main(runner.Options{Property: "C20", Level: "exploration", Build: build, RacePoints: true,
		Assume: []string{"model of sync/context/channels in verif/vs (DESIGN §2.2)", "small scope: <=2 initial items, <=2 additions, <=2 iterators, scripts of <=4 mutations"}})
}
