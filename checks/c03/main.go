// C03: worker-group error contract — nothing lost, nothing leaked, abort stops.
// Fault enumeration: construct x WorkerGroupConf x worker count x fault position
// x failure kind, each cell explored under every schedule up to the deviation
// bound. The oracle table is derived from the property statement, not from
// CanContinueOnError.
package main

import (
	"context"
	"errors"
	"fmt"
	"io"
	"sync/atomic"
	"time"

	"github.com/tychoish/fun"
	"github.com/tychoish/fun/erc"
	"github.com/tychoish/fun/ers"
	"github.com/tychoish/fun/itertool"
	"verif/vs"
	"verif/vs/runner"
)

type kind struct {
	name          string
	isPanic       bool
	reportable    bool // before configuration: an error the statement says must be reported
	quiet         bool // never reported (EOF, skip)
	ctxErr        bool
	excluded      bool
	unconstrained bool // reporting not settled by the statement (ErrCurrentOpAbort)
}

var errPlain = errors.New("plain-failure")
var errInner = errors.New("inner-failure")
var errExcluded = errors.New("excluded-failure")
var errUnrelatedExclusion = errors.New("another-excluded-error-that-never-occurs")

var kinds = []kind{
	{name: "plain", reportable: true},
	{name: "wrapped", reportable: true},
	{name: "panic-error", isPanic: true, reportable: true},
	{name: "panic-string", isPanic: true, reportable: true},
	{name: "panic-int", isPanic: true, reportable: true},
	// a panic is a panic whatever its value: one whose value is (or wraps) an error listed in
	// ExcludedErrors must still be reported as ErrRecoveredPanic
	{name: "panic-excluded", isPanic: true, reportable: true},
	{name: "panic-wrapped-excluded", isPanic: true, reportable: true},
	{name: "skip", quiet: true},
	{name: "eof", quiet: true},
	{name: "abort", unconstrained: true},
	{name: "ctx", ctxErr: true},
	{name: "excluded", excluded: true},
}

// fail produces the failure of the given kind (returns or panics).
// For the kinds that carry an error value, every failing item gets its OWN
// error value (wrapping the sentinel), recorded in failed, so that the oracle
// can ask for each failure that happened individually.
func fail(k kind, item int, failed map[int]error) error {
	own := func(base error) error {
		e := fmt.Errorf("item %d: %w", item, base)
		failed[item] = e
		return e
	}
	switch k.name {
	case "plain":
		return own(errPlain)
	case "wrapped":
		return own(fmt.Errorf("outer: %w", errInner))
	case "panic-error":
		panic(own(errPlain))
	case "panic-string":
		panic("boom")
	case "panic-int":
		panic(42)
	case "panic-excluded":
		panic(errExcluded)
	case "panic-wrapped-excluded":
		panic(fmt.Errorf("while working: %w", errExcluded))
	case "skip":
		return fun.ErrIteratorSkip
	case "eof":
		return io.EOF
	case "abort":
		return ers.ErrCurrentOpAbort
	case "ctx":
		return context.Canceled
	case "excluded":
		return errExcluded
	}
	return nil
}

type conf struct {
	contErr, contPanic, inclCtx, exclude, collector bool
}

func (c conf) String() string {
	b := func(v bool) int {
		if v {
			return 1
		}
		return 0
	}
	return fmt.Sprintf("ce%d,cp%d,ic%d,ex%d,col%d", b(c.contErr), b(c.contPanic), b(c.inclCtx), b(c.exclude), b(c.collector))
}

func (c conf) options(w int) []fun.OptionProvider[*fun.WorkerGroupConf] {
	o, _ := c.optionsCol(w)
	return o
}

// optionsCol also returns the custom collector (nil when the default is used):
// with a custom collector that is where failures are reported.
func (c conf) optionsCol(w int) ([]fun.OptionProvider[*fun.WorkerGroupConf], *erc.Collector) {
	var col *erc.Collector
	o := []fun.OptionProvider[*fun.WorkerGroupConf]{fun.WorkerGroupConfNumWorkers(w)}
	if c.contErr {
		o = append(o, fun.WorkerGroupConfContinueOnError())
	}
	if c.contPanic {
		o = append(o, fun.WorkerGroupConfContinueOnPanic())
	}
	if c.inclCtx {
		o = append(o, fun.WorkerGroupConfIncludeContextErrors())
	}
	if c.exclude {
		// the list is built in two steps: the exclusion that matters first, an unrelated one after it
		o = append(o, fun.WorkerGroupConfAddExcludeErrors(errExcluded), fun.WorkerGroupConfAddExcludeErrors(errUnrelatedExclusion))
	}
	if c.collector {
		col = &erc.Collector{}
		o = append(o, fun.WorkerGroupConfWithErrorCollector(col))
	}
	return o, col
}

func resolve(closeErr error, col *erc.Collector) error {
	if col == nil {
		return closeErr
	}
	return ers.Join(closeErr, col.Resolve())
}

type call struct {
	item       int
	thread     int
	start, end int
}

type obs struct {
	calls  []*call
	result error
	done   bool
	outs   []int
	failed map[int]error // item -> the error value its processing function returned / panicked with
}

// user function shared by all constructs: item == failAt (or failAt2) fails.
func (o *obs) invoke(item int, k kind, failAt map[int]bool) error {
	c := &call{item: item, thread: vs.ThreadID(), start: vs.Now()}
	o.calls = append(o.calls, c)
	defer func() { c.end = vs.Now() }()
	vs.Yield()
	if failAt[item] {
		if o.failed == nil {
			o.failed = map[int]error{}
		}
		return fail(k, item, o.failed)
	}
	return nil
}

type construct struct {
	name string
	run  func(ctx context.Context, n, w int, c conf, k kind, failAt map[int]bool, o *obs)
}

func items(n int) []int {
	out := make([]int, n)
	for i := range out {
		out[i] = i + 1
	}
	return out
}

func constructs() []construct {
	return []construct{
		{"ProcessParallel", func(ctx context.Context, n, w int, c conf, k kind, failAt map[int]bool, o *obs) {
			o.result = fun.SliceIterator(items(n)).ProcessParallel(func(_ context.Context, v int) error { return o.invoke(v, k, failAt) }, c.options(w)...).Run(ctx)
		}},
		{"ParallelForEach", func(ctx context.Context, n, w int, c conf, k kind, failAt map[int]bool, o *obs) {
			o.result = itertool.ParallelForEach(ctx, fun.SliceIterator(items(n)), func(_ context.Context, v int) error { return o.invoke(v, k, failAt) }, c.options(w)...)
		}},
		{"Worker", func(ctx context.Context, n, w int, c conf, k kind, failAt map[int]bool, o *obs) {
			ws := make([]fun.Worker, n)
			for i := range ws {
				v := i + 1
				ws[i] = func(context.Context) error { return o.invoke(v, k, failAt) }
			}
			o.result = itertool.Worker(ctx, fun.SliceIterator(ws), c.options(w)...)
		}},
		{"Map", func(ctx context.Context, n, w int, c conf, k kind, failAt map[int]bool, o *obs) {
			opts, col := c.optionsCol(w)
			it := itertool.Map(fun.SliceIterator(items(n)), func(_ context.Context, v int) (int, error) { return v, o.invoke(v, k, failAt) }, opts...)
			for {
				v, err := it.ReadOne(ctx)
				if err != nil {
					break
				}
				o.outs = append(o.outs, v)
			}
			o.result = resolve(it.Close(), col)
		}},
		{"GenerateParallel", func(ctx context.Context, n, w int, c conf, k kind, failAt map[int]bool, o *obs) {
			var next atomic.Int64
			opts, col := c.optionsCol(w)
			it := fun.Producer[int](func(context.Context) (int, error) {
				v := int(next.Add(1))
				if v > n {
					return 0, io.EOF
				}
				return v, o.invoke(v, k, failAt)
			}).GenerateParallel(opts...)
			for {
				v, err := it.ReadOne(ctx)
				if err != nil {
					break
				}
				o.outs = append(o.outs, v)
			}
			o.result = resolve(it.Close(), col)
		}},
	}
}

func scenario(cs construct, n, w int, c conf, k kind, pos []int) vs.Scenario {
	return func() (func(), func(*vs.End) (string, string)) {
		o := &obs{}
		failAt := map[int]bool{}
		for _, p := range pos {
			failAt[p] = true
		}
		body := func() {
			ctx, cancel := context.WithCancel(context.Background())
			cs.run(ctx, n, w, c, k, failAt, o)
			o.done = true
			vs.Quiesce()
			cancel()
		}
		check := func(e *vs.End) (string, string) {
			where := fmt.Sprintf("%s n=%d w=%d %v kind=%s at=%v", cs.name, n, w, c, k.name, pos)
			if len(e.Panics) > 0 {
				return "panic-escaped/" + k.name, where + ": " + e.Panics[0].Value + " at " + e.Panics[0].Site
			}
			if !o.done {
				return "deadlock/" + e.LibSites(), where + fmt.Sprintf(": %+v", e.Stuck)
			}
			// --- classification of this failure kind under this configuration
			reportable := k.reportable
			if k.ctxErr {
				reportable = c.inclCtx
			}
			if k.excluded {
				reportable = !c.exclude
			}
			canContinue := false
			switch {
			case k.isPanic:
				canContinue = c.contPanic
			case k.name == "skip":
				canContinue = true
			case k.reportable || k.excluded:
				canContinue = c.contErr
			}
			// --- reporting
			if !k.unconstrained {
				if reportable {
					if o.result == nil {
						return "swallowed/" + k.name, where + ": result is nil"
					}
					switch k.name {
					case "plain", "panic-error":
						if !errors.Is(o.result, errPlain) {
							return "original-not-found/" + k.name, where + ": " + o.result.Error()
						}
					case "wrapped":
						if !errors.Is(o.result, errInner) {
							return "original-not-found/" + k.name, where + ": " + o.result.Error()
						}
					case "excluded":
						if !errors.Is(o.result, errExcluded) {
							return "original-not-found/" + k.name, where + ": " + o.result.Error()
						}
					case "ctx":
						if !errors.Is(o.result, context.Canceled) {
							return "original-not-found/" + k.name, where + ": " + o.result.Error()
						}
					}
					// every failure that actually happened is reported, not just one of them
					// ("never swallowed"), also the one of a sibling that was in flight when
					// the first failure aborted the group
					for item, own := range o.failed {
						if !errors.Is(o.result, own) {
							return "swallowed/one-of-several/" + k.name, where + fmt.Sprintf(": the failure of item %d is not in the result (%d items failed): %v", item, len(o.failed), o.result)
						}
					}
					if k.isPanic && !errors.Is(o.result, fun.ErrRecoveredPanic) {
						return "panic-not-marked/" + k.name, where + ": " + o.result.Error()
					}
				} else if o.result != nil {
					return "reported-although-excluded/" + k.name, where + ": " + o.result.Error()
				}
			}
			// --- exactly-once / abort bound
			count := map[int]int{}
			for _, cl := range o.calls {
				count[cl.item]++
			}
			for it, cnt := range count {
				if cnt > 1 {
					return "item-processed-twice", where + fmt.Sprintf(": item %d processed %d times", it, cnt)
				}
			}
			if canContinue {
				for it := 1; it <= n; it++ {
					if count[it] != 1 {
						return "item-not-processed-in-continue-mode/" + k.name, where + fmt.Sprintf(": item %d processed %d times (calls %d of %d)", it, count[it], len(o.calls), n)
					}
				}
			} else if k.reportable || (k.excluded && !c.exclude) || (k.ctxErr && c.inclCtx) || (k.unconstrained && !c.contErr && !c.contPanic) {
				// abort mode with a reportable failure (for ErrCurrentOpAbort, whose reporting the
				// statement does not settle, only in pure abort mode: the worker that returned it
				// stops and so does the group)
				var first *call
				for _, cl := range o.calls {
					if failAt[cl.item] && (first == nil || cl.end < first.end) {
						first = cl
					}
				}
				if first != nil {
					// the failing worker handles no further item
					for _, cl := range o.calls {
						if cl.start > first.end && cl.thread == first.thread {
							return "failing-worker-continued/" + k.name, where + fmt.Sprintf(": worker thread %d took item %d after its failure on item %d", cl.thread, cl.item, first.item)
						}
					}
					// "items started after the first failure returned is bounded by the
					// number of workers": no library can stop the other workers while
					// the failing worker is descheduled between the return of the user
					// function and its own next step, so the count starts when the
					// failing worker's goroutine has returned (by then the library has
					// certainly seen the failure).
					if first.thread < len(e.ThreadEnd) && e.ThreadEnd[first.thread] > 0 {
						after := 0
						for _, cl := range o.calls {
							if cl.start > e.ThreadEnd[first.thread] {
								after++
							}
						}
						if after > w {
							return "abort-does-not-stop/" + k.name, where + fmt.Sprintf(": %d items started after the failing worker had returned (workers=%d)", after, w)
						}
					}
				}
			}
			if e.Status != vs.Clean {
				return "leak/" + e.LibSites(), where + fmt.Sprintf(": %+v", e.Stuck)
			}
			return "", ""
		}
		return body, check
	}
}

func build(tier string) ([]runner.Instance, time.Duration) {
	bound, budget := 1, 90*time.Second
	maxW := 2
	if tier == "thorough" {
		bound, budget, maxW = 2, 14*time.Minute, 3
	}
	var out []runner.Instance
	for _, cs := range constructs() {
		for w := 1; w <= maxW; w++ {
			n := w + 2
			for ci := 0; ci < 32; ci++ {
				c := conf{ci&1 != 0, ci&2 != 0, ci&4 != 0, ci&8 != 0, ci&16 != 0}
				if tier != "thorough" && c.collector && (c.contErr != c.contPanic) {
					continue // quick: collector variant only on the diagonal
				}
				for _, k := range kinds {
					var positions [][]int
					for p := 1; p <= n; p++ {
						positions = append(positions, []int{p})
					}
					if tier == "thorough" {
						for p := 1; p <= n; p++ {
							for q := p + 1; q <= n; q++ {
								positions = append(positions, []int{p, q})
							}
						}
					} else {
						positions = append(positions, []int{1, n})
						if w >= 2 {
							positions = append(positions, []int{1, 2}) // two workers fail side by side
						}
					}
					for _, pos := range positions {
						b := bound
						if w == 1 {
							b = 0 // one worker: the default schedule plus forced switches is the whole story at bound 0..1
							if tier == "thorough" {
								b = 1
							}
						}
						out = append(out, runner.Instance{Group: cs.name, Name: fmt.Sprintf("%s/w=%d/%v/%s/at=%v", cs.name, w, c, k.name, pos), Bound: b, Scenario: scenario(cs, n, w, c, k, pos)})
					}
				}
			}
		}
	}
	return out, budget
}

func main() {
	runner.Main(runner.Options{Property: "C03", Level: "fault_enumeration", Build: build, RacePoints: true,
		Rule:   "fault matrix: construct {ProcessParallel, ParallelForEach, Worker, Map, GenerateParallel} x 2^3 continue/include flags x ExcludedErrors x collector x workers x every fault position (and pairs) x 10 failure kinds; each cell explored under every schedule up to the deviation bound; evaluations = executions; distinct_nontrivial = distinct visible-step sequences with real contention",
		Assume: []string{"model of sync/context/channels in verif/vs (DESIGN §2.2)", "reporting of ErrCurrentOpAbort is not constrained by the statement and not asserted", "n = workers + 2 items"}})
}
