// C11: orchestrator and service wrappers run all submitted work and collect all errors.
package main

import (
	"context"
	"errors"
	"fmt"
	"io"
	"time"

	"github.com/tychoish/fun"
	"github.com/tychoish/fun/pubsub"
	"github.com/tychoish/fun/srv"
	"verif/vs"
	"verif/vs/runner"
)

func endTag(e *vs.End) (string, string) {
	if len(e.Panics) > 0 {
		return "panic-escaped/" + e.Panics[0].Site, e.Panics[0].Value
	}
	if e.NonTerminating() {
		return "livelock/" + e.LibSites(), fmt.Sprintf("%+v", e.Stuck)
	}
	if e.Status != vs.Clean {
		return "stuck/" + e.LibSites(), fmt.Sprintf("threads never returned: %+v", e.Stuck)
	}
	return "", ""
}

type svcObs struct {
	runs       int
	start, end int
	err        error
}

// member service: outcome ok / error / panic; blocks until its context ends when blocks is set.
// Outcomes "ctxerr+cleanup" / "ctxerr+shutdown": Run blocks until its context
// ends and returns that context's error (as well-behaved services do), and the
// Cleanup / Shutdown hook fails with the service's own error: that failure is a
// failure of the service like any other.
func member(i int, outcome string, blocks bool, o *svcObs) *srv.Service {
	o.err = fmt.Errorf("service-%d-failed", i)
	hooked := outcome == "ctxerr+cleanup" || outcome == "ctxerr+shutdown"
	s := &srv.Service{Name: fmt.Sprint("svc", i), Run: func(ctx context.Context) error {
		o.runs++
		o.start = vs.Now()
		if !hooked {
			defer func() { o.end = vs.Now() }()
		}
		if blocks || hooked {
			<-ctx.Done()
		}
		vs.Yield()
		switch outcome {
		case "error":
			return o.err
		case "panic":
			panic(o.err)
		case "ctxerr+cleanup", "ctxerr+shutdown":
			return ctx.Err()
		}
		return nil
	}}
	switch outcome {
	case "ctxerr+cleanup":
		s.Cleanup = func() error { o.end = vs.Now(); return o.err }
	case "ctxerr+shutdown":
		s.Shutdown = func() error { return o.err }
		s.Cleanup = func() error { o.end = vs.Now(); return nil }
	}
	return s
}

// orchestrator: services in a given state at Add time, added before/after Start.
func orchestrator(states []string, outcomes []string, addAfterStart []bool, promptCancel bool) vs.Scenario {
	return func() (func(), func(*vs.End) (string, string)) {
		obs := make([]*svcObs, len(states))
		var waitErr error
		waitRet := -1
		addErrs := make([]error, len(states))
		body := func() {
			octx, ocancel := context.WithCancel(context.Background())
			ectx, ecancel := context.WithCancel(context.Background()) // context of externally started services
			or := &srv.Orchestrator{}
			svcs := make([]*srv.Service, len(states))
			for i := range states {
				obs[i] = &svcObs{}
				// a service that is (externally) running at Add time blocks until its own context ends
				svcs[i] = member(i, outcomes[i], states[i] == "running", obs[i])
				switch states[i] {
				case "running":
					_ = svcs[i].Start(ectx)
				case "finished":
					_ = svcs[i].Start(ectx)
					_ = svcs[i].Wait()
				}
			}
			for i := range states {
				if !addAfterStart[i] {
					addErrs[i] = or.Add(svcs[i])
				}
			}
			_ = or.Start(octx)
			for i := range states {
				if addAfterStart[i] {
					addErrs[i] = or.Add(svcs[i])
				}
			}
			fin := make(chan struct{}, 1)
			if !promptCancel {
				vs.Quiesce()
			}
			// promptCancel: the context ends while the orchestrator may still have a
			// backlog of added-but-not-yet-started services (all Adds returned before)
			ocancel()
			// externally running services end at an arbitrary time after the
			// orchestrator's context was cancelled
			go func() { ecancel(); fin <- struct{}{} }()
			waitErr = or.Wait()
			waitRet = vs.Now()
			<-fin
		}
		check := func(e *vs.End) (string, string) {
			where := fmt.Sprintf("states=%v outcomes=%v addAfterStart=%v promptCancel=%v", states, outcomes, addAfterStart, promptCancel)
			if t, d := endTag(e); t != "" {
				return t, where + ": " + d
			}
			for i, o := range obs {
				if addErrs[i] != nil {
					continue
				}
				if o.runs > 1 {
					return "service-started-twice", where + fmt.Sprintf(": service %d ran %d times", i, o.runs)
				}
				if o.runs == 0 {
					return "service-not-started", where + fmt.Sprintf(": service %d", i)
				}
				if o.end == 0 || o.end > waitRet {
					return "wait-returned-before-service/" + states[i], where + fmt.Sprintf(": orchestrator Wait returned at %d, service %d (%s at Add) returned at %d", waitRet, i, states[i], o.end)
				}
				if outcomes[i] != "ok" && !errors.Is(waitErr, o.err) {
					return "service-error-lost/" + states[i], where + fmt.Sprintf(": Wait() = %v, missing %v", waitErr, o.err)
				}
				if outcomes[i] == "panic" && !errors.Is(waitErr, fun.ErrRecoveredPanic) {
					return "service-panic-not-marked", where + fmt.Sprintf(": Wait() = %v", waitErr)
				}
			}
			return "", ""
		}
		return body, check
	}
}

// group: members started once, all awaited, errors collected.
func group(outcomes []string, blocks []bool) vs.Scenario {
	return groupPre(outcomes, blocks, nil)
}

// groupPre: pre[i] is the member's state when the group starts: "" (fresh),
// "running" (started elsewhere, blocks until that context ends) or "finished"
// (started elsewhere and already returned). The group must still await every
// member and collect its failure.
func groupPre(outcomes []string, blocks []bool, pre []string) vs.Scenario {
	return func() (func(), func(*vs.End) (string, string)) {
		obs := make([]*svcObs, len(outcomes))
		var waitErr error
		waitRet := -1
		body := func() {
			ctx, cancel := context.WithCancel(context.Background())
			defer cancel()
			ectx, ecancel := context.WithCancel(context.Background())
			svcs := make([]*srv.Service, len(outcomes))
			external := false
			for i := range outcomes {
				obs[i] = &svcObs{}
				st := ""
				if pre != nil {
					st = pre[i]
				}
				svcs[i] = member(i, outcomes[i], blocks[i] || st == "running", obs[i])
				switch st {
				case "running":
					_ = svcs[i].Start(ectx)
					external = true
				case "finished":
					_ = svcs[i].Start(ectx)
					_ = svcs[i].Wait()
				}
			}
			g := srv.Group(fun.SliceIterator(svcs))
			_ = g.Start(ctx)
			vs.Quiesce()
			g.Close()
			fin := make(chan struct{}, 1)
			// members running elsewhere end at an arbitrary time after the group was closed
			go func() {
				if external {
					ecancel()
				}
				fin <- struct{}{}
			}()
			waitErr = g.Wait()
			waitRet = vs.Now()
			<-fin
			ecancel()
		}
		check := func(e *vs.End) (string, string) {
			where := fmt.Sprintf("group outcomes=%v blocks=%v pre=%v", outcomes, blocks, pre)
			if t, d := endTag(e); t != "" {
				return t, where + ": " + d
			}
			for i, o := range obs {
				if o.runs != 1 {
					return "group-member-not-started-once", where + fmt.Sprintf(": member %d ran %d times", i, o.runs)
				}
				if o.end == 0 || o.end > waitRet {
					return "group-wait-returned-before-member", where + fmt.Sprintf(": member %d", i)
				}
				if outcomes[i] != "ok" && !errors.Is(waitErr, o.err) {
					return "group-member-error-lost", where + fmt.Sprintf(": Wait() = %v, missing %v", waitErr, o.err)
				}
			}
			return "", ""
		}
		return body, check
	}
}

type job struct {
	runs     int
	ranAt    int
	accepted bool
	err      error
}

func mkJob(i int, outcome string, j *job) fun.Worker {
	j.err = fmt.Errorf("job-%d-failed", i)
	switch outcome {
	case "eof": // a failure that wraps io.EOF (e.g. pubsub.ErrQueueClosed does)
		j.err = fmt.Errorf("job-%d-failed: %w", i, io.EOF)
	case "ctx": // a failure that wraps a context error
		j.err = fmt.Errorf("job-%d-failed: %w", i, context.Canceled)
	}
	return func(context.Context) error {
		j.runs++
		j.ranAt = vs.Now()
		vs.Yield()
		switch outcome {
		case "error", "eof", "ctx":
			return j.err
		case "panic":
			panic(j.err)
		}
		return nil
	}
}

// pool: WorkerPool / HandlerWorkerPool; jobs added by 1-2 producers while the
// pool runs (then exactly once), optionally one more racing the shutdown (then
// at most once, exactly once if accepted... the statement says at most once).
func pool(handler bool, workers int, outcomes []string, producers int, raceAdd bool) vs.Scenario {
	return func() (func(), func(*vs.End) (string, string)) {
		jobs := make([]*job, len(outcomes))
		race := &job{}
		var waitErr error
		var observed []error
		quiet := false
		body := func() {
			ctx, cancel := context.WithCancel(context.Background())
			defer cancel()
			q := pubsub.NewUnlimitedQueue[fun.Worker]()
			opts := []fun.OptionProvider[*fun.WorkerGroupConf]{fun.WorkerGroupConfNumWorkers(workers), fun.WorkerGroupConfContinueOnError(), fun.WorkerGroupConfContinueOnPanic()}
			var s *srv.Service
			if handler {
				s = srv.HandlerWorkerPool(q, func(err error) {
					if err != nil {
						observed = append(observed, err)
					}
				}, opts...)
			} else {
				s = srv.WorkerPool(q, opts...)
			}
			_ = s.Start(ctx)
			fin := make(chan struct{}, 4)
			for p := 0; p < producers; p++ {
				p := p
				go func() {
					for i := range outcomes {
						if i%producers != p {
							continue
						}
						jobs[i] = &job{}
						jobs[i].accepted = q.Add(mkJob(i, outcomes[i], jobs[i])) == nil
					}
					fin <- struct{}{}
				}()
			}
			for p := 0; p < producers; p++ {
				<-fin
			}
			vs.Quiesce()
			quiet = true
			for _, j := range jobs {
				if j != nil && j.accepted && j.runs != 1 {
					quiet = false // recorded below through runs
				}
			}
			n := 0
			if raceAdd {
				n = 1
				go func() { race.accepted = q.Add(mkJob(99, "ok", race)) == nil; fin <- struct{}{} }()
			}
			s.Close()
			waitErr = s.Wait()
			for i := 0; i < n; i++ {
				<-fin
			}
		}
		check := func(e *vs.End) (string, string) {
			where := fmt.Sprintf("handler=%v workers=%d outcomes=%v producers=%d raceAdd=%v", handler, workers, outcomes, producers, raceAdd)
			if t, d := endTag(e); t != "" {
				return t, where + ": " + d
			}
			for i, j := range jobs {
				if j == nil || !j.accepted {
					continue
				}
				if j.runs != 1 {
					return "accepted-job-not-run-exactly-once", where + fmt.Sprintf(": job %d accepted while the pool was running ran %d times", i, j.runs)
				}
				if outcomes[i] == "error" {
					found := errors.Is(waitErr, j.err)
					for _, oe := range observed {
						if errors.Is(oe, j.err) {
							found = true
						}
					}
					if !found {
						return "job-error-not-surfaced", where + fmt.Sprintf(": job %d: Wait() = %v, handler saw %v", i, waitErr, observed)
					}
				}
			}
			if race.runs > 1 {
				return "job-run-twice", where
			}
			_ = quiet
			return "", ""
		}
		return body, check
	}
}

// cleanup: every cleanup function accepted before shutdown runs exactly once
// during shutdown, whatever its siblings do; errors surface through Wait.
func cleanup(outcomes []string, early []bool, ncpu int) vs.Scenario {
	return cleanupMode(outcomes, early, ncpu, "")
}

// mode "no-quiesce": the jobs are added and the service closed right after
// Start (its Run may not have read anything yet, or not even started);
// mode "race-add": the last job is added by another thread concurrently with
// Close - if the queue accepted it, it runs.
func cleanupMode(outcomes []string, early []bool, ncpu int, mode string) vs.Scenario {
	return func() (func(), func(*vs.End) (string, string)) {
		jobs := make([]*job, len(outcomes))
		var waitErr error
		closeAt := 0
		body := func() {
			ctx, cancel := context.WithCancel(context.Background())
			defer cancel()
			vs.NumCPUValue = ncpu // Cleanup runs one worker per CPU
			defer func() { vs.NumCPUValue = 2 }()
			q := pubsub.NewUnlimitedQueue[fun.Worker]()
			s := srv.Cleanup(q, 0)
			_ = s.Start(ctx)
			for i := range outcomes {
				if early[i] {
					jobs[i] = &job{}
					jobs[i].accepted = q.Add(mkJob(i, outcomes[i], jobs[i])) == nil
				}
			}
			if mode != "no-quiesce" {
				vs.Quiesce()
			}
			fin := make(chan struct{}, 1)
			racer := -1
			for i := range outcomes {
				if !early[i] {
					jobs[i] = &job{}
					if mode == "race-add" && i == len(outcomes)-1 {
						racer = i
						go func() {
							jobs[i].accepted = q.Add(mkJob(i, outcomes[i], jobs[i])) == nil
							fin <- struct{}{}
						}()
						continue
					}
					jobs[i].accepted = q.Add(mkJob(i, outcomes[i], jobs[i])) == nil
				}
			}
			closeAt = vs.Now()
			s.Close()
			waitErr = s.Wait()
			if racer >= 0 {
				<-fin
			}
		}
		check := func(e *vs.End) (string, string) {
			where := fmt.Sprintf("cleanup outcomes=%v early=%v ncpu=%d mode=%s", outcomes, early, ncpu, mode)
			if t, d := endTag(e); t != "" {
				return t, where + ": " + d
			}
			for i, j := range jobs {
				if j == nil || !j.accepted {
					continue
				}
				if j.runs != 1 {
					when := "immediately before shutdown"
					if early[i] {
						when = "long before shutdown"
					}
					return "cleanup-not-run-exactly-once", where + fmt.Sprintf(": cleanup %d (accepted %s) ran %d times", i, when, j.runs)
				}
				if j.ranAt < closeAt {
					return "cleanup-ran-before-shutdown", where + fmt.Sprintf(": cleanup %d ran at %d, shutdown at %d", i, j.ranAt, closeAt)
				}
				if outcomes[i] != "ok" && !errors.Is(waitErr, j.err) {
					return "cleanup-error-not-surfaced", where + fmt.Sprintf(": cleanup %d: Wait() = %v", i, waitErr)
				}
				if outcomes[i] == "panic" && !errors.Is(waitErr, fun.ErrRecoveredPanic) {
					return "cleanup-panic-not-marked", where + fmt.Sprintf(": Wait() = %v", waitErr)
				}
			}
			return "", ""
		}
		return body, check
	}
}

func combos(vals []string, n int) [][]string {
	if n == 0 {
		return [][]string{{}}
	}
	var out [][]string
	for _, rest := range combos(vals, n-1) {
		for _, v := range vals {
			out = append(out, append(append([]string{}, rest...), v))
		}
	}
	return out
}

func bools(n int) [][]bool {
	if n == 0 {
		return [][]bool{{}}
	}
	var out [][]bool
	for _, rest := range bools(n - 1) {
		out = append(out, append(append([]bool{}, rest...), false), append(append([]bool{}, rest...), true))
	}
	return out
}

func build(tier string) ([]runner.Instance, time.Duration) {
	bound, budget := 1, 140*time.Second
	if tier == "thorough" {
		bound, budget = 2, 14*time.Minute
	}
	vs.NumCPUValue = 2
	var out []runner.Instance
	add := func(group, name string, b int, sc vs.Scenario) {
		out = append(out, runner.Instance{Group: group, Name: name, Bound: b, Scenario: sc})
	}
	states := []string{"not-started", "running", "finished"}
	outs := []string{"ok", "error", "panic"}
	// one service: full grid; two services: states x add times with mixed outcomes
	for _, st := range states {
		for _, oc := range outs {
			for _, after := range []bool{false, true} {
				add("orchestrator", fmt.Sprintf("orchestrator/1/%s,%s,after=%v", st, oc, after), bound+1, orchestrator([]string{st}, []string{oc}, []bool{after}, false))
				add("orchestrator", fmt.Sprintf("orchestrator/1/%s,%s,after=%v,prompt-cancel", st, oc, after), bound+1, orchestrator([]string{st}, []string{oc}, []bool{after}, true))
			}
		}
	}
	for _, st := range combos(states, 2) {
		for _, after := range bools(2) {
			ocs := []string{"error", "ok"}
			if tier == "thorough" {
				for _, oc := range combos(outs, 2) {
					add("orchestrator", fmt.Sprintf("orchestrator/2/%v,%v,after=%v", st, oc, after), bound, orchestrator(st, oc, after, false))
					add("orchestrator", fmt.Sprintf("orchestrator/2/%v,%v,after=%v,prompt-cancel", st, oc, after), bound, orchestrator(st, oc, after, true))
				}
				continue
			}
			add("orchestrator", fmt.Sprintf("orchestrator/2/%v,%v,after=%v", st, ocs, after), bound, orchestrator(st, ocs, after, false))
			add("orchestrator", fmt.Sprintf("orchestrator/2/%v,%v,after=%v,prompt-cancel", st, ocs, after), bound, orchestrator(st, ocs, after, true))
		}
	}
	for n := 1; n <= 2; n++ {
		for _, oc := range combos(outs, n) {
			for _, bl := range bools(n) {
				add("group", fmt.Sprintf("group/%v,blocks=%v", oc, bl), bound, group(oc, bl))
			}
		}
	}
	// members that somebody else started (still running / already finished) before the group starts
	for _, oc := range outs {
		for _, st := range []string{"running", "finished"} {
			add("group", fmt.Sprintf("group/pre=%s,%s", st, oc), bound+1, groupPre([]string{oc}, []bool{false}, []string{st}))
			add("group", fmt.Sprintf("group/pre=%s+fresh,%s", st, oc), bound, groupPre([]string{oc, "ok"}, []bool{false, true}, []string{st, ""}))
		}
	}
	// services that return their context's error on shutdown and fail in a hook
	for _, oc := range []string{"ctxerr+cleanup", "ctxerr+shutdown"} {
		for _, st := range states {
			if st == "finished" {
				continue // Run only returns once its context ended
			}
			for _, after := range []bool{false, true} {
				add("orchestrator", fmt.Sprintf("orchestrator/1/%s,%s,after=%v", st, oc, after), bound+1, orchestrator([]string{st}, []string{oc}, []bool{after}, false))
			}
		}
		add("orchestrator", fmt.Sprintf("orchestrator/2/[not-started not-started],[%s error]", oc), bound, orchestrator([]string{"not-started", "not-started"}, []string{oc, "error"}, []bool{false, false}, false))
		add("group", fmt.Sprintf("group/[%s],blocks", oc), bound, group([]string{oc}, []bool{true}))
	}
	for _, handler := range []bool{false, true} {
		for w := 1; w <= 2; w++ {
			for n := 1; n <= 2; n++ {
				for _, oc := range combos([]string{"ok", "error"}, n) {
					for p := 1; p <= n; p++ {
						for _, race := range []bool{false, true} {
							add("pool", fmt.Sprintf("pool/handler=%v,w=%d,%v,producers=%d,race=%v", handler, w, oc, p, race), bound, pool(handler, w, oc, p, race))
						}
					}
				}
			}
		}
	}
	maxC := 2
	if tier == "thorough" {
		maxC = 3
	}
	for n := 0; n <= maxC; n++ {
		for _, oc := range combos(outs, n) {
			for _, early := range bools(n) {
				add("cleanup", fmt.Sprintf("cleanup/%v,early=%v", oc, early), bound, cleanup(oc, early, 2))
			}
		}
	}
	for _, mode := range []string{"no-quiesce", "race-add"} {
		for n := 1; n <= 2; n++ {
			for _, oc := range combos([]string{"ok", "error"}, n) {
				add("cleanup", fmt.Sprintf("cleanup/%s/%v", mode, oc), bound+2-n, cleanupMode(oc, make([]bool, n), 2, mode))
			}
		}
	}
	// one worker, more jobs than workers, failures of every kind (incl. errors that wrap io.EOF or
	// a context error, which a worker group treats as "stop"): no job may prevent the others
	for n := 2; n <= maxC; n++ {
		for _, oc := range combos([]string{"ok", "error", "panic", "eof", "ctx"}, n) {
			early := make([]bool, n)
			add("cleanup", fmt.Sprintf("cleanup/1cpu/%v,late", oc), bound, cleanup(oc, early, 1))
			if n == 2 {
				add("cleanup", fmt.Sprintf("cleanup/1cpu/%v,early", oc), bound, cleanup(oc, []bool{true, true}, 1))
			}
		}
	}
	return out, budget
}

func main() {
	runner.Main(runner.Options{Property: "C11", Level: "exploration", Build: build, RacePoints: true,
		Assume: []string{"model of sync/context/channels in verif/vs (DESIGN §2.2)", "Group: only start-once, await-all and error collection are asserted (members may be cancelled as soon as the group's Run returns)", "runtime.NumCPU seam = 2", "small scope: <=2 services, <=2 jobs (3 cleanup jobs thorough), <=2 workers"}})
}
