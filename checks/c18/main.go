// C18 (concurrent half): a synchronized dt.Set gives the same answers under
// concurrent use as some sequential order of the calls. Every schedule
// (deviation bounded) of 2-3 threads x 1-2 operations; the recorded call/return
// history must have a sequential witness (brute force over all interleavings
// consistent with real-time order) against a reference set.
package main

import (
	"context"
	"fmt"
	"sort"
	"strings"
	"time"

	"github.com/tychoish/fun/dt"
	"verif/vs"
	"verif/vs/runner"
)

type opKind int

const (
	opAddCheck opKind = iota
	opDeleteCheck
	opCheck
	opLen
	opIter
)

var opNames = []string{"AddCheck", "DeleteCheck", "Check", "Len", "Iterator"}

type op struct {
	kind opKind
	v    int
}

func (o op) String() string {
	if o.kind == opLen || o.kind == opIter {
		return opNames[o.kind]
	}
	return fmt.Sprintf("%s(%d)", opNames[o.kind], o.v)
}

type rec struct {
	op        op
	call, ret int
	res       string
	thread    int
}

// reference set: ordered list of members
type model struct{ items []int }

func (m model) has(v int) bool {
	for _, x := range m.items {
		if x == v {
			return true
		}
	}
	return false
}

func (m model) apply(o op, ordered bool) (model, string) {
	switch o.kind {
	case opAddCheck:
		// "returns true if the item had been in the set before AddCheck"
		if m.has(o.v) {
			return m, "true"
		}
		return model{append(append([]int(nil), m.items...), o.v)}, "false"
	case opDeleteCheck:
		if !m.has(o.v) {
			return m, "false"
		}
		var n []int
		for _, x := range m.items {
			if x != o.v {
				n = append(n, x)
			}
		}
		return model{n}, "true"
	case opCheck:
		return m, fmt.Sprint(m.has(o.v))
	case opLen:
		return m, fmt.Sprint(len(m.items))
	case opIter:
		it := append([]int(nil), m.items...)
		if !ordered {
			sort.Ints(it)
		}
		return m, fmt.Sprint(it)
	}
	return m, ""
}

// witness searches a linearization of recs (respecting real-time order) that
// reproduces every result.
func witness(recs []*rec, init model, ordered bool) bool {
	n := len(recs)
	used := make([]bool, n)
	var dfs func(m model, done int) bool
	dfs = func(m model, done int) bool {
		if done == n {
			return true
		}
		for i, r := range recs {
			if used[i] {
				continue
			}
			// r may be next only if no unused op returned before r was called
			ok := true
			for j, q := range recs {
				if !used[j] && j != i && q.ret < r.call {
					ok = false
					break
				}
			}
			if !ok {
				continue
			}
			nm, res := m.apply(r.op, ordered)
			if res != r.res {
				continue
			}
			used[i] = true
			if dfs(nm, done+1) {
				return true
			}
			used[i] = false
		}
		return false
	}
	return dfs(init, 0)
}

func scenario(ordered bool, pre []int, threads [][]op) vs.Scenario {
	return func() (func(), func(*vs.End) (string, string)) {
		var recs []*rec
		clock := 0
		body := func() {
			ctx := context.Background()
			s := &dt.Set[int]{}
			s.Synchronize()
			if ordered {
				s.Order()
			}
			for _, v := range pre {
				s.Add(v)
			}
			fin := make(chan struct{}, len(threads))
			for ti, ops := range threads {
				ti, ops := ti, ops
				go func() {
					for _, o := range ops {
						r := &rec{op: o, thread: ti}
						recs = append(recs, r)
						clock++
						r.call = clock
						switch o.kind {
						case opAddCheck:
							r.res = fmt.Sprint(s.AddCheck(o.v))
						case opDeleteCheck:
							r.res = fmt.Sprint(s.DeleteCheck(o.v))
						case opCheck:
							r.res = fmt.Sprint(s.Check(o.v))
						case opLen:
							r.res = fmt.Sprint(s.Len())
						case opIter:
							var got []int
							it := s.Iterator()
							for it.Next(ctx) {
								got = append(got, it.Value())
							}
							_ = it.Close()
							if !ordered {
								sort.Ints(got)
							}
							r.res = fmt.Sprint(got)
						}
						clock++
						r.ret = clock
					}
					fin <- struct{}{}
				}()
			}
			for range threads {
				<-fin
			}
		}
		check := func(e *vs.End) (string, string) {
			if len(e.Panics) > 0 {
				return "panic/" + e.Panics[0].Site, e.Panics[0].Value
			}
			if e.Status != vs.Clean {
				return "stuck/" + e.LibSites(), fmt.Sprintf("%+v", e.Stuck)
			}
			if len(e.Races) > 0 {
				return "race/" + e.Races[0].Signature, e.Races[0].A + " <-> " + e.Races[0].B
			}
			// the Iterator is a multi-step traversal: it is not one atomic call, so it is
			// only required to be explainable when nothing else overlaps it
			var atomicRecs []*rec
			for _, r := range recs {
				if r.op.kind == opIter {
					overlap := false
					for _, q := range recs {
						if q != r && q.thread != r.thread && q.call < r.ret && r.call < q.ret {
							overlap = true
						}
					}
					if overlap {
						continue
					}
				}
				atomicRecs = append(atomicRecs, r)
			}
			if !witness(atomicRecs, model{append([]int(nil), pre...)}, ordered) {
				var b strings.Builder
				for _, r := range recs {
					fmt.Fprintf(&b, "[t%d %v -> %s @%d..%d] ", r.thread, r.op, r.res, r.call, r.ret)
				}
				return "no-sequential-witness", fmt.Sprintf("ordered=%v pre=%v: %s", ordered, pre, b.String())
			}
			return "", ""
		}
		return body, check
	}
}

func build(tier string) ([]runner.Instance, time.Duration) {
	bound, budget := 2, 70*time.Second
	if tier == "thorough" {
		bound, budget = 3, 12*time.Minute
	}
	alpha := []op{{opAddCheck, 1}, {opAddCheck, 2}, {opDeleteCheck, 1}, {opCheck, 1}, {opLen, 0}, {opIter, 0}}
	var seq1, seq2 [][]op
	for _, a := range alpha {
		seq1 = append(seq1, []op{a})
		for _, b := range alpha {
			seq2 = append(seq2, []op{a, b})
		}
	}
	name := func(t [][]op) string {
		var parts []string
		for _, ops := range t {
			var s []string
			for _, o := range ops {
				s = append(s, o.String())
			}
			parts = append(parts, strings.Join(s, ";"))
		}
		return strings.Join(parts, " || ")
	}
	var out []runner.Instance
	for _, ordered := range []bool{false, true} {
		for _, pre := range [][]int{nil, {1}} {
			add := func(t [][]op) {
				out = append(out, runner.Instance{Group: fmt.Sprintf("set/ordered=%v", ordered), Name: fmt.Sprintf("set/ordered=%v/pre=%v/%s", ordered, pre, name(t)), Bound: bound, Race: true, Scenario: scenario(ordered, pre, t)})
			}
			for _, a := range seq2 {
				for _, b := range seq1 {
					add([][]op{a, b})
				}
			}
			if tier == "thorough" {
				for i, a := range seq2 {
					for j := i; j < len(seq2); j++ {
						add([][]op{a, seq2[j]})
					}
				}
				for i, a := range seq1 {
					for j := i; j < len(seq1); j++ {
						for k := j; k < len(seq1); k++ {
							add([][]op{a, seq1[j], seq1[k]})
						}
					}
				}
			}
		}
	}
	return out, budget
}

func main() {
	runner.Main(runner.Options{Property: "C18", Level: "model_checking", Build: build,
		Rule:   "concurrent half: every schedule (deviation bounded) of 2-3 threads x 1-2 operations {AddCheck, DeleteCheck, Check, Len, Iterator} on a synchronized Set (ordered and unordered, empty and one member); each recorded call/return history must have a sequential witness against the reference set (brute force over real-time-consistent orders); race oracle on; evaluations = executions = histories",
		Assume: []string{"model of sync primitives in verif/vs (DESIGN §2.2)", "an Iterator traversal overlapping another thread's call is not required to be atomic"}})
}
