// Package seqpart is the sequential half of C18: dt.Set (ordered/unordered,
// plain/Synchronize()d) driven by every operation history up to a depth bound
// and compared with a reference set (membership + first-insertion order) after
// every transition.
package seqpart

import (
	"context"
	"encoding/json"
	"fmt"
	"sort"
	"strings"

	"github.com/tychoish/fun"
	"github.com/tychoish/fun/dt"
	"verif/seq"
)

// ---------------------------------------------------------------- alphabet

type kindSpec struct {
	name    string
	base    string // signature tag: ordered | unordered
	ordered bool
	sync    bool
}

var specs = []kindSpec{
	{"unordered", "unordered", false, false},
	{"unordered+sync", "unordered", false, true},
	{"ordered", "ordered", true, false},
	{"ordered+sync", "ordered", true, true},
}

type opKind int

const (
	opAdd opKind = iota
	opAddCheck
	opDelete
	opDeleteCheck
	opPopulate
	opExtend
	opSort
	opEqual
	opJSON
	opJSONReplace
	opIterator
	opBAdd
	opBDelete
	opBSort
)

type opDef struct {
	name  string // human readable, unique
	sig   string // signature tag: the operator, without argument or receiver (Add covers Add/AddCheck, Delete covers Delete/DeleteCheck)
	kind  opKind
	val   int
	vals  []int
	merge bool // SortMerge instead of SortQuick
	desc  bool
}

var ops = buildOps()

func buildOps() []opDef {
	var o []opDef
	for v := 1; v <= 3; v++ {
		o = append(o, opDef{name: fmt.Sprintf("Add(%d)", v), sig: "Add", kind: opAdd, val: v})
	}
	for v := 1; v <= 3; v++ {
		o = append(o, opDef{name: fmt.Sprintf("AddCheck(%d)", v), sig: "Add", kind: opAddCheck, val: v})
	}
	for v := 1; v <= 3; v++ {
		o = append(o, opDef{name: fmt.Sprintf("Delete(%d)", v), sig: "Delete", kind: opDelete, val: v})
	}
	for v := 1; v <= 3; v++ {
		o = append(o, opDef{name: fmt.Sprintf("DeleteCheck(%d)", v), sig: "Delete", kind: opDeleteCheck, val: v})
	}
	o = append(o,
		opDef{name: "Populate([1,2])", sig: "Populate", kind: opPopulate, vals: []int{1, 2}},
		opDef{name: "Populate([3,3])", sig: "Populate", kind: opPopulate, vals: []int{3, 3}},
		opDef{name: "Extend(B)", sig: "Extend", kind: opExtend},
		opDef{name: "SortQuick(asc)", sig: "SortQuick", kind: opSort},
		opDef{name: "SortMerge(asc)", sig: "SortMerge", kind: opSort, merge: true},
		opDef{name: "SortQuick(desc)", sig: "SortQuick", kind: opSort, desc: true},
		opDef{name: "SortMerge(desc)", sig: "SortMerge", kind: opSort, merge: true, desc: true},
		opDef{name: "Equal(B)", sig: "Equal", kind: opEqual},
		opDef{name: "JSONRoundTrip", sig: "JSON", kind: opJSON},
		opDef{name: "JSONRoundTripReplace", sig: "JSON", kind: opJSONReplace},
		opDef{name: "Iterator", sig: "Iterator", kind: opIterator},
	)
	for v := 1; v <= 3; v++ {
		o = append(o, opDef{name: fmt.Sprintf("B.Add(%d)", v), sig: "Add", kind: opBAdd, val: v})
	}
	for v := 1; v <= 3; v++ {
		o = append(o, opDef{name: fmt.Sprintf("B.Delete(%d)", v), sig: "Delete", kind: opBDelete, val: v})
	}
	o = append(o, opDef{name: "B.SortQuick(asc)", sig: "SortQuick", kind: opBSort})
	return o
}

// ---------------------------------------------------------------- reference

// Provenance bits: which classes of operation have touched the object. They
// are part of the canonical state key because two sets with equal contents but
// a different past need not be the same implementation state (index map and
// order list are separate structures).
const (
	mDel = 1 << iota
	mBulk
	mSortQuick
	mSortMergeSmall // SortMerge applied while holding < 2 members
	mSortMergeBig   // SortMerge applied while holding >= 2 members
)

type model struct {
	ordered bool
	items   []int // first-insertion order
	mask    int
}

func (m *model) has(v int) bool {
	for _, x := range m.items {
		if x == v {
			return true
		}
	}
	return false
}

func (m *model) add(v int) bool {
	if m.has(v) {
		return true
	}
	m.items = append(m.items, v)
	return false
}

func (m *model) del(v int) bool {
	for i, x := range m.items {
		if x == v {
			m.items = append(append([]int{}, m.items[:i]...), m.items[i+1:]...)
			return true
		}
	}
	return false
}

func (m *model) sorted(desc bool) {
	sort.Ints(m.items)
	if desc {
		for i, j := 0, len(m.items)-1; i < j; i, j = i+1, j-1 {
			m.items[i], m.items[j] = m.items[j], m.items[i]
		}
	}
	m.ordered = true
}

func (m *model) canon() string {
	it := append([]int{}, m.items...)
	tag := "o"
	if !m.ordered {
		sort.Ints(it)
		tag = "u"
	}
	return fmt.Sprintf("%s%v#%d", tag, it, m.mask)
}

// expectation produced by the reference for one operation
type expect struct {
	ret        bool  // AddCheck / DeleteCheck
	freeTail   []int // Extend of an ordered set from an unordered one: these new members arrive in an order the harness cannot know
	equalKnown bool  // Equal: is the answer fixed by the statement?
	equal      bool
}

// stepModel applies op to the reference pair. It is pure (no implementation
// involved) so the supervisor can also run it to learn the provenance of a
// state without touching a Set.
func stepModel(sp kindSpec, a, b *model, op opDef) (e expect) {
	switch op.kind {
	case opAdd, opAddCheck:
		e.ret = a.add(op.val)
	case opDelete, opDeleteCheck:
		e.ret = a.del(op.val)
		a.mask |= mDel
	case opPopulate:
		for _, v := range op.vals {
			a.add(v)
		}
		a.mask |= mBulk
	case opExtend:
		for _, v := range b.items {
			if !a.add(v) && a.ordered && !b.ordered {
				e.freeTail = append(e.freeTail, v)
			}
		}
		if len(e.freeTail) < 2 {
			e.freeTail = nil
		}
		a.mask |= mBulk
	case opSort:
		switch {
		case !op.merge:
			a.mask |= mSortQuick
		case len(a.items) < 2:
			a.mask |= mSortMergeSmall
		default:
			a.mask |= mSortMergeBig
		}
		a.sorted(op.desc)
	case opEqual:
		same := sameMembers(a.items, b.items)
		switch {
		case a.ordered && b.ordered:
			e.equalKnown, e.equal = true, sameSeq(a.items, b.items)
		case !a.ordered && !b.ordered:
			e.equalKnown, e.equal = true, same
		default:
			// one ordered, one not: the statement only fixes the negative
			// direction (different members => not equal).
			e.equalKnown, e.equal = !same, false
		}
	case opJSON, opIterator:
	case opJSONReplace:
		a.ordered = sp.ordered
		a.mask = mBulk
	case opBAdd:
		b.add(op.val)
	case opBDelete:
		b.del(op.val)
		b.mask |= mDel
	case opBSort:
		b.sorted(false)
		b.mask |= mSortQuick
	}
	return e
}

// provenance runs the reference alone over a history.
func provenance(sp kindSpec, hist []int) string {
	a, b := &model{ordered: sp.ordered}, &model{ordered: sp.ordered}
	for _, o := range hist {
		stepModel(sp, a, b, ops[o])
	}
	return fmt.Sprintf("%d", a.mask)
}

func sameSeq(a, b []int) bool {
	if len(a) != len(b) {
		return false
	}
	for i := range a {
		if a[i] != b[i] {
			return false
		}
	}
	return true
}

func sameMembers(a, b []int) bool {
	x, y := append([]int{}, a...), append([]int{}, b...)
	sort.Ints(x)
	sort.Ints(y)
	return sameSeq(x, y)
}

// ---------------------------------------------------------------- implementation side

func newSet(sp kindSpec) *dt.Set[int] {
	s := &dt.Set[int]{}
	if sp.ordered {
		s.Order()
	}
	if sp.sync {
		s.Synchronize()
	}
	return s
}

func lt(desc bool) func(a, b int) bool {
	if desc {
		return func(a, b int) bool { return a > b }
	}
	return func(a, b int) bool { return a < b }
}

func contents(s *dt.Set[int]) ([]int, error) {
	ctx, cancel := context.WithCancel(context.Background())
	defer cancel()
	out, err := s.Iterator().Slice(ctx)
	if out == nil {
		out = []int{}
	}
	return out, err
}

type failure struct {
	oracle string // members | iter-order | retval | json | panic | equal
	info   string
}

func (f *failure) sig(sp kindSpec, op opDef) string {
	switch f.oracle {
	case "equal":
		return "set/equal/wrong-answer"
	case "retval-AddCheck":
		return fmt.Sprintf("set/%s/retval/AddCheck", sp.base)
	case "retval-DeleteCheck":
		return fmt.Sprintf("set/%s/retval/DeleteCheck", sp.base)
	}
	return fmt.Sprintf("set/%s/%s/%s", sp.base, f.oracle, op.sig)
}

// verify compares one set with its reference through the public API.
func verify(name string, s *dt.Set[int], m *model) *failure {
	for v := 0; v <= 3; v++ {
		if got := s.Check(v); got != m.has(v) {
			return &failure{"members", fmt.Sprintf("%s.Check(%d)=%v, reference %v (reference members %v)", name, v, got, m.has(v), m.items)}
		}
	}
	if got := s.Len(); got != len(m.items) {
		return &failure{"members", fmt.Sprintf("%s.Len()=%d, reference %d (reference members %v)", name, got, len(m.items), m.items)}
	}
	got, err := contents(s)
	if err != nil {
		return &failure{"members", fmt.Sprintf("%s.Iterator().Slice error %v", name, err)}
	}
	if !sameMembers(got, m.items) {
		return &failure{"members", fmt.Sprintf("%s iterator yields %v, reference multiset %v", name, got, m.items)}
	}
	if m.ordered && !sameSeq(got, m.items) {
		return &failure{"iter-order", fmt.Sprintf("%s iterator yields %v, reference order %v", name, got, m.items)}
	}
	return nil
}

// stepImpl applies op to the real sets, compares immediate results with the
// expectation and fixes up the one piece of order the reference cannot know.
func stepImpl(sp kindSpec, A **dt.Set[int], B *dt.Set[int], a, b *model, op opDef, e expect) (f *failure, terminal bool) {
	s := *A
	switch op.kind {
	case opAdd:
		s.Add(op.val)
	case opAddCheck:
		if got := s.AddCheck(op.val); got != e.ret {
			return &failure{"retval-AddCheck", fmt.Sprintf("AddCheck(%d)=%v, reference says present-before=%v", op.val, got, e.ret)}, false
		}
	case opDelete:
		s.Delete(op.val)
	case opDeleteCheck:
		if got := s.DeleteCheck(op.val); got != e.ret {
			return &failure{"retval-DeleteCheck", fmt.Sprintf("DeleteCheck(%d)=%v, reference says present-before=%v", op.val, got, e.ret)}, false
		}
	case opPopulate:
		s.Populate(fun.SliceIterator(append([]int{}, op.vals...)))
	case opExtend:
		s.Extend(B)
		if e.freeTail != nil {
			// ordered receiver, unordered argument, >= 2 new members: the
			// argument's (map) iteration order decides their relative order.
			// Assert everything else, adopt the observed tail, do not expand.
			got, err := contents(s)
			if err != nil {
				return &failure{"members", fmt.Sprintf("iterator error after Extend: %v", err)}, false
			}
			keep := len(a.items) - len(e.freeTail)
			if len(got) != len(a.items) || !sameSeq(got[:keep], a.items[:keep]) || !sameMembers(got[keep:], e.freeTail) {
				oracle := "iter-order"
				if !sameMembers(got, a.items) {
					oracle = "members"
				}
				return &failure{oracle, fmt.Sprintf("after Extend from an unordered set iterator yields %v, want prefix %v then a permutation of %v", got, a.items[:keep], e.freeTail)}, false
			}
			a.items = got
			terminal = true
		}
	case opSort:
		if op.merge {
			s.SortMerge(lt(op.desc))
		} else {
			s.SortQuick(lt(op.desc))
		}
	case opEqual:
		g1, g2 := s.Equal(B), B.Equal(s)
		if e.equalKnown && (g1 != e.equal || g2 != e.equal) {
			return &failure{"equal", fmt.Sprintf("A.Equal(B)=%v B.Equal(A)=%v want %v; A=%s B=%s", g1, g2, e.equal, a.canon(), b.canon())}, false
		}
	case opJSON, opJSONReplace:
		data, err := s.MarshalJSON()
		if err != nil {
			return &failure{"json", fmt.Sprintf("MarshalJSON error %v", err)}, false
		}
		var arr []int
		if err := json.Unmarshal(data, &arr); err != nil {
			return &failure{"json", fmt.Sprintf("MarshalJSON produced %q: %v", data, err)}, false
		}
		if !sameMembers(arr, a.items) || (a.ordered && !sameSeq(arr, a.items)) {
			return &failure{"json", fmt.Sprintf("MarshalJSON produced %s, reference %s", data, a.canon())}, false
		}
		c := newSet(sp)
		if err := c.UnmarshalJSON(data); err != nil {
			return &failure{"json", fmt.Sprintf("UnmarshalJSON(%s) error %v", data, err)}, false
		}
		want := &model{ordered: a.ordered && sp.ordered, items: a.items}
		if vf := verify("roundtripped", c, want); vf != nil {
			vf.info = fmt.Sprintf("after UnmarshalJSON(%s) into a fresh set: %s", data, vf.info)
			if vf.oracle == "members" {
				vf.oracle = "json"
			}
			return vf, false
		}
		if op.kind == opJSONReplace {
			*A = c
		}
	case opIterator:
		for i := 0; i < 2; i++ {
			if vf := verify(fmt.Sprintf("A(iterator #%d)", i+1), s, a); vf != nil {
				return vf, false
			}
		}
	case opBAdd:
		B.Add(op.val)
	case opBDelete:
		B.Delete(op.val)
	case opBSort:
		B.SortQuick(lt(false))
	}
	return nil, terminal
}

type reply struct {
	Key  string `json:"k"`
	Fail string `json:"f,omitempty"`
	Info string `json:"i,omitempty"`
}

// replay runs one history on fresh objects. The oracle is evaluated after
// every transition (a prefix was validated when it was the frontier, but map
// iteration order differs between replays, so it is re-checked).
func replay(sp kindSpec, hist []int) (res reply) {
	A, B := newSet(sp), newSet(sp)
	a, b := &model{ordered: sp.ordered}, &model{ordered: sp.ordered}
	terminal := false
	for i, o := range hist {
		op := ops[o]
		var f *failure
		func() {
			defer func() {
				if p := recover(); p != nil {
					f = &failure{"panic", fmt.Sprintf("panic: %v", p)}
				}
			}()
			e := stepModel(sp, a, b, op)
			var term bool
			f, term = stepImpl(sp, &A, B, a, b, op, e)
			terminal = terminal || term
			if f == nil {
				f = verify("A", A, a)
			}
			if f == nil {
				f = verify("B", B, b)
			}
		}()
		if f != nil {
			return reply{Fail: f.sig(sp, op), Info: fmt.Sprintf("step %d %s: %s", i+1, op.name, f.info)}
		}
	}
	if terminal {
		return reply{}
	}
	return reply{Key: sp.name + "|A" + a.canon() + "|B" + b.canon()}
}

func histNames(h []int) string {
	n := make([]string, len(h))
	for i, o := range h {
		n[i] = ops[o].name
	}
	return strings.Join(n, " ")
}

var _ = seq.Result{}
