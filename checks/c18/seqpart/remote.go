package seqpart

import (
	"bufio"
	"bytes"
	"encoding/json"
	"fmt"
	"io"
	"os"
	"os/exec"
	"runtime/debug"
	"runtime/metrics"
	"strconv"
	"strings"
	"sync"
	"sync/atomic"
	"syscall"
	"time"
)

// A replay drives the real Set. A defect there can spin forever or allocate
// without bound (both were observed), and a goroutine cannot be stopped from
// outside, so replays run in child processes of this binary that supervise
// themselves: a replay that burns more than cpuLimit of process CPU time
// (load independent), sits for wallLimit, or grows the heap past heapLimit
// makes the child announce the reason and exit; the supervisor turns that into
// a hang violation for exactly that history and starts a new child.
//
// False alarms: the machine may be badly overloaded or even frozen for a
// while. CPU time is load independent; the "blocked" limit counts scheduled
// monitor ticks as well as wall time (a frozen process makes no ticks); and a
// worker death is only reported after a second, fresh worker with a four times
// larger CPU allowance gave up on the same history too.
const (
	workerEnv    = "VERIF_C18_WORKER"
	cpuLimit     = 250 * time.Millisecond // process CPU time; a normal replay costs ~20-100us
	cpuConfirm   = 1000 * time.Millisecond
	wallLimit    = 30 * time.Second // only reachable by a deadlock
	monitorEvery = 5 * time.Millisecond
	heapLimit    = 1 << 30
	recycle      = 40000            // requests per child (bounds goroutines leaked by the library)
	backstop     = 20 * time.Minute // the worker supervises itself; this is for a wedged process only
)

func IsWorker() bool { return os.Getenv(workerEnv) == "1" }

func cpuNow() time.Duration {
	var ru syscall.Rusage
	if err := syscall.Getrusage(syscall.RUSAGE_SELF, &ru); err != nil {
		return 0
	}
	return time.Duration(ru.Utime.Nano() + ru.Stime.Nano())
}

// WorkerMain: read "<spec> <op,op,...>" lines, answer one JSON line each.
func WorkerMain() {
	var busySince, cpuAtStart, cpuAllowed, busyTicks atomic.Int64
	debug.SetGCPercent(400)
	die := func(reason string) {
		_, _ = os.Stdout.Write([]byte("!" + reason + "\n"))
		os.Exit(3)
	}
	go func() {
		sample := []metrics.Sample{{Name: "/memory/classes/heap/objects:bytes"}}
		for {
			time.Sleep(monitorEvery)
			since := busySince.Load()
			if since == 0 {
				continue
			}
			ticks := busyTicks.Add(1)
			if lim := time.Duration(cpuAllowed.Load()); cpuNow()-time.Duration(cpuAtStart.Load()) > lim {
				die("cpu: replay consumed more than " + lim.String() + " of CPU (spinning)")
			}
			if time.Since(time.Unix(0, since)) > wallLimit && ticks > int64(wallLimit/monitorEvery)/2 {
				die("wall: replay did not return within " + wallLimit.String() + " while the process was being scheduled (blocked)")
			}
			metrics.Read(sample)
			if sample[0].Value.Kind() == metrics.KindUint64 && sample[0].Value.Uint64() > heapLimit {
				die("memory: heap grew past 1GiB during the replay (unbounded allocation loop)")
			}
		}
	}()
	in := bufio.NewScanner(os.Stdin)
	in.Buffer(make([]byte, 1<<16), 1<<16)
	out := bufio.NewWriter(os.Stdout)
	for in.Scan() {
		spec, cpuMs, hist, err := parseReq(in.Text())
		if err != nil {
			fmt.Fprintln(os.Stderr, "bad request:", err)
			os.Exit(2)
		}
		cpuAllowed.Store(int64(time.Duration(cpuMs) * time.Millisecond))
		busyTicks.Store(0)
		cpuAtStart.Store(int64(cpuNow()))
		busySince.Store(time.Now().UnixNano())
		res := replay(specs[spec], hist)
		busySince.Store(0)
		body, _ := json.Marshal(res)
		out.Write(body)
		out.WriteByte('\n')
		out.Flush()
	}
}

func formatReq(spec int, cpu time.Duration, hist []int) string {
	var b strings.Builder
	b.WriteString(strconv.Itoa(spec))
	b.WriteByte(' ')
	b.WriteString(strconv.Itoa(int(cpu / time.Millisecond)))
	b.WriteByte(' ')
	for i, o := range hist {
		if i > 0 {
			b.WriteByte(',')
		}
		b.WriteString(strconv.Itoa(o))
	}
	b.WriteByte('\n')
	return b.String()
}

func parseReq(line string) (int, int, []int, error) {
	sp, rest, _ := strings.Cut(line, " ")
	spec, err := strconv.Atoi(sp)
	if err != nil || spec < 0 || spec >= len(specs) {
		return 0, 0, nil, fmt.Errorf("spec %q", sp)
	}
	cs, rest, _ := strings.Cut(rest, " ")
	cpuMs, err := strconv.Atoi(cs)
	if err != nil || cpuMs <= 0 {
		return 0, 0, nil, fmt.Errorf("cpu limit %q", cs)
	}
	var hist []int
	if rest != "" {
		for _, f := range strings.Split(rest, ",") {
			o, err := strconv.Atoi(f)
			if err != nil || o < 0 || o >= len(ops) {
				return 0, 0, nil, fmt.Errorf("op %q", f)
			}
			hist = append(hist, o)
		}
	}
	return spec, cpuMs, hist, nil
}

// ---------------------------------------------------------------- supervisor

type child struct {
	cmd    *exec.Cmd
	stdin  io.WriteCloser
	rd     *bufio.Reader
	stderr *bytes.Buffer
	served int
}

type pool struct {
	exe    string
	free   chan *child // nil entries are slots without a process yet
	spawns atomic.Int64
	// worker deaths that a second worker did not repeat (overload, external kill)
	transient atomic.Int64
	mu        sync.Mutex
}

func newPool(n int) (*pool, error) {
	exe, err := os.Executable()
	if err != nil {
		return nil, err
	}
	p := &pool{exe: exe, free: make(chan *child, n)}
	for i := 0; i < n; i++ {
		p.free <- nil
	}
	return p, nil
}

func (p *pool) spawn() (*child, error) {
	cmd := exec.Command(p.exe)
	cmd.Env = append(os.Environ(), workerEnv+"=1", "GOMAXPROCS=2")
	c := &child{cmd: cmd, stderr: &bytes.Buffer{}}
	cmd.Stderr = c.stderr
	var err error
	if c.stdin, err = cmd.StdinPipe(); err != nil {
		return nil, err
	}
	so, err := cmd.StdoutPipe()
	if err != nil {
		return nil, err
	}
	c.rd = bufio.NewReaderSize(so, 1<<16)
	if err := cmd.Start(); err != nil {
		return nil, err
	}
	p.spawns.Add(1)
	return c, nil
}

func (c *child) stop() {
	_ = c.stdin.Close()
	_ = c.cmd.Process.Kill()
	_ = c.cmd.Wait()
}

// call replays one history. died != "" means two workers in a row gave up on it.
func (p *pool) call(spec int, hist []int) (res reply, died string) {
	if res, died = p.callOnce(spec, hist, cpuLimit); died == "" || strings.HasPrefix(died, "supervisor:") {
		return res, died
	}
	first := died
	if res, died = p.callOnce(spec, hist, cpuConfirm); died == "" {
		p.transient.Add(1)
		return res, ""
	}
	return res, died + " [first attempt: " + first + "]"
}

func (p *pool) callOnce(spec int, hist []int, cpu time.Duration) (res reply, died string) {
	c := <-p.free
	defer func() { p.free <- c }()
	if c != nil && c.served >= recycle {
		c.stop()
		c = nil
	}
	if c == nil {
		var err error
		if c, err = p.spawn(); err != nil {
			c = nil
			return reply{}, "supervisor: cannot start worker: " + err.Error()
		}
	}
	c.served++
	kill := time.AfterFunc(backstop, func() { _ = c.cmd.Process.Kill() })
	_, werr := io.WriteString(c.stdin, formatReq(spec, cpu, hist))
	var line string
	var rerr error
	if werr == nil {
		line, rerr = c.rd.ReadString('\n')
	}
	kill.Stop()
	switch {
	case werr != nil || rerr != nil:
		c.stop()
		tail := c.stderr.String()
		if len(tail) > 600 {
			tail = tail[:600]
		}
		c = nil
		return reply{}, "crash: worker process ended without an answer: " + strings.TrimSpace(tail)
	case strings.HasPrefix(line, "!"):
		c.stop()
		c = nil
		return reply{}, strings.TrimSpace(line[1:])
	}
	if err := json.Unmarshal([]byte(line), &res); err != nil {
		c.stop()
		c = nil
		return reply{}, "crash: unparsable answer " + strconv.Quote(line)
	}
	return res, ""
}

func (p *pool) close() {
	for i := 0; i < cap(p.free); i++ {
		if c := <-p.free; c != nil {
			c.stop()
		}
	}
}
