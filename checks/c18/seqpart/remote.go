package seqpart

import (
	"bufio"
	"bytes"
	"encoding/json"
	"fmt"
	"io"
	"os"
	"os/exec"
	"runtime/metrics"
	"strconv"
	"strings"
	"sync"
	"sync/atomic"
	"syscall"
	"time"
)

// A replay drives the real Set. A defect there can spin forever or allocate
// without bound (both were observed), and a goroutine cannot be stopped from
// outside, so replays run in child processes of this binary that supervise
// themselves: a replay that burns more than cpuLimit of process CPU time
// (load independent), sits for wallLimit, or grows the heap past heapLimit
// makes the child announce the reason and exit; the supervisor turns that into
// a hang violation for exactly that history and starts a new child.
const (
	workerEnv = "VERIF_C18_WORKER"
	cpuLimit  = 150 * time.Millisecond // process CPU time, load independent; a normal replay costs ~20-100us
	wallLimit = 30 * time.Second       // only reachable by a deadlock
	heapLimit = 1 << 30
	recycle   = 40000 // requests per child (bounds goroutines leaked by the library)
)

func IsWorker() bool { return os.Getenv(workerEnv) == "1" }

func cpuNow() time.Duration {
	var ru syscall.Rusage
	if err := syscall.Getrusage(syscall.RUSAGE_SELF, &ru); err != nil {
		return 0
	}
	return time.Duration(ru.Utime.Nano() + ru.Stime.Nano())
}

// WorkerMain: read "<spec> <op,op,...>" lines, answer one JSON line each.
func WorkerMain() {
	var busySince, cpuAtStart atomic.Int64
	die := func(reason string) {
		_, _ = os.Stdout.Write([]byte("!" + reason + "\n"))
		os.Exit(3)
	}
	go func() {
		sample := []metrics.Sample{{Name: "/memory/classes/heap/objects:bytes"}}
		for {
			time.Sleep(5 * time.Millisecond)
			since := busySince.Load()
			if since == 0 {
				continue
			}
			if cpuNow()-time.Duration(cpuAtStart.Load()) > cpuLimit {
				die("cpu: replay consumed more than " + cpuLimit.String() + " of CPU (spinning)")
			}
			if time.Since(time.Unix(0, since)) > wallLimit {
				die("wall: replay did not return within " + wallLimit.String() + " (blocked)")
			}
			metrics.Read(sample)
			if sample[0].Value.Kind() == metrics.KindUint64 && sample[0].Value.Uint64() > heapLimit {
				die("memory: heap grew past 1GiB during the replay (unbounded allocation loop)")
			}
		}
	}()
	in := bufio.NewScanner(os.Stdin)
	in.Buffer(make([]byte, 1<<16), 1<<16)
	out := bufio.NewWriter(os.Stdout)
	for in.Scan() {
		spec, hist, err := parseReq(in.Text())
		if err != nil {
			fmt.Fprintln(os.Stderr, "bad request:", err)
			os.Exit(2)
		}
		cpuAtStart.Store(int64(cpuNow()))
		busySince.Store(time.Now().UnixNano())
		res := replay(specs[spec], hist)
		busySince.Store(0)
		body, _ := json.Marshal(res)
		out.Write(body)
		out.WriteByte('\n')
		out.Flush()
	}
}

func formatReq(spec int, hist []int) string {
	var b strings.Builder
	b.WriteString(strconv.Itoa(spec))
	b.WriteByte(' ')
	for i, o := range hist {
		if i > 0 {
			b.WriteByte(',')
		}
		b.WriteString(strconv.Itoa(o))
	}
	b.WriteByte('\n')
	return b.String()
}

func parseReq(line string) (int, []int, error) {
	sp, rest, _ := strings.Cut(line, " ")
	spec, err := strconv.Atoi(sp)
	if err != nil || spec < 0 || spec >= len(specs) {
		return 0, nil, fmt.Errorf("spec %q", sp)
	}
	var hist []int
	if rest != "" {
		for _, f := range strings.Split(rest, ",") {
			o, err := strconv.Atoi(f)
			if err != nil || o < 0 || o >= len(ops) {
				return 0, nil, fmt.Errorf("op %q", f)
			}
			hist = append(hist, o)
		}
	}
	return spec, hist, nil
}

// ---------------------------------------------------------------- supervisor

type child struct {
	cmd    *exec.Cmd
	stdin  io.WriteCloser
	rd     *bufio.Reader
	stderr *bytes.Buffer
	served int
}

type pool struct {
	exe    string
	free   chan *child // nil entries are slots without a process yet
	spawns atomic.Int64
	mu     sync.Mutex
}

func newPool(n int) (*pool, error) {
	exe, err := os.Executable()
	if err != nil {
		return nil, err
	}
	p := &pool{exe: exe, free: make(chan *child, n)}
	for i := 0; i < n; i++ {
		p.free <- nil
	}
	return p, nil
}

func (p *pool) spawn() (*child, error) {
	cmd := exec.Command(p.exe)
	cmd.Env = append(os.Environ(), workerEnv+"=1")
	c := &child{cmd: cmd, stderr: &bytes.Buffer{}}
	cmd.Stderr = c.stderr
	var err error
	if c.stdin, err = cmd.StdinPipe(); err != nil {
		return nil, err
	}
	so, err := cmd.StdoutPipe()
	if err != nil {
		return nil, err
	}
	c.rd = bufio.NewReaderSize(so, 1<<16)
	if err := cmd.Start(); err != nil {
		return nil, err
	}
	p.spawns.Add(1)
	return c, nil
}

func (c *child) stop() {
	_ = c.stdin.Close()
	_ = c.cmd.Process.Kill()
	_ = c.cmd.Wait()
}

// call replays one history. died != "" means the child gave up on it.
func (p *pool) call(spec int, hist []int) (res reply, died string) {
	c := <-p.free
	defer func() { p.free <- c }()
	if c != nil && c.served >= recycle {
		c.stop()
		c = nil
	}
	if c == nil {
		var err error
		if c, err = p.spawn(); err != nil {
			c = nil
			return reply{}, "supervisor: cannot start worker: " + err.Error()
		}
	}
	c.served++
	backstop := time.AfterFunc(wallLimit+15*time.Second, func() { _ = c.cmd.Process.Kill() })
	_, werr := io.WriteString(c.stdin, formatReq(spec, hist))
	var line string
	var rerr error
	if werr == nil {
		line, rerr = c.rd.ReadString('\n')
	}
	backstop.Stop()
	switch {
	case werr != nil || rerr != nil:
		c.stop()
		tail := c.stderr.String()
		if len(tail) > 600 {
			tail = tail[:600]
		}
		c = nil
		return reply{}, "crash: worker process ended without an answer: " + strings.TrimSpace(tail)
	case strings.HasPrefix(line, "!"):
		c.stop()
		c = nil
		return reply{}, strings.TrimSpace(line[1:])
	}
	if err := json.Unmarshal([]byte(line), &res); err != nil {
		c.stop()
		c = nil
		return reply{}, "crash: unparsable answer " + strconv.Quote(line)
	}
	return res, ""
}

func (p *pool) close() {
	for i := 0; i < cap(p.free); i++ {
		if c := <-p.free; c != nil {
			c.stop()
		}
	}
}
