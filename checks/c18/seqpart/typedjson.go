package seqpart

import (
	"context"
	"fmt"
	"sort"

	"github.com/tychoish/fun/dt"
	"verif/rep"
)

// rec is a comparable struct member whose JSON form omits zero fields, so
// that consecutive array elements have different sets of keys.
type rec struct {
	A int    `json:"a,omitempty"`
	B int    `json:"b,omitempty"`
	S string `json:"s,omitempty"`
}

var bg = context.Background()

var recValues = []rec{{}, {A: 1}, {B: 2}, {A: 3, B: 4}, {S: "x"}, {A: 1, S: "y"}}

func recKey(s []rec) string {
	out := make([]string, len(s))
	for i, r := range s {
		out[i] = fmt.Sprintf("%+v", r)
	}
	return fmt.Sprint(out)
}

func setMembers(s *dt.Set[rec]) ([]rec, error) {
	it := s.Iterator()
	var out []rec
	for {
		v, err := it.ReadOne(bg)
		if err != nil {
			break
		}
		out = append(out, v)
		if len(out) > 64 {
			return out, fmt.Errorf("iterator does not end")
		}
	}
	return out, it.Close()
}

// typedJSON: MarshalJSON / UnmarshalJSON round-trips the members also when the
// member type is a struct: every sequence (without repetition) of up to
// maxLen values from recValues, ordered and unordered sets.
func typedJSON(r *rep.Report, maxLen int) {
	cases, evals := 0, 0
	var seqs [][]rec
	var gen func(cur []rec, used int)
	gen = func(cur []rec, used int) {
		seqs = append(seqs, append([]rec{}, cur...))
		if len(cur) == maxLen {
			return
		}
		for i, v := range recValues {
			if used&(1<<i) == 0 {
				gen(append(cur, v), used|1<<i)
			}
		}
	}
	gen(nil, 0)
	reported := map[string]bool{}
	fail := func(sig string, in []rec, info string) {
		if reported[sig] {
			return
		}
		reported[sig] = true
		r.Violation(sig, map[string]any{"members": recKey(in), "detail": info})
	}
	for _, in := range seqs {
		for _, ordered := range []bool{true, false} {
			cases++
			func() {
				defer func() {
					if p := recover(); p != nil {
						fail("set/typed-json/panic", in, fmt.Sprint(p))
					}
				}()
				a := &dt.Set[rec]{}
				if ordered {
					a.Order()
				}
				for _, v := range in {
					a.Add(v)
				}
				data, err := a.MarshalJSON()
				if err != nil {
					fail("set/typed-json/marshal-error", in, err.Error())
					return
				}
				b := &dt.Set[rec]{}
				if ordered {
					b.Order()
				}
				if err := b.UnmarshalJSON(data); err != nil {
					fail("set/typed-json/unmarshal-error", in, fmt.Sprintf("%s: %v", data, err))
					return
				}
				got, err := setMembers(b)
				evals += 3
				if err != nil {
					fail("set/typed-json/iterator-error", in, err.Error())
					return
				}
				want := append([]rec{}, in...)
				if !ordered {
					sort.Slice(got, func(i, j int) bool { return fmt.Sprint(got[i]) < fmt.Sprint(got[j]) })
					sort.Slice(want, func(i, j int) bool { return fmt.Sprint(want[i]) < fmt.Sprint(want[j]) })
				}
				if recKey(got) != recKey(want) || b.Len() != len(in) {
					fail("set/typed-json/members-differ-after-roundtrip", in, fmt.Sprintf("json %s decoded to %s (Len %d), want %s", data, recKey(got), b.Len(), recKey(want)))
					return
				}
				if !a.Equal(b) || !b.Equal(a) {
					fail("set/typed-json/not-equal-after-roundtrip", in, fmt.Sprintf("json %s", data))
				}
			}()
		}
	}
	r.Add("evaluations", evals)
	r.Add("states", cases)
	r.Add("transitions", cases)
	r.Add("traces_validated_against_impl", cases)
	r.Set("typed_json_cases", fmt.Sprintf("%d sequences x {ordered, unordered} of struct members with omitted fields, length <= %d", len(seqs), maxLen))
}
