package seqpart

import (
	"fmt"
	"runtime"
	"strings"
	"sync"
	"sync/atomic"
	"time"

	"verif/rep"
	"verif/seq"
)

// hangBudget: how many times one (provenance of A, operation) pair may kill a
// worker before further transitions with that pair are skipped. Every skipped
// transition is counted and turns the run non-exhaustive.
const hangBudget = 1

func Run(r *rep.Report, tier string) {
	depth, budget := 6, 50*time.Second
	if tier == "thorough" {
		depth, budget = 8, 9*time.Minute
	}
	deadline := time.Now().Add(budget)
	if tier == "thorough" {
		typedJSON(r, 4)
	} else {
		typedJSON(r, 3)
	}
	workers := runtime.NumCPU()
	p, err := newPool(workers)
	if err != nil {
		r.Set("exhaustive", false)
		r.Set("error", err.Error())
		return
	}
	defer p.close()

	exhaustive := true
	var pruned, hangs, supervisorErrors atomic.Int64
	perSpec := map[string]any{}
	minDepth := depth

	for si, sp := range specs {
		si, sp := si, sp
		var mu sync.Mutex
		hangCount := map[string]int{}        // (provenance of A, operator) -> workers killed
		suspect := map[string]bool{}         // operators that have killed a worker in this kind
		pairLock := map[string]*sync.Mutex{} // probes of a suspect pair are serialised so one death is enough
		st := seq.Explore(seq.Spec{
			Name:     sp.name,
			NumOps:   len(ops),
			OpName:   func(o int) string { return ops[o].name },
			MaxDepth: depth,
			Deadline: deadline,
			Workers:  workers,
			Run: func(h []int) seq.Result {
				pk, opname := "", "init"
				if len(h) > 0 {
					opname, _, _ = strings.Cut(ops[h[len(h)-1]].name, "(")
					pk = provenance(sp, h[:len(h)-1]) + "/" + opname
					mu.Lock()
					var pl *sync.Mutex
					if suspect[opname] {
						if pl = pairLock[pk]; pl == nil {
							pl = &sync.Mutex{}
							pairLock[pk] = pl
						}
					}
					mu.Unlock()
					if pl != nil {
						pl.Lock()
						defer pl.Unlock()
					}
					mu.Lock()
					n := hangCount[pk]
					mu.Unlock()
					if n >= hangBudget {
						pruned.Add(1)
						return seq.Result{}
					}
				}
				res, died := p.call(si, h)
				if died != "" {
					if strings.HasPrefix(died, "supervisor:") {
						supervisorErrors.Add(1)
						return seq.Result{}
					}
					hangs.Add(1)
					mu.Lock()
					hangCount[pk]++
					suspect[opname] = true
					mu.Unlock()
					opsig := "init"
					if len(h) > 0 {
						opsig = ops[h[len(h)-1]].sig
					}
					tag := "hang"
					if strings.HasPrefix(died, "crash:") {
						tag = "crash"
					}
					return seq.Result{Fail: fmt.Sprintf("set/%s/%s/%s", sp.base, tag, opsig),
						Info: "worker gave up on the last operation of this history: " + died}
				}
				return seq.Result{Key: res.Key, Fail: res.Fail, Info: res.Info}
			},
		})
		r.Add("states", st.States)
		r.Add("transitions", st.Transitions)
		r.Add("traces_validated_against_impl", st.Transitions)
		r.Add("evaluations", st.Transitions)
		r.Add("distinct_nontrivial", st.States)
		perSpec[sp.name] = map[string]any{"states": st.States, "transitions": st.Transitions,
			"depth_completed": st.Depth, "exhaustive": st.Exhaustive}
		if !st.Exhaustive {
			exhaustive = false
			if st.Depth < minDepth {
				minDepth = st.Depth
			}
		}
		for _, s := range st.Sample {
			r.Sample(s)
		}
		for _, f := range st.Failures {
			r.Violation(f.Fail, map[string]any{
				"set_kind": f.Spec,
				"history":  f.History,
				"detail":   f.Info,
				"how":      "fresh dt.Set A and B of set_kind; apply history in order (ops without prefix act on A); the oracle is evaluated after every operation",
			})
		}
	}
	if pruned.Load() > 0 || supervisorErrors.Load() > 0 {
		exhaustive = false
	}
	r.Set("per_kind", perSpec)
	r.Set("max_depth", depth)
	r.Set("depth_completed", minDepth)
	r.Set("alphabet", len(ops))
	r.Set("worker_processes_started", int(p.spawns.Load()))
	r.Set("replays_abandoned_by_worker", int(hangs.Load()))
	r.Set("transitions_skipped_after_repeated_hang", int(pruned.Load()))
	r.Set("supervisor_errors", int(supervisorErrors.Load()))
	r.Set("worker_deaths_not_repeated_by_a_second_worker", int(p.transient.Load()))
	r.Set("exhaustive", exhaustive)
	r.Set("rule", "BFS over operation histories (values {1,2,3}, two sets A and B per state) for {unordered,ordered}x{plain,Synchronize}; "+
		"every history replayed on fresh dt.Sets in a supervised child process and compared with a map+insertion-order reference after every operation "+
		"(Check, Len, AddCheck/DeleteCheck results, iterator multiset, iterator order when ordered, Equal, JSON round trip); "+
		"states merged by kind + ordered contents (sorted for unordered) + operation-class provenance of both sets; "+
		"a replay that spins/blocks/explodes kills its worker and is a hang violation; after "+fmt.Sprint(hangBudget)+
		" such death(s) per (provenance, operation) the pair is skipped, counted, and the run is marked non-exhaustive")
}
