// C18 (sequential part): dt.Set against a reference set, explicit-state BFS.
package main

import (
	"flag"
	"os"

	"verif/checks/c18/seqpart"
	"verif/rep"
)

func main() {
	// Replays run in supervised child processes of this same binary (a
	// replay that spins or blows up memory cannot be stopped in-process).
	if seqpart.IsWorker() {
		seqpart.WorkerMain()
		return
	}
	tier := flag.String("tier", "quick", "quick|thorough")
	flag.Parse()
	r := rep.New("C18", *tier, "model_checking")
	seqpart.Run(r, *tier)
	os.Exit(r.Finish())
}
