// C04: pipelines terminate — no stuck consumer, no leaked goroutine.
package main

import (
	"context"
	"errors"
	"fmt"
	"io"
	"strings"
	"sync/atomic"
	"time"

	"github.com/tychoish/fun"
	"github.com/tychoish/fun/adt"
	"github.com/tychoish/fun/dt"
	"github.com/tychoish/fun/itertool"
	"verif/vs"
	"verif/vs/runner"
)

// source of n items; blocking=true: an open channel that never yields more
// than n items and is never closed (the pipeline stays alive until stopped).
func source(n int, blocking bool) *fun.Iterator[int] {
	if !blocking {
		in := make([]int, n)
		for i := range in {
			in[i] = i + 1
		}
		return fun.SliceIterator(in)
	}
	ch := make(chan int, n)
	for i := 0; i < n; i++ {
		ch <- i + 1
	}
	return fun.ChannelIterator(ch)
}

type construct struct {
	name string
	// make builds the output iterator(s) over a source; the first is consumed,
	// the others (Split) are handled by the stop script.
	make func(ctx context.Context, src func() *fun.Iterator[int], w int) []*fun.Iterator[int]
}

func one(it *fun.Iterator[int]) []*fun.Iterator[int] { return []*fun.Iterator[int]{it} }

func constructs() []construct {
	nw := fun.WorkerGroupConfNumWorkers
	return []construct{
		{"Split", func(ctx context.Context, src func() *fun.Iterator[int], w int) []*fun.Iterator[int] {
			return src().Split(w)
		}},
		{"Buffer", func(ctx context.Context, src func() *fun.Iterator[int], w int) []*fun.Iterator[int] {
			return one(src().Buffer(w - 1))
		}},
		{"ParallelBuffer", func(ctx context.Context, src func() *fun.Iterator[int], w int) []*fun.Iterator[int] {
			return one(src().ParallelBuffer(w))
		}},
		// BufferedChannel / Channel hand out a plain channel fed by a pump goroutine that lives on
		// the context given at construction: the documented ways to stop are exhaustion and
		// cancelling that context (there is no Close on a channel)
		{"BufferedChannel", func(ctx context.Context, src func() *fun.Iterator[int], w int) []*fun.Iterator[int] {
			return one(fun.ChannelIterator(src().BufferedChannel(ctx, w-1)))
		}},
		{"Channel", func(ctx context.Context, src func() *fun.Iterator[int], w int) []*fun.Iterator[int] {
			return one(fun.ChannelIterator(src().Channel(ctx)))
		}},
		{"itertool.Map", func(ctx context.Context, src func() *fun.Iterator[int], w int) []*fun.Iterator[int] {
			return one(itertool.Map(src(), func(_ context.Context, v int) (int, error) { return v, nil }, nw(w)))
		}},
		{"GenerateParallel", func(ctx context.Context, src func() *fun.Iterator[int], w int) []*fun.Iterator[int] {
			s := src()
			// the generator is called by w workers at once: it has to be safe for that
			return one(fun.Producer[int](s.ReadOne).Lock().GenerateParallel(nw(w)))
		}},
		{"MergeIterators", func(ctx context.Context, src func() *fun.Iterator[int], w int) []*fun.Iterator[int] {
			its := make([]*fun.Iterator[int], w)
			for i := range its {
				its[i] = src()
			}
			return one(fun.MergeIterators(its...))
		}},
		{"itertool.Chain", func(ctx context.Context, src func() *fun.Iterator[int], w int) []*fun.Iterator[int] {
			its := make([]*fun.Iterator[int], w)
			for i := range its {
				its[i] = src()
			}
			return one(itertool.Chain(its...))
		}},
		{"itertool.MergeSlices", func(ctx context.Context, src func() *fun.Iterator[int], w int) []*fun.Iterator[int] {
			sl := make([][]int, w)
			for i := range sl {
				sl[i] = []int{1, 2}
			}
			return one(itertool.MergeSlices(sl...))
		}},
		{"itertool.MergeSliceIterators", func(ctx context.Context, src func() *fun.Iterator[int], w int) []*fun.Iterator[int] {
			sl := make([][]int, w)
			for i := range sl {
				sl[i] = []int{1, 2}
			}
			return one(itertool.MergeSliceIterators(fun.SliceIterator(sl)))
		}},
		// worker-group options x context-aware user functions: a generator / mapper that reports
		// the end of ITS context as an error must not keep the workers alive after Close/cancel
		optVariant("GenerateParallel", "ce", true, false),
		optVariant("GenerateParallel", "ic", false, true),
		optVariant("GenerateParallel", "ce+ic", true, true),
		optVariant("itertool.Map", "ce", true, false),
		optVariant("itertool.Map", "ic", false, true),
		optVariant("itertool.Map", "ce+ic", true, true),
		{"dt.Map.Keys", func(ctx context.Context, src func() *fun.Iterator[int], w int) []*fun.Iterator[int] {
			m := dt.Map[int, int]{1: 1, 2: 2, 3: 3}
			return one(m.Keys())
		}},
		{"adt.Map.Keys", func(ctx context.Context, src func() *fun.Iterator[int], w int) []*fun.Iterator[int] {
			m := &adt.Map[int, int]{}
			m.Store(1, 1)
			m.Store(2, 2)
			m.Store(3, 3)
			return one(m.Keys())
		}},
	}
}

func optVariant(base, label string, contErr, inclCtx bool) construct {
	return construct{base + "/" + label, func(_ context.Context, src func() *fun.Iterator[int], w int) []*fun.Iterator[int] {
		opts := []fun.OptionProvider[*fun.WorkerGroupConf]{fun.WorkerGroupConfNumWorkers(w)}
		if contErr {
			opts = append(opts, fun.WorkerGroupConfContinueOnError())
		}
		if inclCtx {
			opts = append(opts, fun.WorkerGroupConfIncludeContextErrors())
		}
		s := src()
		if base == "GenerateParallel" {
			return one(fun.Producer[int](func(ctx context.Context) (int, error) {
				if err := ctx.Err(); err != nil {
					return 0, err
				}
				return s.ReadOne(ctx)
			}).Lock().GenerateParallel(opts...))
		}
		return one(itertool.Map(s, func(ctx context.Context, v int) (int, error) {
			if err := ctx.Err(); err != nil {
				return 0, err
			}
			return v, nil
		}, opts...))
	}}
}

func endTag(e *vs.End) (string, string) {
	if len(e.Panics) > 0 {
		return "panic/" + e.Panics[0].Site, e.Panics[0].Value
	}
	if e.NonTerminating() {
		return "livelock/" + e.LibSites(), fmt.Sprintf("%+v", e.Stuck)
	}
	if e.Status != vs.Clean {
		if e.MainStuck {
			return "consumer-stuck/" + e.LibSites(), fmt.Sprintf("%+v", e.Stuck)
		}
		return "leaked-goroutine/" + e.LibSites(), fmt.Sprintf("goroutines never exited: %+v", e.Stuck)
	}
	return "", ""
}

// stop scripts. k = items consumed before stopping.
func scenario(c construct, n, k, w int, stop string, blocking bool) vs.Scenario {
	return func() (func(), func(*vs.End) (string, string)) {
		var got []int
		var lastErr error
		var closeErrs []error
		consumerDone := false
		body := func() {
			// the context is cancelled only by the stop scripts that say so: Close
			// alone must be enough to make every goroutine exit
			ctx, cancel := context.WithCancel(context.Background())
			outs := c.make(ctx, func() *fun.Iterator[int] { return source(n, blocking) }, w)
			it := outs[0]
			read := func(max int) {
				for i := 0; max < 0 || i < max; i++ {
					v, err := it.ReadOne(ctx)
					if err != nil {
						lastErr = err
						return
					}
					got = append(got, v)
				}
			}
			closeTwice := func(x *fun.Iterator[int]) {
				closeErrs = append(closeErrs, x.Close())
				closeErrs = append(closeErrs, x.Close())
			}
			others := func() {
				for _, o := range outs[1:] {
					closeTwice(o)
				}
			}
			switch stop {
			case "exhaust":
				read(-1)
				// with several outputs (Split) the others see EOF as well
				for _, o := range outs[1:] {
					_, err := o.ReadOne(ctx)
					if err == nil {
						_, err = o.ReadOne(ctx)
					}
				}
				consumerDone = true
			case "close":
				read(k)
				closeTwice(it)
				others()
				consumerDone = true
			case "cancel":
				read(k)
				cancel()
				consumerDone = true
			case "close-cancel":
				read(k)
				closeTwice(it)
				others()
				cancel()
				consumerDone = true
			case "cancel-close":
				read(k)
				cancel()
				closeTwice(it)
				others()
				consumerDone = true
			case "close-other", "cancel-other":
				fin := make(chan struct{}, 1)
				go func() { read(-1); consumerDone = true; fin <- struct{}{} }()
				vs.Quiesce()
				if stop == "close-other" {
					closeTwice(it)
					others()
				} else {
					cancel()
				}
				<-fin
			case "close-race":
				fin := make(chan struct{}, 1)
				go func() { read(-1); consumerDone = true; fin <- struct{}{} }()
				closeTwice(it)
				others()
				<-fin
			case "close-first-read-others", "cancel-first-read-others":
				// Split: stop the first-advanced output (Close, or cancel the context of its
				// first advance); a consumer of a sibling output must not stay blocked: each of
				// its reads returns an item or an error
				read(k)
				if stop == "close-first-read-others" {
					closeTwice(it)
				} else {
					cancel()
				}
				ctx2, cancel2 := context.WithCancel(context.Background())
				for _, o := range outs[1:] {
					for i := 0; i <= n; i++ {
						if _, err := o.ReadOne(ctx2); err != nil {
							break
						}
					}
					closeTwice(o)
				}
				cancel2()
				consumerDone = true
			case "abandon-one":
				// advance one Split output, abandon it, close the others
				read(k)
				others()
				consumerDone = true
			}
		}
		check := func(e *vs.End) (string, string) {
			if t, d := endTag(e); t != "" {
				return t, fmt.Sprintf("%s n=%d k=%d w=%d stop=%s: %s", c.name, n, k, w, stop, d)
			}
			if !consumerDone {
				return "consumer-stuck", "consumer did not finish"
			}
			if stop == "exhaust" && !errors.Is(lastErr, io.EOF) {
				return "no-eof-on-finite-input", fmt.Sprintf("%s: got %v then %v", c.name, got, lastErr)
			}
			return "", ""
		}
		return body, check
	}
}

var _ = atomic.Int64{}

func build(tier string) ([]runner.Instance, time.Duration) {
	bound, budget := 1, 80*time.Second
	maxN, maxW := 2, 2
	if tier == "thorough" {
		bound, budget, maxN = 2, 14*time.Minute, 3
	}
	var out []runner.Instance
	add := func(c construct, n, k, w int, stop string, blocking bool, b int) {
		out = append(out, runner.Instance{Group: c.name + "/" + stop, Name: fmt.Sprintf("%s/%s/n=%d,k=%d,w=%d,blocking=%v", c.name, stop, n, k, w, blocking), Bound: b, Scenario: scenario(c, n, k, w, stop, blocking)})
	}
	for _, c := range constructs() {
		bnd := bound
		if strings.Contains(c.name, "/") && tier == "thorough" {
			bnd = bound - 1 // option variants: one level less deep
		}
		for w := 1; w <= maxW; w++ {
			for n := 1; n <= maxN; n++ {
				if c.name == "BufferedChannel" || c.name == "Channel" {
					if c.name == "Channel" && w > 1 {
						continue
					}
					add(c, n, n, w, "exhaust", false, bnd+1)
					add(c, 0, 0, w, "exhaust", false, bnd+1)
					for k := 0; k <= n; k++ {
						add(c, n, k, w, "cancel", false, bnd)
						if k == n {
							add(c, n, k, w, "cancel", true, bnd)
						}
					}
					add(c, n, n, w, "cancel-other", true, bnd)
					continue
				}
				if c.name == "Split" && w > 1 {
					for k := 0; k <= n; k++ {
						add(c, n, k, w, "close-first-read-others", false, bnd+1)
						add(c, n, k, w, "cancel-first-read-others", false, bnd+1)
						if k == n {
							add(c, n, k, w, "close-first-read-others", true, bnd+1)
						}
					}
				}
				add(c, n, n, w, "exhaust", false, bnd)
				for k := 0; k <= n; k++ {
					for _, stop := range []string{"close", "cancel", "close-cancel", "cancel-close"} {
						add(c, n, k, w, stop, false, bnd)
						if k == n {
							add(c, n, k, w, stop, true, bnd)
						}
					}
				}
				for _, stop := range []string{"close-other", "cancel-other"} {
					add(c, n, n, w, stop, true, bnd)
				}
				add(c, n, 0, w, "close-race", false, bnd+1)
				add(c, n, 0, w, "close-race", true, bnd+1)
				if c.name == "Split" && w > 1 {
					for k := 0; k <= n; k++ {
						add(c, n, k, w, "abandon-one", false, bnd)
					}
				}
			}
		}
	}
	if tier != "thorough" {
		// quick: inputs one longer than buffer + workers for the buffered stages, so that a
		// sender can meet a FULL buffer after the consumer has stopped reading
		for _, c := range constructs() {
			if c.name == "ParallelBuffer" || c.name == "Buffer" || c.name == "BufferedChannel" {
				for _, stop := range []string{"close", "cancel"} {
					if c.name == "BufferedChannel" && stop == "close" {
						continue
					}
					add(c, 3, 0, 2, stop, false, bound+1)
					add(c, 4, 1, 2, stop, false, bound+1) // one item read, three more for two buffer slots
				}
			}
		}
	}
	return out, budget
}

func main() {
	runner.Main(runner.Options{Property: "C04", Level: "exploration", Build: build, RacePoints: true,
		Assume: []string{"model of sync/context/channels in verif/vs (DESIGN §2.2)", "every goroutine is known to the scheduler: an execution ends clean only if all of them returned", "small scope: <=3 items, <=2 workers"}})
}
