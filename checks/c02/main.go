// C02: sequential iterator pipelines equal their functional specification.
package main

import (
	"flag"
	"os"

	"verif/checks/c02/seqpart"
	"verif/rep"
)

func main() {
	// Cases run in supervised child processes of this same binary (a panic in
	// a library goroutine or a runtime fatal error cannot be recovered).
	if seqpart.IsWorker() {
		seqpart.WorkerMain()
		return
	}
	tier := flag.String("tier", "quick", "quick|thorough")
	flag.Parse()
	r := rep.New("C02", *tier, "model_checking")
	seqpart.Run(r, *tier)
	seqpart.RunTyped(r, *tier)
	os.Exit(r.Finish())
}
