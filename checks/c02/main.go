// C02: sequential iterator pipelines equal their functional specification.
package main

import (
	"flag"
	"os"

	"verif/checks/c02/seqpart"
	"verif/rep"
)

func main() {
	tier := flag.String("tier", "quick", "quick|thorough")
	flag.Parse()
	r := rep.New("C02", *tier, "model_checking")
	seqpart.Run(r, *tier)
	os.Exit(r.Finish())
}
