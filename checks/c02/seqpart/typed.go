package seqpart

import (
	"bytes"
	"context"
	"encoding/json"
	"fmt"
	"strings"
	"time"

	"github.com/tychoish/fun"
	"github.com/tychoish/fun/dt"
	"github.com/tychoish/fun/itertool"

	"verif/rep"
)

// Typed JSON phase. The main enumeration uses int elements only; decoding
// into a reused destination is invisible for scalars (encoding/json overwrites
// them) but merges into structs, maps, slices and pointees. Here every JSON
// array of up to maxLen element literals (from a small menu per element type:
// full / partial / empty objects, slices of different lengths, null) goes
// through every JSON entry point of the iterator packages and is compared with
// encoding/json decoding the same document into a fresh []T.

type typedStruct struct {
	A int            `json:"a,omitempty"`
	B string         `json:"b,omitempty"`
	C []int          `json:"c,omitempty"`
	D map[string]int `json:"d,omitempty"`
	E *int           `json:"e,omitempty"`
}

type typedStats struct {
	docs, cases, nontrivial int
}

func normJSON(v any) string {
	b, err := json.Marshal(v)
	if err != nil {
		return "marshal-error:" + err.Error()
	}
	return string(b)
}

// guardCase runs f with a watchdog; a panic or hang is reported as a violation.
func guardCase(r *rep.Report, sigBase string, replay map[string]any, f func() (string, string)) {
	type res struct{ tag, info string }
	ch := make(chan res, 1)
	go func() {
		defer func() {
			if p := recover(); p != nil {
				ch <- res{"panic", fmt.Sprint(p)}
			}
		}()
		t, i := f()
		ch <- res{t, i}
	}()
	select {
	case x := <-ch:
		if x.tag != "" {
			replay["info"] = x.info
			r.Violation(sigBase+"/"+x.tag, replay)
		}
	case <-time.After(20 * time.Second):
		replay["info"] = "did not return within 20s"
		r.Violation(sigBase+"/hang", replay)
	}
}

func typedJSON[T any](r *rep.Report, st *typedStats, tname string, lits []string, maxLen int) {
	ctx := context.Background()
	var rec func(cur []string)
	seen := map[string]bool{} // one violation per signature is enough; keep enumerating for the counts
	rec = func(cur []string) {
		doc := "[" + strings.Join(cur, ",") + "]"
		st.docs++
		if len(cur) >= 2 {
			st.nontrivial++
		}
		var want []T
		if err := json.Unmarshal([]byte(doc), &want); err != nil {
			panic("reference decoder rejected " + doc + ": " + err.Error())
		}
		if want == nil {
			want = []T{}
		}
		wantS := normJSON(want)
		run := func(entry string, f func() (any, error)) {
			st.cases++
			sig := "json/typed/" + entry
			if seen[sig+"/"+tname] {
				return
			}
			guardCase(r, sig, map[string]any{"element_type": tname, "document": doc, "expected": wantS}, func() (string, string) {
				got, err := f()
				if err != nil {
					seen[sig+"/"+tname] = true
					return "error/" + tname, err.Error()
				}
				if g := normJSON(got); g != wantS {
					seen[sig+"/"+tname] = true
					return "mismatch/" + tname, "got " + g
				}
				return "", ""
			})
		}
		run("Iterator.UnmarshalJSON", func() (any, error) {
			it := fun.SliceIterator([]T{}) // UnmarshalJSON appends to an existing (here empty) iterator
			if err := it.UnmarshalJSON([]byte(doc)); err != nil {
				return nil, err
			}
			out, err := it.Slice(ctx)
			if out == nil {
				out = []T{}
			}
			return out, err
		})
		run("Iterator.UnmarshalJSON+Filter+MarshalJSON", func() (any, error) {
			it := fun.SliceIterator([]T{}) // UnmarshalJSON appends to an existing (here empty) iterator
			if err := it.UnmarshalJSON([]byte(doc)); err != nil {
				return nil, err
			}
			b, err := it.Filter(func(T) bool { return true }).MarshalJSON()
			if err != nil {
				return nil, err
			}
			var out []T
			if err := json.Unmarshal(b, &out); err != nil {
				return nil, fmt.Errorf("MarshalJSON produced %q: %w", b, err)
			}
			if out == nil {
				out = []T{}
			}
			return out, nil
		})
		run("SliceIterator.MarshalJSON", func() (any, error) {
			b, err := fun.SliceIterator(want).MarshalJSON()
			if err != nil {
				return nil, err
			}
			var out []T
			if err := json.Unmarshal(b, &out); err != nil {
				return nil, fmt.Errorf("MarshalJSON produced %q: %w", b, err)
			}
			if out == nil {
				out = []T{}
			}
			return out, nil
		})
		run("itertool.JSON", func() (any, error) {
			stream := ""
			if len(cur) > 0 {
				stream = strings.Join(cur, "\n") + "\n"
			}
			it := itertool.JSON[T](bytes.NewBufferString(stream))
			out, err := it.Slice(ctx)
			if out == nil {
				out = []T{}
			}
			return out, err
		})
		run("dt.List.UnmarshalJSON", func() (any, error) {
			l := &dt.List[T]{}
			if err := l.UnmarshalJSON([]byte(doc)); err != nil {
				return nil, err
			}
			out, err := l.Iterator().Slice(ctx)
			if out == nil {
				out = []T{}
			}
			return out, err
		})
		run("dt.Slice.Iterator", func() (any, error) {
			var s dt.Slice[T]
			if err := json.Unmarshal([]byte(doc), &s); err != nil {
				return nil, err
			}
			out, err := s.Iterator().Slice(ctx)
			if out == nil {
				out = []T{}
			}
			return out, err
		})
		if len(cur) == maxLen {
			return
		}
		for _, l := range lits {
			rec(append(append([]string{}, cur...), l))
		}
	}
	rec(nil)
}

// RunTyped is the typed JSON phase of C02.
func RunTyped(r *rep.Report, tier string) {
	maxLen := 3
	if tier == "thorough" {
		maxLen = 4
	}
	st := &typedStats{}
	typedJSON[typedStruct](r, st, "struct", []string{
		`{"a":1,"b":"x","c":[1,2],"d":{"k":1},"e":5}`, `{"a":2}`, `{}`, `{"c":[9],"d":{"j":2}}`, `{"b":"y","e":6}`}, maxLen)
	typedJSON[[]int](r, st, "[]int", []string{`[1,2,3]`, `[4]`, `[]`, `null`, `[5,6]`}, maxLen)
	typedJSON[map[string]int](r, st, "map[string]int", []string{`{"a":1,"b":2}`, `{"c":3}`, `{}`, `null`}, maxLen)
	typedJSON[*int](r, st, "*int", []string{`1`, `2`, `null`}, maxLen)
	typedJSON[*typedStruct](r, st, "*struct", []string{`{"a":1,"b":"x"}`, `{"b":"y"}`, `null`, `{}`}, maxLen)
	typedJSON[string](r, st, "string", []string{`"a"`, `""`, `"b"`}, maxLen)
	typedJSON[[2]int](r, st, "[2]int", []string{`[1,2]`, `[3]`, `[]`}, maxLen)
	typedJSON[any](r, st, "any", []string{`1`, `"s"`, `{"a":[1]}`, `null`}, maxLen)
	r.Add("states", st.docs)
	r.Add("transitions", st.cases)
	r.Add("traces_validated_against_impl", st.cases)
	r.Add("evaluations", st.cases)
	r.Add("distinct_nontrivial", st.nontrivial)
	r.Set("typed_json", map[string]any{"documents": st.docs, "cases": st.cases, "max_elements": maxLen,
		"element_types": []string{"struct", "[]int", "map[string]int", "*int", "*struct", "string", "[2]int", "any"},
		"entry_points": []string{"Iterator.UnmarshalJSON", "Iterator.UnmarshalJSON+Filter+MarshalJSON", "SliceIterator.MarshalJSON", "itertool.JSON", "dt.List.UnmarshalJSON", "dt.Slice.Iterator"}})
	r.Sample(map[string]any{"element_type": "struct", "document": `[{"a":1,"b":"x","c":[1,2],"d":{"k":1},"e":5},{"a":2},{}]`, "entry": "Iterator.UnmarshalJSON", "oracle": "encoding/json into a fresh []T"})
	if prev, ok := r.Coverage["rule"].(string); ok {
		r.Set("rule", prev+" || typed JSON: every array of <= max_elements element literals per element type through every JSON entry point, compared with encoding/json decoding into a fresh slice (decode-target reuse, aliasing between yielded elements)")
	}
}
