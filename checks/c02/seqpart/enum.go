package seqpart

// Enumeration of the bounded program space. Every family is a full cross
// product (nothing sampled); the families partition the space by shape so
// that the expensive dimensions (all sources, all sinks, long inputs, deep
// chains, two injections) are not all multiplied together.

type bounds struct {
	tier        string
	lenSingle   int // input length for single-input programs
	lenPair     int // operand length for two-operand programs of depth <= 2
	lenPairDeep int // operand length for two-operand programs of depth 3 (0 = none)
	lenTriple   int // operand length for three-operand programs
	chainDepth  int // longest unary chain
	deepLen     int // input length for chains of length chainDepth when chainDepth == 3
	maxInj      int // injected events per case
	twoInjLen   int // two injections only while the total input length is <= this
}

func boundsFor(tier string) bounds {
	if tier == "thorough" {
		return bounds{tier: tier, lenSingle: 4, lenPair: 3, lenPairDeep: 2, lenTriple: 1, chainDepth: 3, deepLen: 4, maxInj: 2, twoInjLen: 4}
	}
	return bounds{tier: tier, lenSingle: 3, lenPair: 2, lenPairDeep: 0, lenTriple: 1, chainDepth: 2, deepLen: 0, maxInj: 1, twoInjLen: 0}
}

func (b bounds) inj(totalLen int) int {
	if b.maxInj >= 2 && totalLen > b.twoInjLen {
		return 1
	}
	return b.maxInj
}

type work struct {
	p      *program
	maxInj int
	family string
}

func apply(u unaryVariant, kid *node) *node { return un(u.k, u.arg, kid) }

// enumerate calls emit for every program of the tier, smallest shapes first.
// emit returns false to stop (deadline).
func enumerate(b bounds, emit func(work) bool) {
	us := unaryVariants()
	single := inputs(b.lenSingle)
	ok := true
	out := func(family string, root *node, sink sinkSpec, totalLen int) {
		if ok {
			ok = emit(work{p: finish(root, sink), maxInj: b.inj(totalLen), family: family})
		}
	}

	// A: every source x (no operator | one operator) x every sink x every input
	for _, in := range single {
		for _, s := range allSources {
			for _, k := range allSinks {
				out("A:source-sink", src(s, in), k, len(in))
			}
		}
	}
	for _, in := range single {
		for _, s := range allSources {
			for _, u := range us {
				for _, k := range allSinks {
					if !ok {
						return
					}
					out("A:source-op-sink", apply(u, src(s, in)), k, len(in))
				}
			}
		}
	}

	pairs := func(maxLen int) [][2][]int {
		ins := inputs(maxLen)
		var o [][2][]int
		for _, a := range ins {
			for _, c := range ins {
				o = append(o, [2][]int{a, c})
			}
		}
		return o
	}
	tr := inputs(b.lenTriple)
	var triples [][3][]int
	for _, a := range tr {
		for _, c := range tr {
			for _, d := range tr {
				triples = append(triples, [3][]int{a, c, d})
			}
		}
	}

	// C1: MergeSlices / MergeSliceIterators (flatten) x (no operator | one operator) x every sink
	for _, ms := range []opKind{srcMergeSlices, srcMergeSliceIters} {
		for _, pr := range pairs(b.lenPair) {
			tl := len(pr[0]) + len(pr[1])
			for _, k := range allSinks {
				out("C1:merge", msrc(ms, pr[0], pr[1]), k, tl)
				for _, u := range us {
					if !ok {
						return
					}
					out("C1:merge-op", apply(u, msrc(ms, pr[0], pr[1])), k, tl)
				}
			}
		}
		for _, t := range triples {
			for _, k := range allSinks {
				out("C1:merge3", msrc(ms, t[0], t[1], t[2]), k, len(t[0])+len(t[1])+len(t[2]))
			}
		}
		out("C1:merge0", msrc(ms), sinkSpec{sinkSlice, 0}, 0)
		out("C1:merge1", msrc(ms, []int{1, 0}), sinkSpec{sinkSlice, 0}, 2)
	}

	// C2: Join / Chain, depth <= 2
	for _, nk := range []opKind{nJoin, nChain} {
		for _, pr := range pairs(b.lenPair) {
			tl := len(pr[0]) + len(pr[1])
			for _, s1 := range coreSources {
				for _, s2 := range coreSources {
					for _, k := range allSinks {
						if !ok {
							return
						}
						out("C2:nary", nary(nk, src(s1, pr[0]), src(s2, pr[1])), k, tl)
					}
				}
			}
			for _, u := range us {
				for _, k := range coreSinks {
					if !ok {
						return
					}
					out("C2:nary(op,_)", nary(nk, apply(u, src(srcSlice, pr[0])), src(srcSlice, pr[1])), k, tl)
					out("C2:nary(_,op)", nary(nk, src(srcSlice, pr[0]), apply(u, src(srcSlice, pr[1]))), k, tl)
					out("C2:op(nary)", apply(u, nary(nk, src(srcSlice, pr[0]), src(srcSlice, pr[1]))), k, tl)
				}
			}
		}
		for _, t := range triples {
			for _, k := range coreSinks {
				tl := len(t[0]) + len(t[1]) + len(t[2])
				out("C2:nary3", nary(nk, src(srcSlice, t[0]), src(srcSlice, t[1]), src(srcSlice, t[2])), k, tl)
				for _, nk2 := range []opKind{nJoin, nChain} {
					out("C2:nested", nary(nk, nary(nk2, src(srcSlice, t[0]), src(srcSlice, t[1])), src(srcSlice, t[2])), k, tl)
					out("C2:nested", nary(nk, src(srcSlice, t[0]), nary(nk2, src(srcSlice, t[1]), src(srcSlice, t[2]))), k, tl)
				}
			}
		}
	}

	// B: unary chains of length 2..chainDepth over the core sources and sinks
	for depth := 2; depth <= b.chainDepth; depth++ {
		ins := single
		if depth == 3 {
			ins = inputs(b.deepLen)
		}
		idx := make([]int, depth)
		for {
			for _, in := range ins {
				for _, s := range coreSources {
					for _, k := range coreSinks {
						if !ok {
							return
						}
						n := src(s, in)
						for _, i := range idx {
							n = apply(us[i], n)
						}
						mi := len(in)
						if depth == 3 {
							mi = 1 << 20 // single injection only
						}
						out("B:chain", n, k, mi)
					}
				}
			}
			// next chain
			j := depth - 1
			for ; j >= 0; j-- {
				idx[j]++
				if idx[j] < len(us) {
					break
				}
				idx[j] = 0
			}
			if j < 0 {
				break
			}
		}
	}

	// C3 (thorough): Join / Chain programs of depth 3
	if b.lenPairDeep > 0 {
		for _, nk := range []opKind{nJoin, nChain} {
			for _, pr := range pairs(b.lenPairDeep) {
				a, c := pr[0], pr[1]
				for _, u1 := range us {
					for _, u2 := range us {
						for _, k := range coreSinks {
							if !ok {
								return
							}
							S := func(in []int) *node { return src(srcSlice, in) }
							big := 1 << 20
							out("C3:nary(op.op,_)", nary(nk, apply(u2, apply(u1, S(a))), S(c)), k, big)
							out("C3:nary(_,op.op)", nary(nk, S(a), apply(u2, apply(u1, S(c)))), k, big)
							out("C3:nary(op,op)", nary(nk, apply(u1, S(a)), apply(u2, S(c))), k, big)
							out("C3:op(nary(op,_))", apply(u2, nary(nk, apply(u1, S(a)), S(c))), k, big)
							out("C3:op(nary(_,op))", apply(u2, nary(nk, S(a), apply(u1, S(c)))), k, big)
							out("C3:op.op(nary)", apply(u2, apply(u1, nary(nk, S(a), S(c)))), k, big)
						}
					}
				}
			}
		}
	}
}

// forEachInjection enumerates the injection sets of one program: none; every
// (function, call, event) single; and, if allowed, every pair. Call positions
// come from the evaluator under the most permissive reading (allContinue), a
// superset of the calls any reading can make.
func forEachInjection(p *program, maxInj int, fn func([]inj) bool) bool {
	if !fn(nil) {
		return false
	}
	if maxInj < 1 || p.nfn == 0 {
		return true
	}
	e0 := newEvalEnv(p, nil, allContinue)
	evalProgram(p, e0)
	for f := 0; f < p.nfn; f++ {
		for c := 0; c < e0.calls[f]; c++ {
			for ev := evSkip; ev <= evEOF; ev++ {
				first := inj{f, c, ev}
				if !fn([]inj{first}) {
					return false
				}
				if maxInj < 2 {
					continue
				}
				e1 := newEvalEnv(p, []inj{first}, allContinue)
				evalProgram(p, e1)
				for f2 := f; f2 < p.nfn; f2++ {
					c2 := 0
					if f2 == f {
						c2 = c + 1
					}
					for ; c2 < e1.calls[f2]; c2++ {
						for ev2 := evSkip; ev2 <= evEOF; ev2++ {
							if !fn([]inj{first, {f2, c2, ev2}}) {
								return false
							}
						}
					}
				}
			}
		}
	}
	return true
}
