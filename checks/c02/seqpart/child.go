package seqpart

import (
	"bufio"
	"encoding/json"
	"fmt"
	"os"
	"runtime/debug"
	"runtime/metrics"
	"time"
)

// Cases run in worker processes of this same binary. A pipeline runs library
// goroutines; a panic in one of those (or a runtime fatal error, or an
// allocation loop) cannot be contained by recover() in the harness, it ends
// the process. The supervisor turns the death of a worker into a violation for
// the case that was running and carries on with a new worker.

const (
	workerEnv      = "VERIF_C02_WORKER"
	childGCLimit   = 192 << 20 // collect when this much has accumulated (live heap is tiny)
	childHeapAbort = 3 << 30   // live heap beyond this: an allocation loop
)

func IsWorker() bool { return os.Getenv(workerEnv) == "1" }

func newChecker() *checker {
	return &checker{best: map[string]*finding{}, sigCount: map[string]int{}, notes: map[string]int{}, parked: make(chan struct{}, maxParked)}
}

// drain moves everything accumulated since the last response into resp.
func (c *checker) drain(resp *response) {
	resp.Cases = c.cases.Swap(0)
	resp.Transitions = c.transitions.Swap(0)
	resp.Nontrivial = c.nontrivial.Swap(0)
	resp.Injected = c.injected.Swap(0)
	resp.Parked = c.parkedEver.Swap(0)
	resp.Hangs = c.hangs.Swap(0)
	resp.Untriaged = c.untriaged.Swap(0)
	c.mu.Lock()
	defer c.mu.Unlock()
	if len(c.notes) > 0 {
		resp.Notes, c.notes = c.notes, map[string]int{}
	}
	if len(c.sigCount) > 0 {
		resp.SigCounts, c.sigCount = c.sigCount, map[string]int{}
	}
	for _, f := range c.outbox {
		resp.Findings = append(resp.Findings, wireFinding{Sig: f.sig, Weight: f.weight, Order: f.order, Replay: f.replay})
	}
	c.outbox = nil
}

func WorkerMain() {
	debug.SetGCPercent(-1)
	debug.SetMemoryLimit(childGCLimit)
	go func() {
		sample := []metrics.Sample{{Name: "/memory/classes/heap/objects:bytes"}}
		for {
			time.Sleep(20 * time.Millisecond)
			metrics.Read(sample)
			if sample[0].Value.Kind() == metrics.KindUint64 && sample[0].Value.Uint64() > childHeapAbort {
				_, _ = os.Stdout.Write([]byte("\n!memory: live heap grew past 3GiB (unbounded allocation)\n"))
				os.Exit(3)
			}
		}
	}()
	c := newChecker()
	in := bufio.NewScanner(os.Stdin)
	in.Buffer(make([]byte, 1<<20), 1<<24)
	out := bufio.NewWriterSize(os.Stdout, 1<<16)
	for in.Scan() {
		var rq request
		if err := json.Unmarshal(in.Bytes(), &rq); err != nil {
			fmt.Fprintln(os.Stderr, "bad request:", err)
			os.Exit(2)
		}
		resp := response{ID: rq.ID}
		switch {
		case rq.Flush:
			c.wg.Wait()
		case rq.Probe:
			p := rq.program()
			injs := injsFromWire(rq.Only)
			o, ok := runBlocking(p, injs)
			resp.ProbeClass = assess(p, injs, o, !ok).class
		default:
			p := rq.program()
			c.blocking = rq.Trace
			n := int64(0)
			run := func(injs []inj) bool {
				n++
				if n <= rq.Skip {
					return true
				}
				if rq.Trace {
					fmt.Fprintf(out, "@%d\n", n)
					out.Flush()
				}
				c.runCase(p, injs, rq.Order+n)
				return true
			}
			if rq.UseOnly {
				run(injsFromWire(rq.Only))
			} else {
				forEachInjection(p, rq.MaxInj, run)
			}
		}
		c.drain(&resp)
		body, _ := json.Marshal(resp)
		out.Write(body)
		out.WriteByte('\n')
		out.Flush()
	}
}
