package seqpart

import (
	"bufio"
	"bytes"
	"encoding/json"
	"errors"
	"fmt"
	"io"
	"os"
	"os/exec"
	"runtime"
	"sort"
	"strconv"
	"strings"
	"sync"
	"sync/atomic"
	"time"

	"verif/rep"
)

const (
	maxCrashTriage  = 24 // worker deaths analysed down to the case and the operator
	crashesPerTag   = 3  // after this many, programs containing that operator are skipped (and counted)
	crashesPerProg  = 4
	requestBackstop = 5 * time.Minute
	childGOMAXPROCS = "4"
	stderrKeep      = 4000
)

// ---------------------------------------------------------------- worker process handle

type headBuffer struct {
	mu  sync.Mutex
	buf bytes.Buffer
}

func (h *headBuffer) Write(p []byte) (int, error) {
	h.mu.Lock()
	defer h.mu.Unlock()
	if room := stderrKeep - h.buf.Len(); room > 0 {
		if len(p) < room {
			room = len(p)
		}
		h.buf.Write(p[:room])
	}
	return len(p), nil
}

func (h *headBuffer) String() string {
	h.mu.Lock()
	defer h.mu.Unlock()
	return h.buf.String()
}

type child struct {
	cmd    *exec.Cmd
	stdin  io.WriteCloser
	rd     *bufio.Reader
	stderr *headBuffer
}

var errWorkerDied = errors.New("worker process died")

func spawn(exe string) (*child, error) {
	cmd := exec.Command(exe)
	cmd.Env = append(os.Environ(), workerEnv+"=1", "GOMAXPROCS="+childProcs())
	c := &child{cmd: cmd, stderr: &headBuffer{}}
	cmd.Stderr = c.stderr
	var err error
	if c.stdin, err = cmd.StdinPipe(); err != nil {
		return nil, err
	}
	so, err := cmd.StdoutPipe()
	if err != nil {
		return nil, err
	}
	c.rd = bufio.NewReaderSize(so, 1<<16)
	return c, cmd.Start()
}

func (c *child) stop() {
	_ = c.stdin.Close()
	_ = c.cmd.Process.Kill()
	_ = c.cmd.Wait()
}

// do sends one request and reads its response. died != "" describes why the
// worker is gone (it has been reaped).
func (c *child) do(rq request, onTrace func(int64)) (resp response, died string) {
	body, _ := json.Marshal(rq)
	backstop := time.AfterFunc(requestBackstop, func() { _ = c.cmd.Process.Kill() })
	defer backstop.Stop()
	if _, err := c.stdin.Write(append(body, '\n')); err != nil {
		c.stop()
		return resp, "worker process died: " + c.stderr.String()
	}
	for {
		line, err := c.rd.ReadString('\n')
		if err != nil {
			c.stop()
			return resp, "worker process died: " + c.stderr.String()
		}
		switch {
		case line == "\n":
			continue
		case line[0] == '@':
			if n, perr := strconv.ParseInt(strings.TrimSpace(line[1:]), 10, 64); perr == nil && onTrace != nil {
				onTrace(n)
			}
			continue
		case line[0] == '!':
			c.stop()
			return resp, strings.TrimSpace(line[1:])
		}
		if err := json.Unmarshal([]byte(line), &resp); err != nil {
			c.stop()
			return resp, "worker sent an unparsable line " + strconv.Quote(line) + "; stderr: " + c.stderr.String()
		}
		return resp, ""
	}
}

// ---------------------------------------------------------------- supervisor

type super struct {
	exe      string
	deadline time.Time
	timedOut atomic.Bool

	mu        sync.Mutex
	best      map[string]*wireFinding
	sigCount  map[string]int
	notes     map[string]int
	crashTags map[string]int
	tot       response

	programs, skippedBlocked, crashes, deathsNotRepeated, crashesUntriaged, abandoned, spawnErrors, spawns atomic.Int64
	order                                                                                                  atomic.Int64
}

func (s *super) merge(r response) {
	s.mu.Lock()
	defer s.mu.Unlock()
	s.tot.Cases += r.Cases
	s.tot.Transitions += r.Transitions
	s.tot.Nontrivial += r.Nontrivial
	s.tot.Injected += r.Injected
	s.tot.Parked += r.Parked
	s.tot.Hangs += r.Hangs
	s.tot.Untriaged += r.Untriaged
	for k, v := range r.Notes {
		s.notes[k] += v
	}
	for k, v := range r.SigCounts {
		s.sigCount[k] += v
	}
	for i := range r.Findings {
		s.offer(&r.Findings[i])
	}
}

// offer: keep the smallest reproducer per signature (caller holds s.mu).
func (s *super) offer(f *wireFinding) {
	if b := s.best[f.Sig]; b == nil || f.Weight < b.Weight || (f.Weight == b.Weight && f.Order < b.Order) {
		s.best[f.Sig] = f
	}
}

func (s *super) newChild() *child {
	c, err := spawn(s.exe)
	if err != nil {
		s.spawnErrors.Add(1)
		return nil
	}
	s.spawns.Add(1)
	return c
}

func tagBase(tag string) string { b, _, _ := strings.Cut(tag, "+"); return b }

func (s *super) blocked(n *node) bool {
	s.mu.Lock()
	hit := s.crashTags[opNames[n.k]] >= crashesPerTag
	s.mu.Unlock()
	if hit {
		return true
	}
	for _, k := range n.kids {
		if s.blocked(k) {
			return true
		}
	}
	return false
}

func (s *super) finish(c *child) {
	if c == nil {
		return
	}
	if resp, died := c.do(request{Flush: true}, nil); died == "" {
		s.merge(resp)
		c.stop()
	}
}

func (s *super) worker(queue <-chan work) {
	var ch *child
	defer func() { s.finish(ch) }()
	for wk := range queue {
		if s.timedOut.Load() {
			continue
		}
		if time.Now().After(s.deadline) {
			s.timedOut.Store(true)
			continue
		}
		if s.blocked(wk.p.root) {
			s.skippedBlocked.Add(1)
			continue
		}
		if ch == nil {
			if ch = s.newChild(); ch == nil {
				continue
			}
		}
		s.programs.Add(1)
		rq := makeRequest(wk.p)
		rq.MaxInj = wk.maxInj
		rq.Order = s.order.Add(1) << 20
		resp, died := ch.do(rq, nil)
		if died != "" {
			ch = nil
			s.crashed(wk, rq, died)
			continue
		}
		s.merge(resp)
		if resp.Hangs > 0 {
			// a stuck case may be spinning: retire this process
			s.finish(ch)
			ch = nil
		}
	}
}

func nthInjection(p *program, maxInj int, n int64) (out []inj) {
	i := int64(0)
	forEachInjection(p, maxInj, func(injs []inj) bool {
		i++
		if i == n {
			out = append([]inj{}, injs...)
			return false
		}
		return true
	})
	return out
}

// probe runs one case in a throw-away worker: class of failure, or died.
func (s *super) probe(p *program, injs []inj) (class string, died string) {
	c := s.newChild()
	if c == nil {
		return "", ""
	}
	rq := makeRequest(p)
	rq.Probe, rq.UseOnly, rq.Only = true, true, injsToWire(injs)
	resp, died := c.do(rq, nil)
	if died == "" {
		c.stop()
	}
	return resp.ProbeClass, died
}

func (s *super) blameCrash(p *program, injs []inj) string {
	subs := p.root.subtrees()
	for _, sub := range subs[:len(subs)-1] {
		if _, died := s.probe(subProgram(p, sub, p.sink), injs); died != "" {
			return opNames[sub.k]
		}
	}
	tag := opNames[p.root.k]
	if p.sink.k != sinkSlice {
		if _, died := s.probe(subProgram(p, p.root, sinkSpec{sinkSlice, 0}), injs); died == "" {
			tag += "+" + p.sink.name()
		}
	}
	return tag
}

// crashed: the worker died while running wk. Find the case (trace mode),
// the operator (probes), record, and run the rest of the program's cases.
func (s *super) crashed(wk work, rq request, died string) {
	s.crashes.Add(1)
	if s.crashes.Load() > maxCrashTriage {
		s.crashesUntriaged.Add(1)
		return
	}
	skip := int64(0)
	for attempt := 0; attempt < crashesPerProg; attempt++ {
		t := s.newChild()
		if t == nil {
			break
		}
		rq2 := rq
		rq2.Trace, rq2.Skip = true, skip
		last := int64(0)
		resp, died2 := t.do(rq2, func(n int64) { last = n })
		if died2 == "" {
			s.merge(resp)
			s.finish(t)
			if attempt == 0 {
				// Did not die a second time. A Go panic / fatal error message is
				// evidence of a library crash and is reported at program level;
				// a silent death (killed from outside, e.g. OOM killer) is not.
				if strings.Contains(died, "panic:") || strings.Contains(died, "fatal error:") {
					s.recordCrash(opNames[wk.p.root.k], wk.p, nil, rq.Order, died, "the worker died while this program's cases were running; a second, traced run of the same cases completed")
				} else {
					s.deathsNotRepeated.Add(1)
				}
			}
			return
		}
		injs := nthInjection(wk.p, wk.maxInj, last)
		tag := s.blameCrash(wk.p, injs)
		s.recordCrash(tag, wk.p, injs, rq.Order+last, died2, "")
		skip = last
	}
	s.abandoned.Add(1)
}

func (s *super) recordCrash(tag string, p *program, injs []inj, order int64, died, note string) {
	class := "panic"
	if strings.HasPrefix(died, "memory:") {
		class = "hang"
	}
	f := &wireFinding{Sig: "pipeline/" + class + "/" + tag, Weight: p.root.size()*4 + len(injs), Order: order, Replay: map[string]any{
		"program":    p.String(),
		"injections": injStrings(injs),
		"expected":   evalProgram(p, newEvalEnv(p, injs, strict)).String(),
		"got":        died,
		"note":       note,
	}}
	s.mu.Lock()
	defer s.mu.Unlock()
	s.sigCount[f.Sig]++
	s.crashTags[tagBase(tag)]++
	s.offer(f)
}

func Run(r *rep.Report, tier string) {
	b := boundsFor(tier)
	budget := 40 * time.Second // plus up to 10s to drain parked cases
	if tier == "thorough" {
		budget = 8*time.Minute + 30*time.Second
	}
	exe, err := os.Executable()
	if err != nil {
		r.Set("exhaustive", false)
		r.Set("error", err.Error())
		return
	}
	s := &super{exe: exe, deadline: time.Now().Add(budget), best: map[string]*wireFinding{}, sigCount: map[string]int{},
		notes: map[string]int{}, crashTags: map[string]int{}}
	workers := 2 * runtime.NumCPU() // cases are latency bound (goroutine hand-offs), not CPU bound
	if n, err := strconv.Atoi(os.Getenv("VERIF_C02_WORKERS")); err == nil && n > 0 {
		workers = n
	}
	queue := make(chan work, 4096)
	var wg sync.WaitGroup
	for w := 0; w < workers; w++ {
		wg.Add(1)
		go func() { defer wg.Done(); s.worker(queue) }()
	}
	fam := map[string]int{}
	enumerate(b, func(w work) bool {
		if s.timedOut.Load() || time.Now().After(s.deadline) {
			s.timedOut.Store(true)
			return false
		}
		fam[w.family]++
		queue <- w
		return true
	})
	close(queue)
	wg.Wait()

	sigs := make([]string, 0, len(s.best))
	for sig := range s.best {
		sigs = append(sigs, sig)
	}
	sort.Strings(sigs)
	counts := map[string]int{}
	for _, sig := range sigs {
		f := s.best[sig]
		f.Replay["cases_with_this_signature"] = s.sigCount[sig]
		counts[sig] = s.sigCount[sig]
		r.Violation(sig, f.Replay)
	}

	cases := int(s.tot.Cases)
	r.Add("states", cases)
	r.Add("transitions", int(s.tot.Transitions))
	r.Add("traces_validated_against_impl", cases)
	r.Add("evaluations", cases)
	r.Add("distinct_nontrivial", int(s.tot.Nontrivial))
	r.Set("programs_x_inputs", int(s.programs.Load()))
	r.Set("cases_with_injection", int(s.tot.Injected))
	r.Set("programs_per_family", fam)
	r.Set("cases_per_signature", counts)
	r.Set("undecided_by_statement", s.notes)
	r.Set("cases_slower_than_100ms", int(s.tot.Parked))
	r.Set("hangs", int(s.tot.Hangs))
	r.Set("hangs_not_triaged", int(s.tot.Untriaged))
	r.Set("worker_processes", map[string]any{"started": int(s.spawns.Load()), "died": int(s.crashes.Load()), "deaths_not_triaged": int(s.crashesUntriaged.Load()),
		"silent_deaths_not_repeated_by_a_second_run": int(s.deathsNotRepeated.Load()),
		"programs_abandoned_after_repeated_death":    int(s.abandoned.Load()), "programs_skipped_operator_keeps_killing_workers": int(s.skippedBlocked.Load()),
		"start_errors": int(s.spawnErrors.Load())})
	r.Set("bounds", map[string]any{"values": []int{0, 1, 2}, "input_len": b.lenSingle, "operand_len_two_operands": b.lenPair,
		"operand_len_two_operands_depth3": b.lenPairDeep, "operand_len_three_operands": b.lenTriple, "operators": b.chainDepth,
		"depth3_chain_input_len": b.deepLen, "injections": b.maxInj, "two_injections_up_to_total_len": b.twoInjLen})
	r.Set("exhaustive", !s.timedOut.Load() && s.tot.Untriaged == 0 && s.crashesUntriaged.Load() == 0 && s.abandoned.Load() == 0 &&
		s.skippedBlocked.Load() == 0 && s.spawnErrors.Load() == 0)
	r.Sample("SliceIterator([1 0 1]).Uniq.Transform#f0(x+1) => Slice with f0@call1=ErrIteratorSkip: expected [2]")
	r.Sample("Join(SliceIterator([1]).Transform#f0(x), SliceIterator([2])) => ReadOneLoop with f0@call0=error: expected [] and two further ReadOne calls yield nothing")
	r.Set("rule", "full cross products, no sampling: A every source x (<=1 operator) x every sink x every input; B core sources {Slice,Generator,closed channel} x every operator chain of length 2.."+
		fmt.Sprint(b.chainDepth)+" x sinks {Slice, ReadOne loop + 2 extra calls}; C MergeSlices/MergeSliceIterators and Join/Chain over every operand pair (+ three-operand and nested forms); "+
		"x every single"+map[bool]string{true: " and every pair of", false: ""}[b.maxInj >= 2]+" injected {ErrIteratorSkip, plain error, io.EOF} at every call position of every user function "+
		"(generator producer, Transform function, Reduce reducer, Process processor). Oracle: pure evaluator over slices, truncation at the first non-skip error, skip removes exactly that element, nothing after an error. "+
		"Each case runs on the real runtime in a supervised worker process under a cancelable context and a "+hangTimeout.String()+" watchdog; a worker that dies (panic in a library goroutine, runtime fatal error, allocation loop) is a violation for the case it was running")
}

func childProcs() string {
	if v := os.Getenv("VERIF_C02_CHILD_PROCS"); v != "" {
		return v
	}
	return childGOMAXPROCS
}
