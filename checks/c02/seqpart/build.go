package seqpart

import (
	"context"
	"encoding/json"
	"errors"
	"fmt"
	"io"
	"sync/atomic"

	"github.com/tychoish/fun"
	"github.com/tychoish/fun/dt"
	"github.com/tychoish/fun/itertool"
	"github.com/tychoish/fun/risky"
)

var errInjected = errors.New("injected user error")

const poison = -99 // value returned next to an injected error; must never be seen downstream

// runEnv: one execution of one program under one injection set.
type runEnv struct {
	ctx   context.Context
	injs  []inj
	calls []atomic.Int32 // user functions may be called from library goroutines
}

// fire counts a call of user function fid and returns the error to inject.
func (e *runEnv) fire(fid int) error {
	call := int(e.calls[fid].Add(1)) - 1
	switch lookup(e.injs, fid, call) {
	case evSkip:
		return fun.ErrIteratorSkip
	case evErr:
		return errInjected
	case evEOF:
		return io.EOF
	}
	return nil
}

func closedChan(in []int) chan int {
	ch := make(chan int, len(in))
	for _, v := range in {
		ch <- v
	}
	close(ch)
	return ch
}

func cp(in []int) []int { return append([]int{}, in...) }

// adjacent lays the operand slices out the way batches cut from one array can
// be: sub-slices of a single backing array. The first operand sits at the
// start (so all the others live in its spare capacity), followed by the
// remaining operands in reverse order. A flatten must only
// read its inputs; one that appends into the first operand's spare capacity
// overwrites later operands before it has copied them.
func adjacent(ins [][]int) [][]int {
	if len(ins) == 0 {
		return nil
	}
	total := 0
	for _, in := range ins {
		total += len(in)
	}
	base := make([]int, total)
	out := make([][]int, len(ins))
	copy(base, ins[0])
	out[0] = base[0:len(ins[0])]
	off := len(ins[0])
	for i := len(ins) - 1; i >= 1; i-- {
		copy(base[off:], ins[i])
		out[i] = base[off : off+len(ins[i]) : off+len(ins[i])]
		off += len(ins[i])
	}
	return out
}

func build(n *node, e *runEnv) *fun.Iterator[int] {
	switch n.k {
	case srcSlice:
		return fun.SliceIterator(cp(n.in))
	case srcVariadic:
		return fun.VariadicIterator(cp(n.in)...)
	case srcChan:
		return fun.ChannelIterator[int](closedChan(n.in))
	case srcBlockingChan:
		return fun.Blocking(closedChan(n.in)).Iterator()
	case srcGenerator:
		in, cursor, fid := cp(n.in), 0, n.fid
		return fun.Generator(func(context.Context) (int, error) {
			if err := e.fire(fid); err != nil {
				if errors.Is(err, fun.ErrIteratorSkip) && cursor < len(in) {
					cursor++ // the skipped call would have produced this element
				}
				return poison, err
			}
			if cursor >= len(in) {
				return poison, io.EOF
			}
			cursor++
			return in[cursor-1], nil
		})
	case srcCheckProducer:
		in, cursor := cp(n.in), 0
		return fun.CheckProducer(func() (int, bool) {
			if cursor >= len(in) {
				return poison, false
			}
			cursor++
			return in[cursor-1], true
		}).Iterator()
	case srcList, srcListPop:
		l := &dt.List[int]{}
		for _, v := range n.in {
			l.PushBack(v)
		}
		if n.k == srcListPop {
			return l.PopIterator()
		}
		return l.Iterator()
	case srcStack, srcStackPop:
		// a stack iterates from its head: push in reverse so that the
		// iteration order (the "input slice" of this source) is n.in
		s := &dt.Stack[int]{}
		for i := len(n.in) - 1; i >= 0; i-- {
			s.Push(n.in[i])
		}
		if n.k == srcStackPop {
			return s.PopIterator()
		}
		return s.Iterator()
	case srcDtSlice:
		return dt.NewSlice(cp(n.in)).Iterator()
	case srcUnmarshal:
		data, _ := json.Marshal(cp(n.in))
		it := fun.SliceIterator([]int{})
		if err := it.UnmarshalJSON(data); err != nil {
			panic(fmt.Sprintf("UnmarshalJSON(%s): %v", data, err))
		}
		return it
	case srcMergeSlices:
		return itertool.MergeSlices(adjacent(n.ins)...)
	case srcMergeSliceIters:
		return itertool.MergeSliceIterators(fun.SliceIterator(adjacent(n.ins)))
	case nJoin:
		rest := make([]*fun.Iterator[int], 0, len(n.kids)-1)
		first := build(n.kids[0], e)
		for _, k := range n.kids[1:] {
			rest = append(rest, build(k, e))
		}
		return first.Join(rest...)
	case nChain:
		its := make([]*fun.Iterator[int], 0, len(n.kids))
		for _, k := range n.kids {
			its = append(its, build(k, e))
		}
		return itertool.Chain(its...)
	}
	kid := build(n.kids[0], e)
	switch n.k {
	case uFilter:
		return kid.Filter(preds[n.arg])
	case uTransform:
		m, fid := maps[n.arg], n.fid
		t := fun.Transform[int, int](func(_ context.Context, x int) (int, error) {
			if err := e.fire(fid); err != nil {
				return poison, err
			}
			return m(x), nil
		})
		if n.arg%2 == 1 {
			return fun.ConvertIterator(kid, t)
		}
		return kid.Transform(t)
	case uBuffer:
		return kid.Buffer(n.arg)
	case uSplit1:
		return kid.Split(1)[0]
	case uChannel:
		return fun.ChannelIterator(kid.Channel(e.ctx))
	case uBufChannel:
		return fun.ChannelIterator(kid.BufferedChannel(e.ctx, n.arg))
	case uUniq:
		return itertool.Uniq(kid)
	case uDropZero:
		return itertool.DropZeroValues(kid)
	case uIndexed:
		return fun.ConvertIterator(itertool.Indexed(kid), fun.Converter(func(p dt.Pair[int, int]) int { return indexedValue(p.Key, p.Value) }))
	case uJSON:
		data, err := kid.MarshalJSON()
		if err != nil {
			panic(fmt.Sprintf("MarshalJSON: %v", err))
		}
		it := fun.SliceIterator([]int{})
		if err := it.UnmarshalJSON(data); err != nil {
			panic(fmt.Sprintf("UnmarshalJSON(%s): %v", data, err))
		}
		return it
	case uViaList:
		return risky.List(kid).Iterator()
	case uViaSlice:
		return dt.NewSlice(risky.Slice(kid)).Iterator()
	}
	panic("unknown node kind")
}

const readOneLimit = 256

type outcome struct {
	obs        observation
	extraYield []int  // values produced by ReadOne after it had returned an error
	runaway    bool   // ReadOne loop did not end within readOneLimit elements
	firstErr   string // ReadOne loop: the first error
	sinkErr    string // error value returned by the sink (informational)
	closeErr   string // iter.Close() after the sink (informational)
	panicked   string
}

func errStr(err error) string {
	if err == nil {
		return ""
	}
	return err.Error()
}

// execute builds and drains the pipeline. Runs on its own goroutine under the
// watchdog; everything it blocks on is released by cancelling e.ctx.
func execute(p *program, e *runEnv) (out outcome) {
	defer func() {
		if r := recover(); r != nil {
			out.panicked = fmt.Sprint(r)
		}
	}()
	it := build(p.root, e)
	ctx := e.ctx
	switch p.sink.k {
	case sinkSlice:
		s, err := it.Slice(ctx)
		out.obs = observation{kind: "seq", seq: append([]int{}, s...)}
		out.sinkErr = errStr(err)
	case sinkReadOne:
		seq := []int{}
		for {
			v, err := it.ReadOne(ctx)
			if err != nil {
				out.firstErr = err.Error()
				break
			}
			seq = append(seq, v)
			if len(seq) > readOneLimit {
				out.runaway = true
				break
			}
		}
		if !out.runaway {
			for i := 0; i < 2; i++ {
				if v, err := it.ReadOne(ctx); err == nil {
					out.extraYield = append(out.extraYield, v)
				}
			}
		}
		out.obs = observation{kind: "seq", seq: seq}
	case sinkCount:
		out.obs = observation{kind: "int", val: it.Count(ctx)}
	case sinkReduce:
		fid := p.sinkFid
		v, err := it.Reduce(func(item, acc int) (int, error) {
			if err := e.fire(fid); err != nil {
				return poison, err
			}
			return foldStep(acc, item), nil
		})(ctx)
		out.obs = observation{kind: "int", val: v}
		out.sinkErr = errStr(err)
	case sinkItertoolReduce:
		fid := p.sinkFid
		v, err := itertool.Reduce(ctx, it, func(item, acc int) (int, error) {
			if err := e.fire(fid); err != nil {
				return poison, err
			}
			return foldStep(acc, item), nil
		}, reduceInitItertool)
		out.obs = observation{kind: "int", val: v}
		out.sinkErr = errStr(err)
	case sinkContains:
		out.obs = observation{kind: "bool", flag: itertool.Contains(ctx, p.sink.arg, it)}
	case sinkMarshal:
		data, err := it.MarshalJSON()
		out.sinkErr = errStr(err)
		seq := []int{}
		if err == nil {
			if uerr := json.Unmarshal(data, &seq); uerr != nil {
				out.sinkErr = fmt.Sprintf("invalid JSON %q: %v", data, uerr)
				seq = []int{poison}
			}
		}
		out.obs = observation{kind: "seq", seq: seq}
	case sinkProcess:
		fid := p.sinkFid
		seq := []int{}
		err := it.Process(func(_ context.Context, x int) error {
			if err := e.fire(fid); err != nil {
				return err
			}
			seq = append(seq, x)
			return nil
		}).Run(ctx)
		out.obs = observation{kind: "seq", seq: seq}
		out.sinkErr = errStr(err)
	}
	out.closeErr = errStr(it.Close())
	return out
}
