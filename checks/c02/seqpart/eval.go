package seqpart

import "fmt"

// The functional specification: every operator is a pure function on slices
// (filter, map, concat, identity, fold, dedupe-first, enumerate, flatten).
// The k-th call of a user function is the k-th element that reaches it. A
// skip event removes exactly that element; any other event truncates the
// sequence at that element.

type status int

const (
	stClean    status = iota
	stEOFEvent        // a Transform function returned io.EOF: the stream ends here
	stErr             // a user function returned a plain error
)

// How Join/Chain treat an operand (other than the last) that did not end
// cleanly. The statement says "truncated at the first element for which a
// user function returns a non-skip error" (strict). The two other modes only
// exist to classify what the implementation did instead.
type joinMode int

const (
	strict       joinMode = iota // truncated: nothing after the failed operand
	eofContinues                 // an operand ended by an io.EOF event is just a shorter operand
	allContinue                  // a plain error in an operand also only ends that operand
)

type evalEnv struct {
	injs  []inj
	mode  joinMode
	calls []int // per user function: calls made under lazy, fully consumed evaluation
	// set when a non-last Join/Chain operand ended with the given status
	errInEarlierOperand bool
	eofInEarlierOperand bool
}

func newEvalEnv(p *program, injs []inj, m joinMode) *evalEnv {
	return &evalEnv{injs: injs, mode: m, calls: make([]int, p.nfn)}
}

const reduceInitItertool = 5

func foldStep(acc, item int) int { return acc*31 + item + 1 }

func indexedValue(idx, v int) int { return idx*10 + v }

func evalNode(n *node, e *evalEnv) (seq []int, st status) {
	seq = []int{}
	switch {
	case n.k == srcGenerator:
		cursor, call := 0, 0
		for ; ; call++ {
			switch lookup(e.injs, n.fid, call) {
			case evSkip:
				if cursor < len(n.in) {
					cursor++
				}
				continue
			case evErr:
				e.calls[n.fid] = call + 1
				return seq, stErr
			case evEOF:
				// io.EOF is how a generator says "done": a clean, shorter input
				e.calls[n.fid] = call + 1
				return seq, stClean
			}
			if cursor == len(n.in) {
				e.calls[n.fid] = call + 1
				return seq, stClean
			}
			seq = append(seq, n.in[cursor])
			cursor++
		}
	case n.k == srcMergeSlices || n.k == srcMergeSliceIters:
		for _, s := range n.ins {
			seq = append(seq, s...)
		}
		return seq, stClean
	case n.k.isSource():
		return append(seq, n.in...), stClean
	case n.k.isNary():
		for i, k := range n.kids {
			s, kst := evalNode(k, e)
			seq = append(seq, s...)
			st = kst
			if i == len(n.kids)-1 {
				break
			}
			if kst == stErr {
				e.errInEarlierOperand = true
				if e.mode != allContinue {
					return seq, stErr
				}
			}
			if kst == stEOFEvent {
				e.eofInEarlierOperand = true
				if e.mode == strict {
					return seq, stEOFEvent
				}
			}
		}
		return seq, st
	}
	in, st := evalNode(n.kids[0], e)
	switch n.k {
	case uFilter:
		for _, x := range in {
			if preds[n.arg](x) {
				seq = append(seq, x)
			}
		}
	case uTransform:
		for i, x := range in {
			e.calls[n.fid] = i + 1
			switch lookup(e.injs, n.fid, i) {
			case evSkip:
				continue
			case evErr:
				return seq, stErr
			case evEOF:
				return seq, stEOFEvent
			}
			seq = append(seq, maps[n.arg](x))
		}
	case uUniq:
		seen := map[int]bool{}
		for _, x := range in {
			if !seen[x] {
				seen[x] = true
				seq = append(seq, x)
			}
		}
	case uDropZero:
		for _, x := range in {
			if x != 0 {
				seq = append(seq, x)
			}
		}
	case uIndexed:
		for i, x := range in {
			seq = append(seq, indexedValue(i, x))
		}
	default: // Buffer, Split(1)[0], Channel, BufferedChannel, JSON round trip, via List, via Slice: identity
		seq = append(seq, in...)
	}
	return seq, st
}

// observation is what a sink lets the caller see, in comparable form.
type observation struct {
	kind string
	seq  []int
	val  int
	flag bool
}

func (o observation) String() string {
	switch o.kind {
	case "seq":
		return fmt.Sprint(o.seq)
	case "int":
		return fmt.Sprint(o.val)
	default:
		return fmt.Sprint(o.flag)
	}
}

func (o observation) equal(p observation) bool { return o.kind == p.kind && o.String() == p.String() }

func evalProgram(p *program, e *evalEnv) observation {
	seq, _ := evalNode(p.root, e)
	switch p.sink.k {
	case sinkCount:
		return observation{kind: "int", val: len(seq)}
	case sinkContains:
		for _, x := range seq {
			if x == p.sink.arg {
				return observation{kind: "bool", flag: true}
			}
		}
		return observation{kind: "bool"}
	case sinkReduce, sinkItertoolReduce:
		acc := 0
		if p.sink.k == sinkItertoolReduce {
			acc = reduceInitItertool
		}
	fold:
		for i, x := range seq {
			e.calls[p.sinkFid] = i + 1
			switch lookup(e.injs, p.sinkFid, i) {
			case evSkip:
				continue
			case evErr, evEOF:
				break fold
			}
			acc = foldStep(acc, x)
		}
		return observation{kind: "int", val: acc}
	case sinkProcess:
		out := []int{}
	proc:
		for i, x := range seq {
			e.calls[p.sinkFid] = i + 1
			switch lookup(e.injs, p.sinkFid, i) {
			case evSkip:
				continue
			case evErr, evEOF:
				break proc
			}
			out = append(out, x)
		}
		return observation{kind: "seq", seq: out}
	default:
		return observation{kind: "seq", seq: seq}
	}
}
