package seqpart

// Wire format between the supervisor (enumerates programs, merges results,
// owns the report) and its worker processes (run the cases). One JSON object
// per line in each direction.

type wireNode struct {
	K    int         `json:"k"`
	A    int         `json:"a,omitempty"`
	In   []int       `json:"i,omitempty"`
	Ins  [][]int     `json:"m,omitempty"`
	Kids []*wireNode `json:"c,omitempty"`
	F    int         `json:"f"`
}

type request struct {
	ID      int64     `json:"id"`
	Root    *wireNode `json:"root,omitempty"`
	SinkK   int       `json:"sk"`
	SinkA   int       `json:"sa,omitempty"`
	SinkFid int       `json:"sf"`
	Nfn     int       `json:"nfn"`
	Nops    int       `json:"nops"`
	MaxInj  int       `json:"mi"`
	Order   int64     `json:"o"`
	Only    [][3]int  `json:"only,omitempty"` // run exactly this injection set
	UseOnly bool      `json:"uo,omitempty"`
	Skip    int64     `json:"skip,omitempty"` // skip the first n cases of the program
	Trace   bool      `json:"trace,omitempty"`
	Probe   bool      `json:"probe,omitempty"` // only report whether the case fails, record nothing
	Flush   bool      `json:"flush,omitempty"`
}

type wireFinding struct {
	Sig    string         `json:"sig"`
	Weight int            `json:"w"`
	Order  int64          `json:"o"`
	Replay map[string]any `json:"r"`
}

type response struct {
	ID          int64          `json:"id"`
	Cases       int64          `json:"cases"`
	Transitions int64          `json:"tr"`
	Nontrivial  int64          `json:"nt"`
	Injected    int64          `json:"inj"`
	Parked      int64          `json:"parked"`
	Hangs       int64          `json:"hangs"`
	Untriaged   int64          `json:"untriaged"`
	Notes       map[string]int `json:"notes,omitempty"`
	SigCounts   map[string]int `json:"sc,omitempty"`
	Findings    []wireFinding  `json:"f,omitempty"`
	ProbeClass  string         `json:"pc,omitempty"`
}

func toWire(n *node) *wireNode {
	w := &wireNode{K: int(n.k), A: n.arg, In: n.in, Ins: n.ins, F: n.fid}
	for _, k := range n.kids {
		w.Kids = append(w.Kids, toWire(k))
	}
	return w
}

func fromWire(w *wireNode) *node {
	n := &node{k: opKind(w.K), arg: w.A, in: w.In, ins: w.Ins, fid: w.F}
	if n.in == nil {
		n.in = []int{}
	}
	for _, k := range w.Kids {
		n.kids = append(n.kids, fromWire(k))
	}
	return n
}

func makeRequest(p *program) request {
	return request{Root: toWire(p.root), SinkK: int(p.sink.k), SinkA: p.sink.arg, SinkFid: p.sinkFid, Nfn: p.nfn, Nops: p.nops}
}

func (r *request) program() *program {
	return &program{root: fromWire(r.Root), sink: sinkSpec{sinkKind(r.SinkK), r.SinkA}, sinkFid: r.SinkFid, nfn: r.Nfn, nops: r.Nops}
}

func injsToWire(injs []inj) [][3]int {
	out := make([][3]int, len(injs))
	for i, x := range injs {
		out[i] = [3]int{x.fid, x.call, int(x.ev)}
	}
	return out
}

func injsFromWire(w [][3]int) []inj {
	out := make([]inj, len(w))
	for i, x := range w {
		out[i] = inj{x[0], x[1], event(x[2])}
	}
	return out
}
