// Package seqpart is C02: every sequential iterator pipeline (operator tree x
// inputs x injected skip/error/EOF positions) within the tier's bounds is run
// against the real library and compared with a pure evaluator over slices.
package seqpart

import (
	"fmt"
	"strings"
)

// ---------------------------------------------------------------- vocabulary

type opKind int

const (
	// sources (one input slice)
	srcSlice opKind = iota
	srcVariadic
	srcChan         // pre-filled closed channel, fun.ChannelIterator
	srcBlockingChan // pre-filled closed channel, fun.Blocking(ch).Iterator()
	srcGenerator    // fun.Generator(scripted producer); user function, injectable
	srcCheckProducer
	srcList
	srcListPop
	srcStack
	srcStackPop
	srcDtSlice
	srcUnmarshal // UnmarshalJSON into an (empty) iterator
	// sources (several input slices; concat / flatten)
	srcMergeSlices
	srcMergeSliceIters
	// unary
	uFilter
	uTransform // user function, injectable
	uBuffer
	uSplit1
	uChannel
	uBufChannel
	uUniq
	uDropZero
	uIndexed
	uJSON
	uViaList
	uViaSlice
	// n-ary
	nJoin
	nChain
)

var opNames = map[opKind]string{
	srcSlice: "SliceIterator", srcVariadic: "VariadicIterator", srcChan: "ChannelIterator", srcBlockingChan: "Blocking.Iterator",
	srcGenerator: "Generator", srcCheckProducer: "CheckProducer.Iterator", srcList: "List.Iterator", srcListPop: "List.PopIterator",
	srcStack: "Stack.Iterator", srcStackPop: "Stack.PopIterator", srcDtSlice: "dt.Slice.Iterator", srcUnmarshal: "UnmarshalJSON",
	srcMergeSlices: "MergeSlices", srcMergeSliceIters: "MergeSliceIterators",
	uFilter: "Filter", uTransform: "Transform", uBuffer: "Buffer", uSplit1: "Split1", uChannel: "Channel", uBufChannel: "BufferedChannel",
	uUniq: "Uniq", uDropZero: "DropZeroValues", uIndexed: "Indexed", uJSON: "MarshalUnmarshalJSON", uViaList: "ViaList", uViaSlice: "ViaSlice",
	nJoin: "Join", nChain: "Chain",
}

func (k opKind) isSource() bool { return k <= srcMergeSliceIters }
func (k opKind) isNary() bool   { return k == nJoin || k == nChain }

type sinkKind int

const (
	sinkSlice sinkKind = iota
	sinkReadOne
	sinkCount
	sinkReduce         // Iterator.Reduce; user function, injectable
	sinkItertoolReduce // itertool.Reduce; user function, injectable
	sinkContains
	sinkMarshal
	sinkProcess // Iterator.Process; user function, injectable
)

var sinkNames = map[sinkKind]string{
	sinkSlice: "Slice", sinkReadOne: "ReadOneLoop", sinkCount: "Count", sinkReduce: "Reduce", sinkItertoolReduce: "itertool.Reduce",
	sinkContains: "Contains", sinkMarshal: "MarshalJSON", sinkProcess: "Process",
}

type sinkSpec struct {
	k   sinkKind
	arg int // Contains: the item
}

func (s sinkSpec) name() string { return sinkNames[s.k] }
func (s sinkSpec) String() string {
	if s.k == sinkContains {
		return fmt.Sprintf("Contains(%d)", s.arg)
	}
	return s.name()
}
func (s sinkSpec) hasFn() bool {
	return s.k == sinkReduce || s.k == sinkItertoolReduce || s.k == sinkProcess
}

// menus (pure, total on int)
var predNames = []string{"true", "false", "x>0", "x%2==0"}
var preds = []func(int) bool{
	func(int) bool { return true },
	func(int) bool { return false },
	func(x int) bool { return x > 0 },
	func(x int) bool { return x%2 == 0 },
}
var mapNames = []string{"x", "x+1", "x%2", "0"}
var maps = []func(int) int{
	func(x int) int { return x },
	func(x int) int { return x + 1 },
	func(x int) int { return x % 2 },
	func(int) int { return 0 },
}

// ---------------------------------------------------------------- programs

type node struct {
	k    opKind
	arg  int     // predicate / mapper index, buffer size
	in   []int   // single-input sources
	ins  [][]int // multi-input sources
	kids []*node
	fid  int // user-function id (pre-order), -1 if the node has none
}

type program struct {
	root    *node
	sink    sinkSpec
	sinkFid int // -1 if the sink has no user function
	nfn     int
	nops    int // operator count (unary + n-ary)
}

func src(k opKind, in []int) *node      { return &node{k: k, in: in, fid: -1} }
func msrc(k opKind, ins ...[]int) *node { return &node{k: k, ins: ins, fid: -1} }
func un(k opKind, arg int, kid *node) *node {
	return &node{k: k, arg: arg, kids: []*node{kid}, fid: -1}
}
func nary(k opKind, kids ...*node) *node { return &node{k: k, kids: kids, fid: -1} }
func (n *node) clone() *node {
	c := *n
	c.kids = make([]*node, len(n.kids))
	for i, k := range n.kids {
		c.kids[i] = k.clone()
	}
	return &c
}

// finish numbers the user functions (pre-order, sink last).
func finish(root *node, sink sinkSpec) *program {
	p := &program{root: root, sink: sink, sinkFid: -1}
	var walk func(n *node)
	walk = func(n *node) {
		n.fid = -1
		if n.k == srcGenerator || n.k == uTransform {
			n.fid = p.nfn
			p.nfn++
		}
		if !n.k.isSource() {
			p.nops++
		}
		for _, k := range n.kids {
			walk(k)
		}
	}
	walk(root)
	if sink.hasFn() {
		p.sinkFid = p.nfn
		p.nfn++
	}
	return p
}

func (n *node) String() string {
	name := opNames[n.k]
	switch {
	case n.k == srcMergeSlices || n.k == srcMergeSliceIters:
		return fmt.Sprintf("%s%v", name, n.ins)
	case n.k.isSource():
		f := ""
		if n.fid >= 0 {
			f = fmt.Sprintf("#f%d", n.fid)
		}
		return fmt.Sprintf("%s%s(%v)", name, f, n.in)
	case n.k == uFilter:
		return fmt.Sprintf("%s.Filter(%s)", n.kids[0], predNames[n.arg])
	case n.k == uTransform:
		sp := "Transform"
		if n.arg%2 == 1 {
			sp = "ConvertIterator"
		}
		return fmt.Sprintf("%s.%s#f%d(%s)", n.kids[0], sp, n.fid, mapNames[n.arg])
	case n.k == uBuffer || n.k == uBufChannel:
		return fmt.Sprintf("%s.%s(%d)", n.kids[0], name, n.arg)
	case n.k.isNary():
		parts := make([]string, len(n.kids))
		for i, k := range n.kids {
			parts[i] = k.String()
		}
		return fmt.Sprintf("%s(%s)", name, strings.Join(parts, ", "))
	default:
		return fmt.Sprintf("%s.%s", n.kids[0], name)
	}
}

func (p *program) String() string {
	s := p.sink.String()
	if p.sinkFid >= 0 {
		s += fmt.Sprintf("#f%d", p.sinkFid)
	}
	return p.root.String() + " => " + s
}

// subtrees in post-order (smallest first within a branch); the root is last.
func (n *node) subtrees() []*node {
	var out []*node
	var walk func(x *node)
	walk = func(x *node) {
		for _, k := range x.kids {
			walk(k)
		}
		out = append(out, x)
	}
	walk(n)
	return out
}

func (n *node) size() int {
	s := 1
	for _, k := range n.kids {
		s += k.size()
	}
	for range n.in {
		s++
	}
	for _, i := range n.ins {
		s += len(i)
	}
	return s
}

// ---------------------------------------------------------------- injections

type event int

const (
	evNone event = iota
	evSkip
	evErr
	evEOF
)

var evNames = []string{"none", "ErrIteratorSkip", "error", "io.EOF"}

type inj struct {
	fid, call int
	ev        event
}

func (i inj) String() string { return fmt.Sprintf("f%d@call%d=%s", i.fid, i.call, evNames[i.ev]) }

func lookup(injs []inj, fid, call int) event {
	for _, i := range injs {
		if i.fid == fid && i.call == call {
			return i.ev
		}
	}
	return evNone
}

// ---------------------------------------------------------------- input domains

// slices over {0..nv-1} with length <= maxLen, shortest first.
func inputs(maxLen int) [][]int {
	out := [][]int{{}}
	level := [][]int{{}}
	for l := 1; l <= maxLen; l++ {
		var next [][]int
		for _, p := range level {
			for v := 0; v < 3; v++ {
				next = append(next, append(append([]int{}, p...), v))
			}
		}
		out = append(out, next...)
		level = next
	}
	return out
}

type unaryVariant struct {
	k   opKind
	arg int
}

func unaryVariants() []unaryVariant {
	var u []unaryVariant
	for i := range preds {
		u = append(u, unaryVariant{uFilter, i})
	}
	for i := range maps {
		u = append(u, unaryVariant{uTransform, i})
	}
	u = append(u, unaryVariant{uBuffer, 0}, unaryVariant{uBuffer, 2}, unaryVariant{uSplit1, 0}, unaryVariant{uChannel, 0},
		unaryVariant{uBufChannel, 2}, unaryVariant{uUniq, 0}, unaryVariant{uDropZero, 0}, unaryVariant{uIndexed, 0},
		unaryVariant{uJSON, 0}, unaryVariant{uViaList, 0}, unaryVariant{uViaSlice, 0})
	return u
}

var allSources = []opKind{srcSlice, srcVariadic, srcChan, srcBlockingChan, srcGenerator, srcCheckProducer, srcList, srcListPop,
	srcStack, srcStackPop, srcDtSlice, srcUnmarshal}
var coreSources = []opKind{srcSlice, srcGenerator, srcChan}
var allSinks = []sinkSpec{{sinkSlice, 0}, {sinkReadOne, 0}, {sinkCount, 0}, {sinkReduce, 0}, {sinkItertoolReduce, 0},
	{sinkContains, 0}, {sinkContains, 1}, {sinkMarshal, 0}, {sinkProcess, 0}}
var coreSinks = []sinkSpec{{sinkSlice, 0}, {sinkReadOne, 0}}
