package seqpart

import (
	"context"
	"fmt"
	"sync"
	"sync/atomic"
	"time"
)

const (
	fastWait      = 100 * time.Millisecond // the worker itself waits this long, then parks the case
	hangTimeout   = 10 * time.Second       // generous: a case normally takes microseconds
	maxParked     = 4096
	maxHangTriage = 4 // per worker process
)

// ---------------------------------------------------------------- running one case under the watchdog

type handle struct {
	done   chan outcome
	cancel context.CancelFunc
	start  time.Time
}

func launch(p *program, injs []inj) *handle {
	ctx, cancel := context.WithCancel(context.Background())
	e := &runEnv{ctx: ctx, injs: injs, calls: make([]atomic.Int32, p.nfn)}
	h := &handle{done: make(chan outcome, 1), cancel: cancel, start: time.Now()}
	go func() { h.done <- execute(p, e) }()
	return h
}

func (h *handle) wait(d time.Duration) (outcome, bool) {
	select {
	case o := <-h.done:
		return o, true
	default:
	}
	t := time.NewTimer(d)
	defer t.Stop()
	select {
	case o := <-h.done:
		return o, true
	case <-t.C:
		return outcome{}, false
	}
}

// The hang verdict must not be produced by an overloaded or frozen machine:
// the long wait counts ticks of a 10ms heartbeat goroutine of this process
// (no ticks while the process is not being scheduled) in addition to wall time.
var heartbeat atomic.Int64

func init() {
	go func() {
		for {
			time.Sleep(10 * time.Millisecond)
			heartbeat.Add(1)
		}
	}()
}

// waitLong waits until the case is done, or until d of wall time has passed
// during which this process was scheduled for at least half of the heartbeats.
func (h *handle) waitLong(d time.Duration) (outcome, bool) {
	startTick, start := heartbeat.Load(), time.Now()
	need := int64(d/(10*time.Millisecond)) / 2
	for {
		if o, ok := h.wait(250 * time.Millisecond); ok {
			return o, true
		}
		if time.Since(start) >= d && heartbeat.Load()-startTick >= need {
			return outcome{}, false
		}
	}
}

// runBlocking: used by triage only.
func runBlocking(p *program, injs []inj) (outcome, bool) {
	h := launch(p, injs)
	o, ok := h.waitLong(hangTimeout)
	h.cancel()
	return o, ok
}

// ---------------------------------------------------------------- verdicts

type verdict struct {
	class string // "", seq-mismatch, yields-after-error, panic, hang, join
	sig   string // complete signature for class join
	exp   observation
	note  string
}

// assess compares an outcome with the specification. It does not blame.
func assess(p *program, injs []inj, out outcome, hung bool) verdict {
	es := newEvalEnv(p, injs, strict)
	exp := evalProgram(p, es)
	v := verdict{exp: exp}
	switch {
	case hung:
		v.class = "hang"
		return v
	case out.panicked != "":
		v.class = "panic"
		return v
	case out.runaway:
		v.class = "seq-mismatch"
		v.note = "ReadOne never returned an error"
		return v
	}
	if !exp.equal(out.obs) {
		v.class = "seq-mismatch"
		if es.eofInEarlierOperand || es.errInEarlierOperand {
			e2 := newEvalEnv(p, injs, eofContinues)
			if x := evalProgram(p, e2); x.equal(out.obs) {
				// a Transform function returned io.EOF inside a non-last
				// Join/Chain operand and the next operand was still
				// delivered: io.EOF is also the ordinary end-of-operand
				// signal, so the statement does not decide this case.
				v.class, v.note = "", "eof-in-earlier-operand-continues"
			} else if e2.errInEarlierOperand || es.errInEarlierOperand {
				e3 := newEvalEnv(p, injs, allContinue)
				if y := evalProgram(p, e3); y.equal(out.obs) {
					v.class = "join"
					v.sig = "join/error-in-first-operand-not-truncating/" + opNames[firstNary(p.root)]
				}
			}
		}
		if v.class != "" {
			return v
		}
	}
	if len(out.extraYield) > 0 {
		v.class = "yields-after-error"
	}
	return v
}

func firstNary(n *node) opKind {
	if n.k.isNary() {
		return n.k
	}
	for _, k := range n.kids {
		if r := firstNary(k); r.isNary() {
			return r
		}
	}
	return n.k
}

func subProgram(p *program, root *node, sink sinkSpec) *program {
	q := &program{root: root, sink: sink, sinkFid: -1, nfn: p.nfn + 1, nops: p.nops}
	if sink.hasFn() {
		if sink.k == p.sink.k {
			q.sinkFid = p.sinkFid
		} else {
			q.sinkFid = p.nfn
		}
	}
	return q
}

// blame finds the operator to tag: the root operator of the smallest
// sub-pipeline (same inputs, same injections, same sink) that shows the same
// class of failure; "+<sink>" is appended when the failing pipeline is fine
// under the plain Slice sink.
func blame(p *program, injs []inj, class string) string {
	subs := p.root.subtrees()
	type res struct{ fails bool }
	results := make([]res, len(subs))
	var wg sync.WaitGroup
	for i, s := range subs[:len(subs)-1] {
		wg.Add(1)
		go func(i int, s *node) {
			defer wg.Done()
			q := subProgram(p, s, p.sink)
			o, ok := runBlocking(q, injs)
			results[i].fails = assess(q, injs, o, !ok).class == class
		}(i, s)
	}
	withSlice := true
	if p.sink.k != sinkSlice && class != "yields-after-error" {
		wg.Add(1)
		go func() {
			defer wg.Done()
			q := subProgram(p, p.root, sinkSpec{sinkSlice, 0})
			o, ok := runBlocking(q, injs)
			withSlice = assess(q, injs, o, !ok).class != ""
		}()
	}
	wg.Wait()
	for i, s := range subs[:len(subs)-1] {
		if results[i].fails {
			return opNames[s.k]
		}
	}
	tag := opNames[p.root.k]
	if !withSlice {
		tag += "+" + p.sink.name()
	}
	return tag
}

// ---------------------------------------------------------------- the check

type finding struct {
	sig    string
	weight int
	order  int64
	replay map[string]any
}

type checker struct {
	mu          sync.Mutex
	best        map[string]*finding
	outbox      []*finding // improvements of best not yet shipped to the supervisor
	sigCount    map[string]int
	notes       map[string]int
	cases       atomic.Int64
	transitions atomic.Int64
	programs    atomic.Int64
	nontrivial  atomic.Int64
	injected    atomic.Int64
	parkedEver  atomic.Int64
	hangs       atomic.Int64
	hangTriage  atomic.Int64
	untriaged   atomic.Int64
	parked      chan struct{}
	wg          sync.WaitGroup
	blocking    bool // trace mode: wait for every case in line
}

func injStrings(injs []inj) []string {
	out := make([]string, len(injs))
	for i, x := range injs {
		out[i] = x.String()
	}
	return out
}

func (c *checker) record(sig string, p *program, injs []inj, order int64, out outcome, v verdict) {
	w := p.root.size()*4 + len(injs)
	c.mu.Lock()
	defer c.mu.Unlock()
	c.sigCount[sig]++
	if b := c.best[sig]; b != nil && (b.weight < w || (b.weight == w && b.order <= order)) {
		return
	}
	got := out.obs.String()
	if v.class == "hang" {
		got = fmt.Sprintf("no result within %s (context then cancelled)", hangTimeout)
	} else if v.class == "panic" {
		got = "panic: " + out.panicked
	}
	defer func() { c.outbox = append(c.outbox, c.best[sig]) }()
	c.best[sig] = &finding{sig: sig, weight: w, order: order, replay: map[string]any{
		"program":                  p.String(),
		"injections":               injStrings(injs),
		"expected":                 v.exp.String(),
		"got":                      got,
		"values_after_first_error": out.extraYield,
		"first_readone_error":      out.firstErr,
		"sink_error":               out.sinkErr,
		"close_error":              out.closeErr,
		"note":                     v.note,
		"legend": "sources carry their input slice; #fN numbers the user functions (generator producer, Transform function, Reduce/Process function); " +
			"fN@callK=E makes the K-th call (0-based) of function N return E; menus: predicates " + fmt.Sprint(predNames) + ", mappers " + fmt.Sprint(mapNames) +
			"; Indexed is followed by ConvertIterator(pair -> idx*10+value); fold is acc*31+item+1 (itertool.Reduce starts at 5)",
	}}
}

func (c *checker) judge(p *program, injs []inj, order int64, out outcome, hung bool) {
	v := assess(p, injs, out, hung)
	if v.note != "" && v.class == "" {
		c.mu.Lock()
		c.notes[v.note]++
		c.mu.Unlock()
	}
	switch v.class {
	case "":
		return
	case "join":
		c.record(v.sig, p, injs, order, out, v)
		return
	case "hang":
		c.hangs.Add(1)
		if c.hangTriage.Add(1) > maxHangTriage {
			c.untriaged.Add(1)
			return
		}
	}
	tag := blame(p, injs, v.class)
	c.record("pipeline/"+v.class+"/"+tag, p, injs, order, out, v)
}

// judgeHang: the case did not finish. Run it once more before calling it a
// hang (sequential pipelines are deterministic: a real hang hangs again).
func (c *checker) judgeHang(p *program, injs []inj, order int64) {
	out, ok := runBlocking(p, injs)
	if ok {
		c.mu.Lock()
		c.notes["slow-case-finished-on-second-run"]++
		c.mu.Unlock()
	}
	c.judge(p, injs, order, out, !ok)
}

func (c *checker) runCase(p *program, injs []inj, order int64) {
	c.cases.Add(1)
	c.transitions.Add(int64(p.nops))
	if len(injs) > 0 {
		c.injected.Add(1)
	}
	h := launch(p, injs)
	out, ok := h.wait(fastWait)
	if !ok && c.blocking {
		out, ok = h.waitLong(hangTimeout)
		if !ok {
			h.cancel()
			c.judgeHang(p, injs, order)
			return
		}
	}
	if ok {
		h.cancel()
		if len(out.obs.seq) > 0 || out.obs.val != 0 || out.obs.flag {
			c.nontrivial.Add(1)
		}
		c.judge(p, injs, order, out, false)
		return
	}
	// slow (or stuck): park it, keep the worker going
	c.parkedEver.Add(1)
	c.parked <- struct{}{}
	c.wg.Add(1)
	go func() {
		defer c.wg.Done()
		defer func() { <-c.parked }()
		out, ok := h.waitLong(hangTimeout)
		h.cancel()
		if !ok {
			c.judgeHang(p, injs, order)
			return
		}
		c.judge(p, injs, order, out, false)
	}()
}
