// C08: broker delivers each message exactly once, in order, to every subscriber.
package main

import (
	"context"
	"fmt"
	"strings"
	"time"

	"github.com/tychoish/fun/pubsub"
	"verif/vs"
	"verif/vs/runner"
)

type backend struct {
	name     string
	lossless bool
	mk       func(ctx context.Context, opts pubsub.BrokerOptions) *pubsub.Broker[int]
}

func backends() []backend {
	return []backend{
		{"chan", true, func(ctx context.Context, o pubsub.BrokerOptions) *pubsub.Broker[int] {
			return pubsub.NewBroker[int](ctx, o)
		}},
		{"queue", true, func(ctx context.Context, o pubsub.BrokerOptions) *pubsub.Broker[int] {
			return pubsub.NewQueueBroker(ctx, pubsub.NewUnlimitedQueue[int](), o)
		}},
		{"deque", true, func(ctx context.Context, o pubsub.BrokerOptions) *pubsub.Broker[int] {
			return pubsub.NewDequeBroker(ctx, pubsub.NewUnlimitedDeque[int](), o)
		}},
		// load shedding configurations: only "never invented, never twice"
		{"lifo1", false, func(ctx context.Context, o pubsub.BrokerOptions) *pubsub.Broker[int] {
			return pubsub.NewLIFOBroker[int](ctx, o, 1)
		}},
		// distributors with filters (they shed the rejected messages): only published messages, never twice
		{"queue+outfilter", false, func(ctx context.Context, o pubsub.BrokerOptions) *pubsub.Broker[int] {
			d := pubsub.NewUnlimitedQueue[int]().Distributor().WithOutputFilter(func(v int) bool { return v%2 == 1 })
			return pubsub.MakeDistributorBroker(ctx, d, o)
		}},
		{"deque+infilter", false, func(ctx context.Context, o pubsub.BrokerOptions) *pubsub.Broker[int] {
			d := pubsub.NewUnlimitedDeque[int]().Distributor().WithInputFilter(func(v int) bool { return v%2 == 0 })
			return pubsub.MakeDistributorBroker(ctx, d, o)
		}},
		{"queue-hard1", false, func(ctx context.Context, o pubsub.BrokerOptions) *pubsub.Broker[int] {
			q, err := pubsub.NewQueue[int](pubsub.QueueOptions{HardLimit: 1, SoftQuota: 1})
			if err != nil {
				panic(err)
			}
			return pubsub.NewQueueBroker(ctx, q, o)
		}},
	}
}

type pubRec struct {
	msg       int
	call, ret int
}

type subRec struct {
	got        []int
	subscribed int // time Subscribe returned
	unsubCall  int // time Unsubscribe was invoked (0: never)
}

func endTag(e *vs.End) (string, string) {
	if len(e.Panics) > 0 {
		return "panic/" + e.Panics[0].Site, e.Panics[0].Value
	}
	if e.NonTerminating() {
		return "livelock/" + e.LibSites(), fmt.Sprintf("%+v", e.Stuck)
	}
	if e.Status != vs.Clean {
		return "stuck/" + e.LibSites(), fmt.Sprintf("threads never returned: %+v", e.Stuck)
	}
	return "", ""
}

// scenario: subscriber 0 subscribes before any publish; subscriber 1 according
// to `late` (subscribes concurrently with the publishers) and `unsub` (calls
// Unsubscribe concurrently, keeps receiving). Publishers p x messages m, message
// id = 10*publisher + index.
func scenario(be backend, opts pubsub.BrokerOptions, pubs, msgs int, late, unsub, unsubByPublisher bool) vs.Scenario {
	return func() (func(), func(*vs.End) (string, string)) {
		subs := []*subRec{{}, {}}
		var published []*pubRec
		quiet := false
		body := func() {
			bctx, cancelBroker := context.WithCancel(context.Background())
			cctx, cancelClients := context.WithCancel(context.Background())
			b := be.mk(bctx, opts)
			fin := make(chan struct{}, 8)
			n := 0
			start := func(s *subRec) chan int {
				ch := b.Subscribe(cctx)
				s.subscribed = vs.Now()
				n++
				go func() {
					defer func() { fin <- struct{}{} }()
					for {
						select {
						case <-cctx.Done():
							return
						case m := <-ch:
							s.got = append(s.got, m)
							vs.Progress()
						}
					}
				}()
				return ch
			}
			start(subs[0])
			var ch1 chan int
			if !late {
				ch1 = start(subs[1])
			}
			for p := 1; p <= pubs; p++ {
				p := p
				n++
				go func() {
					for i := 1; i <= msgs; i++ {
						r := &pubRec{msg: 10*p + i, call: vs.Now()}
						published = append(published, r)
						b.Publish(cctx, r.msg)
						r.ret = vs.Now()
					}
					if unsubByPublisher && p == 1 {
						// the publisher itself unsubscribes subscriber 1 right after
						// its last Publish returned: that message is in the window
						subs[1].unsubCall = vs.Now()
						b.Unsubscribe(cctx, ch1)
					}
					fin <- struct{}{}
				}()
			}
			if late {
				ch1 = start(subs[1])
			}
			if unsub {
				subs[1].unsubCall = vs.Now()
				b.Unsubscribe(cctx, ch1)
			}
			vs.Quiesce()
			quiet = true
			cancelClients()
			b.Stop()
			b.Wait(context.Background())
			for i := 0; i < n; i++ {
				<-fin
			}
			cancelBroker()
		}
		check := func(e *vs.End) (string, string) {
			where := fmt.Sprintf("%s %+v pubs=%d msgs=%d late=%v unsub=%v", be.name, opts, pubs, msgs, late, unsub)
			pubSet := map[int]*pubRec{}
			for _, r := range published {
				pubSet[r.msg] = r
			}
			for si, s := range subs {
				seen := map[int]bool{}
				for _, m := range s.got {
					if pubSet[m] == nil {
						return "invented-message", where + fmt.Sprintf(": subscriber %d received %d which was never published (%v)", si, m, s.got)
					}
					if seen[m] {
						return "duplicate-delivery", where + fmt.Sprintf(": subscriber %d received %d twice (%v)", si, m, s.got)
					}
					seen[m] = true
				}
				if be.lossless && opts.BufferSize == 0 && quiet {
					for _, r := range published {
						// published after Subscribe returned and Publish returned before Unsubscribe was called
						inWindow := r.ret > 0 && r.call >= s.subscribed && s.subscribed > 0 && (s.unsubCall == 0 || r.ret <= s.unsubCall)
						if inWindow && !seen[r.msg] {
							tag := "lost-message"
							if s.unsubCall != 0 {
								tag = "lost-message-published-before-unsubscribe"
							}
							return tag, where + fmt.Sprintf(": subscriber %d (subscribed@%d, unsubscribe@%d) did not receive %d (publish %d..%d); got %v", si, s.subscribed, s.unsubCall, r.msg, r.call, r.ret, s.got)
						}
					}
				}
			}
			// a single dispatch worker, with or without ParallelDispatch (which fans
			// one message out to the subscribers concurrently and waits for all of
			// them before the worker takes the next message)
			if be.lossless && opts.WorkerPoolSize <= 1 {
				// same order at all subscribers for the messages both received
				idx := map[int]int{}
				for i, m := range subs[0].got {
					idx[m] = i
				}
				last := -1
				for _, m := range subs[1].got {
					if i, ok := idx[m]; ok {
						if i < last {
							return "order-differs-between-subscribers", where + fmt.Sprintf(": %v vs %v", subs[0].got, subs[1].got)
						}
						last = i
					}
				}
				// each publisher's order preserved
				for si, s := range subs {
					lastOf := map[int]int{}
					for _, m := range s.got {
						p := m / 10
						if m%10 < lastOf[p] {
							return "publisher-order-not-preserved", where + fmt.Sprintf(": subscriber %d got %v", si, s.got)
						}
						lastOf[p] = m % 10
					}
				}
			}
			if t, d := endTag(e); t != "" {
				return "not-clean/" + t, where + ": " + d
			}
			return "", ""
		}
		return body, check
	}
}

// churn: nsubs subscribers (all subscribed before anything is published, all
// keep receiving); publishers run concurrently with a list of subscription
// actions executed by the main thread ("unsub:i", "unsub:i" again, "unsub:foreign"
// for a channel that was never subscribed, "unsub:nil"); afterwards the main
// thread publishes one more message (99). Oracle: never invented / duplicated
// for anybody; every subscriber that never unsubscribes receives every message
// (lossless back-ends), in the publishers' order with one worker.
func churn(be backend, opts pubsub.BrokerOptions, nsubs, pubs, msgs int, actions []string) vs.Scenario {
	return func() (func(), func(*vs.End) (string, string)) {
		subs := make([]*subRec, nsubs)
		for i := range subs {
			subs[i] = &subRec{}
		}
		var published []*pubRec
		quiet := false
		body := func() {
			bctx, cancelBroker := context.WithCancel(context.Background())
			cctx, cancelClients := context.WithCancel(context.Background())
			b := be.mk(bctx, opts)
			fin := make(chan struct{}, 16)
			n := 0
			chans := make([]chan int, nsubs)
			for i := range subs {
				s := subs[i]
				var ch chan int
				for _, a := range actions {
					if a == fmt.Sprintf("subctx:%d", i) {
						// the context handed to Subscribe only bounds the handshake
						sctx, end := context.WithCancel(context.Background())
						ch = b.Subscribe(sctx)
						end()
					}
				}
				if ch == nil {
					ch = b.Subscribe(cctx)
				}
				chans[i] = ch
				s.subscribed = vs.Now()
				n++
				go func() {
					defer func() { fin <- struct{}{} }()
					for {
						select {
						case <-cctx.Done():
							return
						case m := <-ch:
							s.got = append(s.got, m)
							vs.Progress()
						}
					}
				}()
			}
			for p := 1; p <= pubs; p++ {
				p := p
				n++
				go func() {
					for i := 1; i <= msgs; i++ {
						r := &pubRec{msg: 10*p + i, call: vs.Now()}
						published = append(published, r)
						b.Publish(cctx, r.msg)
						r.ret = vs.Now()
					}
					fin <- struct{}{}
				}()
			}
			for _, a := range actions {
				switch {
				case a == "unsub:foreign":
					b.Unsubscribe(cctx, make(chan int))
				case a == "unsub:nil":
					b.Unsubscribe(cctx, nil)
				case strings.HasPrefix(a, "subctx:"):
					// handled at subscription time
				default:
					var i int
					fmt.Sscanf(a, "unsub:%d", &i)
					if subs[i].unsubCall == 0 {
						subs[i].unsubCall = vs.Now()
					}
					b.Unsubscribe(cctx, chans[i])
				}
			}
			r := &pubRec{msg: 99, call: vs.Now()}
			published = append(published, r)
			b.Publish(cctx, r.msg)
			r.ret = vs.Now()
			vs.Quiesce()
			quiet = true
			cancelClients()
			b.Stop()
			b.Wait(context.Background())
			for i := 0; i < n; i++ {
				<-fin
			}
			cancelBroker()
		}
		check := func(e *vs.End) (string, string) {
			where := fmt.Sprintf("%s %+v subs=%d pubs=%d msgs=%d actions=%v", be.name, opts, nsubs, pubs, msgs, actions)
			pubSet := map[int]bool{}
			for _, r := range published {
				pubSet[r.msg] = true
			}
			for si, s := range subs {
				seen := map[int]bool{}
				for _, m := range s.got {
					if !pubSet[m] {
						return "invented-message", where + fmt.Sprintf(": subscriber %d received %d which was never published (%v)", si, m, s.got)
					}
					if seen[m] {
						return "duplicate-delivery", where + fmt.Sprintf(": subscriber %d received %d twice (%v)", si, m, s.got)
					}
					seen[m] = true
				}
				if be.lossless && opts.BufferSize == 0 && quiet && s.unsubCall == 0 {
					for _, r := range published {
						if r.ret > 0 && !seen[r.msg] {
							return "lost-message", where + fmt.Sprintf(": subscriber %d never unsubscribed but did not receive %d; got %v", si, r.msg, s.got)
						}
					}
				}
				if be.lossless && opts.WorkerPoolSize <= 1 {
					lastOf := map[int]int{}
					for _, m := range s.got {
						if m == 99 {
							continue
						}
						if m%10 < lastOf[m/10] {
							return "publisher-order-not-preserved", where + fmt.Sprintf(": subscriber %d got %v", si, s.got)
						}
						lastOf[m/10] = m % 10
					}
				}
			}
			if t, d := endTag(e); t != "" {
				return "not-clean/" + t, where + ": " + d
			}
			return "", ""
		}
		return body, check
	}
}

func build(tier string) ([]runner.Instance, time.Duration) {
	bound, budget := 1, 100*time.Second
	if tier == "thorough" {
		bound, budget = 2, 14*time.Minute
	}
	var out []runner.Instance
	for _, be := range backends() {
		for _, par := range []bool{false, true} {
			for w := 1; w <= 2; w++ {
				if par && w == 2 {
					continue
				}
				for _, buf := range []int{0, 1} {
					if buf == 1 && be.lossless && (par || w == 2) {
						continue
					}
					opts := pubsub.BrokerOptions{ParallelDispatch: par, WorkerPoolSize: w, BufferSize: buf}
					shapes := [][2]int{{1, 1}, {1, 2}, {2, 1}, {2, 2}}
					if buf == 1 && be.lossless {
						// a subscriber that falls more than the buffer behind one publisher
						shapes = append(shapes, [2]int{1, 3})
					}
					for _, shape := range shapes {
						if shape == [2]int{2, 2} && tier != "thorough" {
							continue
						}
						for _, mode := range []string{"static", "late", "unsub", "unsub-after-publish"} {
							name := fmt.Sprintf("%s/par=%v,w=%d,buf=%d/pubs=%d,msgs=%d/%s", be.name, par, w, buf, shape[0], shape[1], mode)
							ib := bound
							if shape == [2]int{1, 3} {
								if mode != "static" || (be.name != "queue" && tier != "thorough") {
									continue
								}
								ib = bound + 1 // subscriber delayed AND the later overflow sender first
							}
							out = append(out, runner.Instance{Group: be.name + "/" + mode, Name: name, Bound: ib,
								Scenario: scenario(be, opts, shape[0], shape[1], mode == "late", mode == "unsub", mode == "unsub-after-publish")})
						}
					}
				}
			}
		}
	}
	type churnCase struct {
		nsubs, pubs, msgs int
		actions           []string
		deep              bool
	}
	cases := []churnCase{
		{3, 1, 1, []string{"unsub:0"}, false},
		{3, 1, 1, []string{"unsub:1"}, false},
		{3, 1, 1, []string{"unsub:2"}, false},
		{2, 1, 1, []string{"unsub:1", "unsub:1"}, false},
		{2, 0, 0, []string{"unsub:1", "unsub:1"}, false},
		{2, 1, 1, []string{"unsub:foreign"}, false},
		{1, 0, 0, []string{"unsub:foreign"}, false},
		{1, 0, 0, []string{"unsub:nil"}, false},
		{2, 0, 0, []string{"unsub:0", "unsub:foreign"}, false},
		{2, 1, 1, []string{"subctx:0"}, false},
		{1, 1, 2, []string{"subctx:0"}, false},
		{3, 1, 2, []string{"unsub:1"}, true},
		{3, 2, 1, []string{"unsub:0", "unsub:2"}, true},
		{3, 1, 1, []string{"unsub:1", "unsub:1", "unsub:foreign"}, true},
	}
	for _, be := range backends() {
		for _, par := range []bool{false, true} {
			if par && !be.lossless {
				continue
			}
			opts := pubsub.BrokerOptions{ParallelDispatch: par, WorkerPoolSize: 1}
			for _, c := range cases {
				if c.deep && tier != "thorough" {
					continue
				}
				cb := bound
				if c.nsubs == 3 && len(c.actions) == 1 && !par && be.lossless && (be.name == "queue" || tier == "thorough") {
					// an Unsubscribe landing while a dispatch is parked on a subscriber
					// that is not receiving yet needs two deviations
					cb = bound + 1
				}
				name := fmt.Sprintf("%s/churn/par=%v/subs=%d,pubs=%d,msgs=%d/%s", be.name, par, c.nsubs, c.pubs, c.msgs, strings.Join(c.actions, "+"))
				out = append(out, runner.Instance{Group: be.name + "/churn", Name: name, Bound: cb, Scenario: churn(be, opts, c.nsubs, c.pubs, c.msgs, c.actions)})
			}
		}
	}
	return out, budget
}

func main() {
	runner.Main(runner.Options{Property: "C08", Level: "exploration", Build: build, RacePoints: true,
		Assume: []string{"model of sync/context/channels in verif/vs (DESIGN §2.2)", "window of a subscriber: Publish invoked after its Subscribe returned and returned before its Unsubscribe was invoked (logical times)", "small scope: 2 subscribers (3 in the churn family), <=2 publishers x <=2 messages, <=2 dispatch workers"}})
}
