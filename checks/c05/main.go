// C05 (concurrent half): every history of small concurrent programs over the
// real pubsub.Queue, under every schedule up to the deviation bound, is
// linearizable with respect to the reference model validated by the sequential
// half (checks/c05/seqpart). Linearizability of each recorded call/return
// history is decided by porcupine.
package main

import (
	"context"
	"errors"
	"fmt"
	"strings"
	"time"

	"github.com/anishathalye/porcupine"
	"github.com/tychoish/fun/pubsub"
	"verif/checks/c05/model"
	"verif/vs"
	"verif/vs/runner"
)

type opRec struct {
	client    int
	in        model.Input
	out       model.Output
	call, ret int64
	done      bool
}

func classify(err error) model.ErrKind {
	switch {
	case err == nil:
		return model.OK
	case errors.Is(err, pubsub.ErrQueueFull):
		return model.ErrFull
	case errors.Is(err, pubsub.ErrQueueNoCredit):
		return model.ErrNoCredit
	case errors.Is(err, pubsub.ErrQueueClosed):
		return model.ErrClosed
	case errors.Is(err, context.Canceled), errors.Is(err, context.DeadlineExceeded):
		return model.ErrCtx
	}
	return model.ErrOther
}

func newQueue(o model.Options) *pubsub.Queue[int] {
	if o.Unlimited {
		return pubsub.NewUnlimitedQueue[int]()
	}
	q, err := pubsub.NewQueue[int](pubsub.QueueOptions{HardLimit: o.HardLimit, SoftQuota: o.SoftQuota, BurstCredit: o.BurstCredit})
	if err != nil {
		panic(err)
	}
	return q
}

func call(q *pubsub.Queue[int], d pubsub.Distributor[int], ctx context.Context, in model.Input) model.Output {
	switch in.Kind {
	case model.Add:
		return model.OutErr(classify(q.Add(in.Val)))
	case model.BlockingAdd:
		return model.OutErr(classify(q.BlockingAdd(ctx, in.Val)))
	case model.Remove:
		v, ok := q.Remove()
		return model.OutRemove(v, ok)
	case model.Wait:
		v, err := q.Wait(ctx)
		return model.OutWait(v, classify(err))
	case model.Len:
		return model.OutLen(q.Len())
	case model.Close:
		_ = q.Close()
		return model.Output{}
	case model.Send:
		return model.OutErr(classify(d.Send(ctx, in.Val)))
	case model.Receive:
		v, err := d.Receive(ctx)
		return model.OutWait(v, classify(err))
	case model.DistLen:
		return model.OutLen(d.Len())
	}
	panic("unknown op")
}

func porcupineModel(init model.State) porcupine.Model {
	return porcupine.Model{
		Init: func() interface{} { return init.Clone() },
		Step: func(state, input, output interface{}) (bool, interface{}) {
			ok, next := model.Step(state.(model.State), input.(model.Input), output.(model.Output))
			return ok, next
		},
		Equal: func(a, b interface{}) bool { return a.(model.State).Equal(b.(model.State)) },
		DescribeOperation: func(input, output interface{}) string {
			in := input.(model.Input)
			return fmt.Sprintf("%v -> %s", in, output.(model.Output).Format(in.Kind))
		},
	}
}

// program: pre-state built sequentially from `pre` operations, then one thread
// per element of `threads`, each running its operations in order. Blocking
// calls that are still pending at quiescence are released by cancelling their
// contexts (a context error is a no-op in the specification).
func program(opt model.Options, pre []model.Input, threads [][]model.Input) vs.Scenario {
	return func() (func(), func(*vs.End) (string, string)) {
		var recs []*opRec
		var clock int64
		init := model.MustNew(opt)
		body := func() {
			q := newQueue(opt)
			d := q.Distributor()
			for _, in := range pre {
				out := call(q, d, context.Background(), in)
				var ok bool
				ok, init = model.Step(init, in, out)
				if !ok {
					panic(fmt.Sprintf("pre-state operation %v -> %s does not follow the sequential model", in, out.Format(in.Kind)))
				}
			}
			ctx, cancel := context.WithCancel(context.Background())
			fin := make(chan struct{}, len(threads))
			for ci, ops := range threads {
				ci, ops := ci, ops
				go func() {
					for _, in := range ops {
						r := &opRec{client: ci, in: in}
						recs = append(recs, r)
						clock++
						r.call = clock
						out := call(q, d, ctx, in)
						clock++
						r.ret = clock
						r.out, r.done = out, true
						vs.Progress()
					}
					fin <- struct{}{}
				}()
			}
			vs.Quiesce()
			cancel()
			for range threads {
				<-fin
			}
		}
		check := func(e *vs.End) (string, string) {
			if len(e.Panics) > 0 {
				return "panic/" + e.Panics[0].Site, e.Panics[0].Value
			}
			if e.Status != vs.Clean {
				return "not-released-by-cancel/" + e.Status.String() + "/" + e.LibSites(), fmt.Sprintf("%+v", e.Stuck)
			}
			var hist []porcupine.Operation
			for _, r := range recs {
				if !r.done {
					continue
				}
				hist = append(hist, porcupine.Operation{ClientId: r.client, Input: r.in, Output: r.out, Call: r.call, Return: r.ret})
			}
			if porcupine.CheckOperations(porcupineModel(init), hist) {
				return "", ""
			}
			var kinds []string
			var b strings.Builder
			seen := map[string]bool{}
			for _, r := range recs {
				fmt.Fprintf(&b, "[client %d: %v -> %s @%d..%d] ", r.client, r.in, r.out.Format(r.in.Kind), r.call, r.ret)
				if k := r.in.Kind.String(); !seen[k] {
					seen[k] = true
					kinds = append(kinds, k)
				}
			}
			return "not-linearizable", fmt.Sprintf("options %v, initial state %s: %s", opt, init.Key(), b.String())
		}
		return body, check
	}
}

func name(ops []model.Input) string {
	var s []string
	for _, o := range ops {
		s = append(s, o.String())
	}
	return strings.Join(s, ";")
}

func build(tier string) ([]runner.Instance, time.Duration) {
	bound, budget := 2, 80*time.Second
	if tier == "thorough" {
		bound, budget = 3, 14*time.Minute
	}
	alpha := []model.Input{
		{Kind: model.Add, Val: 1}, {Kind: model.Add, Val: 2}, {Kind: model.Remove}, {Kind: model.Wait},
		{Kind: model.BlockingAdd, Val: 3}, {Kind: model.Len}, {Kind: model.Close}, {Kind: model.Receive}, {Kind: model.Send, Val: 4},
	}
	var seqs1, seqs2 [][]model.Input
	for _, a := range alpha {
		seqs1 = append(seqs1, []model.Input{a})
		for _, b := range alpha {
			seqs2 = append(seqs2, []model.Input{a, b})
		}
	}
	type cfg struct {
		opt model.Options
		pre []model.Input
		tag string
	}
	cfgs := []cfg{
		{model.Options{Unlimited: true}, nil, "unlimited/empty"},
		{model.Options{Unlimited: true}, []model.Input{{Kind: model.Add, Val: 9}}, "unlimited/one"},
		{model.Options{HardLimit: 1, SoftQuota: 1}, []model.Input{{Kind: model.Add, Val: 9}}, "hard1/full"},
		{model.Options{HardLimit: 2, SoftQuota: 1, BurstCredit: 1}, []model.Input{{Kind: model.Add, Val: 9}}, "h2s1c1/one"},
	}
	if tier == "thorough" {
		cfgs = append(cfgs,
			cfg{model.Options{HardLimit: 1, SoftQuota: 1}, nil, "hard1/empty"},
			cfg{model.Options{Unlimited: true}, []model.Input{{Kind: model.Add, Val: 9}, {Kind: model.Close}}, "unlimited/closed-one"},
			cfg{model.Options{HardLimit: 3, SoftQuota: 2, BurstCredit: 0.5}, []model.Input{{Kind: model.Add, Val: 8}, {Kind: model.Add, Val: 9}}, "h3s2c.5/two"},
		)
	}
	var out []runner.Instance
	add := func(c cfg, threads [][]model.Input) {
		var parts []string
		for _, t := range threads {
			parts = append(parts, name(t))
		}
		out = append(out, runner.Instance{Group: "lin/" + c.tag, Name: "lin/" + c.tag + "/" + strings.Join(parts, " || "), Bound: bound, Scenario: program(c.opt, c.pre, threads)})
	}
	for _, c := range cfgs {
		// two threads: (2 ops || 1 op), and (1 op || 1 op || 1 op) over a reduced alphabet
		for _, a := range seqs2 {
			for _, b := range seqs1 {
				add(c, [][]model.Input{a, b})
			}
		}
		if tier == "thorough" {
			for i, a := range seqs2 {
				for j, b := range seqs2 {
					if j < i {
						continue
					}
					add(c, [][]model.Input{a, b})
				}
			}
		}
		// a blocked call woken by one thread while a third closes the queue and
		// observes it afterwards (the observation pins the order of Close and the
		// woken call's effect)
		for _, obs := range []model.Input{{Kind: model.Len}, {Kind: model.Remove}, {Kind: model.Add, Val: 4}} {
			add(c, [][]model.Input{{{Kind: model.BlockingAdd, Val: 3}}, {{Kind: model.Remove}}, {{Kind: model.Close}, obs}})
			add(c, [][]model.Input{{{Kind: model.Wait}}, {{Kind: model.Add, Val: 1}}, {{Kind: model.Close}, obs}})
		}
		core := []model.Input{{Kind: model.Add, Val: 1}, {Kind: model.Remove}, {Kind: model.Wait}, {Kind: model.BlockingAdd, Val: 3}, {Kind: model.Close}}
		for i, a := range core {
			for j := i; j < len(core); j++ {
				for k := j; k < len(core); k++ {
					add(c, [][]model.Input{{a}, {core[j]}, {core[k]}})
				}
			}
		}
	}
	return out, budget
}

func main() {
	runner.Main(runner.Options{Property: "C05", Level: "model_checking", Build: build, RacePoints: true,
		Rule: "concurrent half: every schedule (deviation bounded, bounds iterated) of each closed program {pre-state} x {2-3 threads x 1-2 operations}; the call/return history of every execution is checked for linearizability against the reference model with porcupine; evaluations = executions = histories checked",
		Assume: []string{"model of sync/context/channels in verif/vs (DESIGN §2.2)", "logical timestamps: a global counter of call/return events of the serialized execution", "pending blocking calls are released by cancelling their context at quiescence; a context error is a no-op in the specification"}})
}
