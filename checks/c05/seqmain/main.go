// Command c05 decides property C05 (pubsub.Queue is a linearizable bounded
// FIFO). Sequential conformance against the reference model lives in seqpart;
// the concurrent (schedule-exploring, porcupine-checked) part is added here.
package main

import (
	"flag"
	"os"

	"verif/checks/c05/seqpart"
	"verif/rep"
)

func main() {
	tier := flag.String("tier", "quick", "quick|thorough")
	flag.Parse()
	r := rep.New("C05", *tier, "model_checking")
	seqpart.Run(r, *tier)
	os.Exit(r.Finish())
}
