package guard

import (
	"fmt"
	"os"
	"reflect"
	"strings"
	"sync"
	"time"
)

// TrackerState reads the unexported admission-control state of a
// pubsub.Queue / pubsub.Deque (field "tracker": length, capacity or
// softQuota/credit) by reflection. It is used only to refine the canonical
// state key (two histories are merged only if the hidden real state agrees as
// well), never as an oracle. It returns "" when the layout is not the expected
// one.
func TrackerState(obj any) (s string) {
	defer func() {
		if recover() != nil {
			s = ""
		}
	}()
	t := reflect.ValueOf(obj).Elem().FieldByName("tracker")
	if !t.IsValid() || t.IsNil() {
		return ""
	}
	st := t.Elem()
	if st.Kind() == reflect.Ptr {
		st = st.Elem()
	}
	var parts []string
	for _, f := range []string{"length", "softQuota", "credit"} {
		fv := st.FieldByName(f)
		if !fv.IsValid() {
			continue
		}
		switch fv.Kind() {
		case reflect.Int:
			parts = append(parts, fmt.Sprintf("%s=%d", f, fv.Int()))
		case reflect.Float64:
			parts = append(parts, fmt.Sprintf("%s=%.6f", f, fv.Float()+0))
		}
	}
	return strings.Join(parts, ",")
}

// Monitor bounds the harness itself. Lock-only operations (Add, Remove, Len,
// Close, pushes, pops) run unguarded; if replaying one history takes longer
// than HangLimit the monitor calls onHang (which reports and ends the
// process) instead of letting the check hang.
type Monitor struct {
	mu   sync.Mutex
	next int
	m    map[int]*flight
	stop chan struct{}
}

type flight struct {
	label string
	hist  []int
	start time.Time
}

// HangLimit is the longest a single history replay may take.
var HangLimit = 90 * time.Second

// NewMonitor starts a monitor. onHang receives the label and history of the
// replay that did not finish; if it returns, the process exits with status 1.
func NewMonitor(onHang func(label string, hist []int)) *Monitor {
	m := &Monitor{m: map[int]*flight{}, stop: make(chan struct{})}
	go func() {
		t := time.NewTicker(5 * time.Second)
		defer t.Stop()
		for {
			select {
			case <-m.stop:
				return
			case <-t.C:
			}
			m.mu.Lock()
			for _, fl := range m.m {
				if time.Since(fl.start) > HangLimit {
					onHang(fl.label, fl.hist)
					os.Exit(1)
				}
			}
			m.mu.Unlock()
		}
	}()
	return m
}

// Begin registers a replay; call End with the returned id when it is done.
func (m *Monitor) Begin(label string, hist []int) int {
	m.mu.Lock()
	defer m.mu.Unlock()
	m.next++
	m.m[m.next] = &flight{label, hist, time.Now()}
	return m.next
}

// End unregisters a replay.
func (m *Monitor) End(id int) {
	m.mu.Lock()
	delete(m.m, id)
	m.mu.Unlock()
}

// Stop ends the monitor.
func (m *Monitor) Stop() { close(m.stop) }
