// Package guard runs one potentially blocking library call so that it can
// never hang the harness (used by the sequential parts of C05 and C06).
//
// The call runs in its own goroutine with a context owned by the guard.
//
//   - Returned: the call came back by itself.
//   - Blocked: the call did not come back; the guard then cancelled the context
//     and the call returned (normally with a context error).
//   - Stuck: the call did not even return within StuckTimeout after the cancel;
//     its goroutine is abandoned.
//
// When is a call declared blocked? The first time for a given signature only
// after it failed to return for BlockTimeout (2 s): a false verdict needs a 2 s
// stall of a call that does not block. The check harnesses are sequential -
// the object under test is owned by the calling worker and nobody else touches
// it - so a goroutine that is parked in sync.Cond.Wait stays parked for ever.
// Once a signature has been confirmed the slow way, later calls with the same
// signature are declared blocked as soon as the runtime reports the goroutine
// parked in sync.Cond.Wait on two consecutive looks (this keeps a tree with a
// known blocking defect explorable: thousands of states * 2 s otherwise). If
// the goroutine state cannot be read (different runtime, instrumented sync)
// the 2 s rule applies to every call.
package guard

import (
	"bytes"
	"context"
	"fmt"
	"runtime"
	"strconv"
	"sync"
	"sync/atomic"
	"time"
)

var (
	// BlockTimeout is how long a call may run before it is declared blocked.
	BlockTimeout = 2 * time.Second
	// StuckTimeout bounds the wait for the call to return after the cancel.
	StuckTimeout = 10 * time.Second
)

// Verdict of one guarded call.
type Verdict int

const (
	Returned Verdict = iota
	Blocked
	Stuck
)

// Outcome describes a guarded call.
type Outcome struct {
	Verdict Verdict
	Panic   any           // non-nil: the call panicked (Verdict is Returned)
	Waited  time.Duration // how long the guard waited before cancelling
	Parked  bool          // the goroutine was seen parked in sync.Cond.Wait
}

var (
	confirmed sync.Map // signature -> struct{}: blocked verdicts reached the slow way
	nSlow     atomic.Int64
	nFast     atomic.Int64
)

// Counts returns how many blocked verdicts were reached by the 2 s rule and
// how many by the parked-goroutine rule.
func Counts() (slow, fast int64) { return nSlow.Load(), nFast.Load() }

// Call runs f under the guard. sig names the verdict a block would produce
// (e.g. "deque/blocked-although-satisfied/WaitFront").
func Call(sig string, f func(ctx context.Context)) Outcome {
	ctx, cancel := context.WithCancel(context.Background())
	defer cancel()
	done := make(chan any, 1)
	var gid atomic.Int64
	go func() {
		defer func() { done <- recover() }()
		gid.Store(goid())
		f(ctx)
	}()

	start := time.Now()
	_, known := confirmed.Load(sig)
	var out Outcome

	// Fast path: the call returns promptly.
	first := time.NewTimer(2 * time.Millisecond)
	select {
	case p := <-done:
		first.Stop()
		return Outcome{Panic: p}
	case <-first.C:
	}

	deadline := start.Add(BlockTimeout)
	tick := 2 * time.Millisecond
	seen := 0
wait:
	for {
		now := time.Now()
		if !now.Before(deadline) {
			out.Parked = parked(gid.Load())
			nSlow.Add(1)
			confirmed.Store(sig, struct{}{})
			break
		}
		if known {
			if parked(gid.Load()) {
				seen++
				if seen >= 2 {
					out.Parked = true
					nFast.Add(1)
					break
				}
			} else {
				seen = 0
			}
		}
		d := deadline.Sub(now)
		if known && d > tick {
			d = tick
			if tick < 20*time.Millisecond {
				tick *= 2
			}
		}
		t := time.NewTimer(d)
		select {
		case p := <-done:
			t.Stop()
			return Outcome{Panic: p}
		case <-t.C:
			continue wait
		}
	}

	out.Waited = time.Since(start)
	cancel()
	t := time.NewTimer(StuckTimeout)
	defer t.Stop()
	select {
	case p := <-done:
		out.Verdict = Blocked
		out.Panic = p
	case <-t.C:
		out.Verdict = Stuck
	}
	return out
}

// goid returns the id of the calling goroutine (0 if it cannot be parsed).
func goid() int64 {
	var buf [64]byte
	b := buf[:runtime.Stack(buf[:], false)]
	b = bytes.TrimPrefix(b, []byte("goroutine "))
	if i := bytes.IndexByte(b, ' '); i > 0 {
		if n, err := strconv.ParseInt(string(b[:i]), 10, 64); err == nil {
			return n
		}
	}
	return 0
}

var stackBuf = sync.Pool{New: func() any { b := make([]byte, 1<<20); return &b }}

// parked reports whether goroutine id is parked in sync.Cond.Wait.
func parked(id int64) bool {
	if id == 0 {
		return false
	}
	bp := stackBuf.Get().(*[]byte)
	defer stackBuf.Put(bp)
	n := runtime.Stack(*bp, true)
	return bytes.Contains((*bp)[:n], []byte(fmt.Sprintf("goroutine %d [sync.Cond.Wait", id)))
}
