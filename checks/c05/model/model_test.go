package model

import (
	"fmt"
	"math/big"
	"testing"
)

// The three hand-checkable traces below follow the prose of the Queue type
// comment; they pin the model, not the implementation.
func TestDocTraces(t *testing.T) {
	q, err := NewQueue(Options{HardLimit: 2, SoftQuota: 1, BurstCredit: 1})
	if err != nil {
		t.Fatal(err)
	}
	if e := q.Add(1); e != OK { // below the soft quota: free
		t.Fatal(e)
	}
	if e := q.Add(2); e != OK { // above the soft quota: costs the one credit
		t.Fatal(e)
	}
	if e := q.Add(3); e != ErrFull { // at the hard limit
		t.Fatal(e)
	}
	if v, ok := q.Remove(); !ok || v != 1 {
		t.Fatal(v, ok)
	}
	// soft quota was raised to 2 by the burst; len 1 < 2 so the add is free
	if e := q.Add(4); e != OK {
		t.Fatal(e)
	}
	q.Close()
	if e := q.Add(5); e != ErrClosed {
		t.Fatal(e)
	}
	if v, e, b := q.Wait(); v != 2 || e != OK || b {
		t.Fatal(v, e, b)
	}
	if v, ok := q.Remove(); !ok || v != 4 {
		t.Fatal(v, ok)
	}
	if _, e, b := q.Wait(); e != ErrClosed || b {
		t.Fatal(e, b)
	}

	// no credit: hard 3, soft 1, credit 0.5 is below one unit
	q, _ = NewQueue(Options{HardLimit: 3, SoftQuota: 1, BurstCredit: 0.5})
	if e := q.Add(1); e != OK {
		t.Fatal(e)
	}
	if e := q.Add(2); e != ErrNoCredit {
		t.Fatal(e)
	}
	if e, b := q.BlockingAdd(2); !b {
		t.Fatal(e, b)
	}
	// open and empty: Wait has to block
	q, _ = NewQueue(Options{Unlimited: true})
	if _, _, b := q.Wait(); !b {
		t.Fatal("wait on empty must block")
	}
	if _, err := NewQueue(Options{HardLimit: 1, SoftQuota: 2}); err == nil {
		t.Fatal("soft > hard accepted")
	}
	if _, err := NewQueue(Options{}); err == nil {
		t.Fatal("zero hard limit accepted")
	}
}

func TestStepAgreesWithApply(t *testing.T) {
	s := MustNew(Options{HardLimit: 2, SoftQuota: 1, BurstCredit: 1})
	for _, in := range []Input{{Add, 1}, {BlockingAdd, 2}, {Len, 0}, {Add, 3}, {Remove, 0}, {Wait, 0}, {Close, 0}, {Receive, 0}} {
		n, out, blocks := Apply(s, in)
		if blocks {
			t.Fatal("unexpected block", in)
		}
		ok, n2 := Step(s, in, out)
		if !ok || !n.Equal(n2) || n.Key() != n2.Key() {
			t.Fatal("step/apply disagree", in, out)
		}
		hasErr := in.Kind != Remove && in.Kind != Len && in.Kind != Close
		if ok, same := Step(s, in, Output{Err: ErrCtx}); hasErr && (ok != in.Kind.TakesContext() || !same.Equal(s)) {
			t.Fatal("ctx error must be a legal no-op exactly for context-taking operations", in)
		}
		s = n
	}
}

var testOptions = []Options{
	{HardLimit: 1, SoftQuota: 1}, {HardLimit: 2, SoftQuota: 1, BurstCredit: 1}, {HardLimit: 2, SoftQuota: 2},
	{HardLimit: 3, SoftQuota: 1, BurstCredit: 2}, {HardLimit: 3, SoftQuota: 2, BurstCredit: 0.5}, {HardLimit: 4, SoftQuota: 2, BurstCredit: 1},
}

// explore walks all Add/Remove sequences up to depth and calls visit for
// every reached pair of states (default reading, alternative reading).
func explore(o Options, alt Rules, depth int, visit func(hist string, a, b State) bool) {
	type node struct {
		a, b State
		hist string
	}
	oa := o
	ob := o
	ob.Rules = alt
	frontier := []node{{MustNew(oa), MustNew(ob), ""}}
	seen := map[string]bool{}
	for d := 0; d <= depth && len(frontier) > 0; d++ {
		var next []node
		for _, n := range frontier {
			if !visit(n.hist, n.a, n.b) {
				return
			}
			for _, in := range []Input{{Kind: Add, Val: 1}, {Kind: Remove}} {
				a, _, _ := Apply(n.a, in)
				b, _, _ := Apply(n.b, in)
				k := a.Key() + "/" + b.Key()
				if seen[k] {
					continue
				}
				seen[k] = true
				next = append(next, node{a, b, n.hist + " " + in.Kind.String()})
			}
		}
		frontier = next
	}
}

// Informative: shortest Add/Remove sequence on which the two readings of an
// UNCLEAR rule give a different Add verdict (logged with -v).
func TestReadingsDiffer(t *testing.T) {
	for name, alt := range map[string]Rules{"credit-cap=hard-limit": {CreditCapIsHardLimit: true}, "half=exact": {HalfQuotaExact: true}} {
		for _, o := range testOptions {
			found := false
			explore(o, alt, 14, func(h string, a, b State) bool {
				if a.Admit() != b.Admit() {
					t.Logf("%s, %v: after%s next Add: adopted reading %v (%s), alternative %v (%s)", name, o, h, a.Admit(), a.Key(), b.Admit(), b.Key())
					found = true
					return false
				}
				return true
			})
			if !found {
				t.Logf("%s, %v: no observable difference within 14 operations", name, o)
			}
		}
	}
}

// The credit is a float64 in the API. This test replays the rules with exact
// rationals and reports (fails) if rounding could change an Add verdict inside
// the explored bounds, i.e. if float arithmetic itself would be observable.
func TestFloatCreditIsExactEnough(t *testing.T) {
	for _, o := range testOptions {
		n, _ := o.Normalize()
		type st struct {
			l, soft int
			c       *big.Rat
			f       State
		}
		start := st{0, n.SoftQuota, new(big.Rat).SetFloat64(n.BurstCredit), MustNew(o)}
		frontier := []st{start}
		seen := map[string]bool{}
		for d := 0; d < 16; d++ {
			var next []st
			for _, s := range frontier {
				exactOK := s.l < n.HardLimit && (s.l < s.soft || s.c.Cmp(big.NewRat(1, 1)) >= 0)
				if exactOK != (s.f.Admit() == OK) {
					t.Fatalf("%v: float and exact credit disagree in %s (exact credit %s)", o, s.f.Key(), s.c)
				}
				// add
				if exactOK {
					a := st{s.l + 1, s.soft, new(big.Rat).Set(s.c), s.f.push(1)}
					if s.l >= s.soft {
						a.c.Sub(a.c, big.NewRat(1, 1))
						a.soft = s.l + 1
					}
					if k := fmt.Sprint(a.l, a.soft, a.c); !seen[k] {
						seen[k] = true
						next = append(next, a)
					}
				}
				// remove
				if s.l > 0 {
					f, _ := s.f.pop()
					r := st{s.l - 1, s.soft, new(big.Rat).Set(s.c), f}
					if r.l < r.soft {
						if r.soft > 1 && r.l < r.soft/2 {
							r.soft--
						}
						r.c.Add(r.c, big.NewRat(int64(r.soft-r.l), int64(r.soft)))
						if lim := big.NewRat(int64(n.HardLimit-r.soft), 1); r.c.Cmp(lim) > 0 {
							r.c.Set(lim)
						}
					}
					if k := fmt.Sprint(r.l, r.soft, r.c); !seen[k] {
						seen[k] = true
						next = append(next, r)
					}
				}
			}
			frontier = next
		}
	}
}
