// Package model is the sequential reference model of pubsub.Queue (property
// C05): a bounded FIFO queue with a hard limit, a soft quota and burst credit.
//
// It is deliberately boring (a slice, a flag, an int and a float) and was
// written from the documentation, not from the implementation:
//
//   - type comment of pubsub.Queue ("A queue has a soft quota and a hard limit
//     ... Adding an item in excess of the soft quota costs 1 unit of burst
//     credit ... Removing items from the queue adds additional credit if the
//     resulting queue length is less than the current soft quota. Burst credit
//     is capped ...");
//   - field comments of pubsub.QueueOptions (defaults: SoftQuota 0 -> hard
//     limit, BurstCredit 0 -> soft quota; validity: hard > 0, hard >= soft,
//     credit >= 0);
//   - the rule comments in pubsub/tracker.go ("Successfully exceeding the soft
//     quota deducts burst credit and raises the soft quota", "removing items
//     from the queue below half the soft quota lowers the soft quota", "Give
//     credit for being below the soft quota ... after adjusting the quota");
//   - comments of Add/BlockingAdd/Remove/Wait/Close, ErrQueue*.
//
// The credit system is a pure function of the operation sequence: nothing in
// it depends on wall-clock time, so the model (and every check built on it) is
// deterministic.
//
// Two API layers:
//
//   - pure functions over an immutable-by-convention State value: Apply (the
//     sequential semantics under a context that never ends; reports "would
//     block") and Step (porcupine-style: is this observed output legal here,
//     and what is the next state). State has Clone, Equal and a canonical Key.
//   - Queue, a small mutable wrapper (Add/Remove/Len/Close/Wait/BlockingAdd)
//     for harnesses that prefer an object.
//
// Points the documentation does not settle are collected in Rules and in the
// comments marked UNCLEAR.
package model

import (
	"fmt"
	"math"
	"strings"
)

// ErrKind classifies the error returned by a queue operation.
type ErrKind int

const (
	OK          ErrKind = iota // nil error
	ErrFull                    // pubsub.ErrQueueFull
	ErrNoCredit                // pubsub.ErrQueueNoCredit
	ErrClosed                  // pubsub.ErrQueueClosed
	ErrCtx                     // context.Canceled / context.DeadlineExceeded
	ErrOther                   // anything else (never produced by the model)
)

func (e ErrKind) String() string {
	switch e {
	case OK:
		return "nil"
	case ErrFull:
		return "ErrQueueFull"
	case ErrNoCredit:
		return "ErrQueueNoCredit"
	case ErrClosed:
		return "ErrQueueClosed"
	case ErrCtx:
		return "ctx-error"
	default:
		return "other-error"
	}
}

// Rules selects between readings of the documentation where it is ambiguous.
// The zero value is the reading adopted by the checks.
type Rules struct {
	// UNCLEAR (credit cap). The Queue type comment says "Burst credit is capped
	// by the hard limit"; the tracker comments say that raising the soft quota
	// "has the effect of reducing the credit cap", which only makes sense for a
	// cap of (hard limit - soft quota). Default (false): cap = hard - soft.
	CreditCapIsHardLimit bool
	// UNCLEAR (half). "below half the soft quota": default (false) is integer
	// halving, len < soft/2 with truncating division; true means 2*len < soft.
	HalfQuotaExact bool
}

// Options mirror pubsub.QueueOptions plus the unlimited queue.
type Options struct {
	Unlimited   bool
	HardLimit   int
	SoftQuota   int
	BurstCredit float64
	Rules       Rules
}

// Normalize validates o as documented on pubsub.QueueOptions and fills in the
// documented defaults.
func (o Options) Normalize() (Options, error) {
	if o.Unlimited {
		if o.HardLimit != 0 || o.SoftQuota != 0 || o.BurstCredit != 0 {
			return o, fmt.Errorf("unlimited queue takes no limits")
		}
		return o, nil
	}
	if o.HardLimit <= 0 {
		return o, fmt.Errorf("hard limit must be positive")
	}
	if o.HardLimit < o.SoftQuota {
		return o, fmt.Errorf("hard limit must be >= soft quota")
	}
	if o.BurstCredit < 0 {
		return o, fmt.Errorf("burst credit must be non-negative")
	}
	if o.SoftQuota <= 0 { // "If this value is zero, it is initialized to the hard limit."
		o.SoftQuota = o.HardLimit
	}
	if o.BurstCredit == 0 { // "If it is zero, the soft quota is used."
		o.BurstCredit = float64(o.SoftQuota)
	}
	return o, nil
}

func (o Options) String() string {
	if o.Unlimited {
		return "unlimited"
	}
	return fmt.Sprintf("hard=%d,soft=%d,credit=%g", o.HardLimit, o.SoftQuota, o.BurstCredit)
}

// State is the complete abstract state of a queue. Treat it as a value: the
// functions of this package never modify the Items of their argument.
type State struct {
	Opt    Options // normalized, never changes
	Items  []int   // oldest first
	Closed bool
	Soft   int     // current soft quota (adjusted dynamically); 0 when unlimited
	Credit float64 // current burst credit; 0 when unlimited
}

// New returns the initial state for the options.
func New(o Options) (State, error) {
	n, err := o.Normalize()
	if err != nil {
		return State{}, err
	}
	return State{Opt: n, Soft: n.SoftQuota, Credit: n.BurstCredit}, nil
}

// MustNew is New for options known to be valid.
func MustNew(o Options) State {
	s, err := New(o)
	if err != nil {
		panic(err)
	}
	return s
}

// Len is the number of queued items.
func (s State) Len() int { return len(s.Items) }

// Clone returns a deep copy.
func (s State) Clone() State {
	c := s
	c.Items = append([]int(nil), s.Items...)
	return c
}

const creditEps = 1e-9

// Equal reports whether two states of the same queue are indistinguishable.
func (s State) Equal(t State) bool {
	if s.Closed != t.Closed || s.Soft != t.Soft || len(s.Items) != len(t.Items) ||
		math.Abs(s.Credit-t.Credit) > creditEps {
		return false
	}
	for i := range s.Items {
		if s.Items[i] != t.Items[i] {
			return false
		}
	}
	return true
}

// Key is a canonical string for the state (credit rounded to 1e-6); equal
// states have equal keys.
func (s State) Key() string {
	var b strings.Builder
	b.WriteByte('[')
	for i, v := range s.Items {
		if i > 0 {
			b.WriteByte(' ')
		}
		fmt.Fprint(&b, v)
	}
	b.WriteByte(']')
	if s.Closed {
		b.WriteString(" closed")
	}
	if !s.Opt.Unlimited {
		fmt.Fprintf(&b, " soft=%d credit=%.6f", s.Soft, s.Credit+0) // +0: no "-0"
	}
	return b.String()
}

func (s State) String() string { return s.Key() }

// Quota is the admission-control part of a state: the current soft quota and
// the current burst credit. (Exported, with the three rule functions below,
// because the quota-tracker Deque of C06 obeys the same rules.)
type Quota struct {
	Soft   int
	Credit float64
}

// AdmitAt says what adding to an open container holding n items returns.
func (o Options) AdmitAt(n int, q Quota) ErrKind {
	switch {
	case o.Unlimited:
		return OK
	case n >= o.HardLimit:
		return ErrFull // "Adding items in excess of the hard limit will fail unconditionally."
	case n >= q.Soft && q.Credit < 1:
		return ErrNoCredit // "in excess of the soft quota ... not enough burst credit"
	}
	return OK
}

// AfterAdd is the quota after an admitted add to a container that held n items.
func (o Options) AfterAdd(n int, q Quota) Quota {
	if !o.Unlimited && n >= q.Soft {
		// "Adding an item in excess of the soft quota costs 1 unit of burst
		// credit" and "raises the soft quota" to the new length.
		q.Credit--
		q.Soft = n + 1
	}
	return q
}

// AfterRemove is the quota after a removal that left n items.
func (o Options) AfterRemove(n int, q Quota) Quota {
	if o.Unlimited || n >= q.Soft { // "if the resulting queue length is less than the current soft quota"
		return q
	}
	below := n < q.Soft/2
	if o.Rules.HalfQuotaExact {
		below = 2*n < q.Soft
	}
	if q.Soft > 1 && below { // "below half the soft quota lowers the soft quota"
		q.Soft--
	}
	// "Give credit for being below the soft quota ... after adjusting the
	// quota": the fraction of the quota that is free.
	q.Credit += float64(q.Soft-n) / float64(q.Soft)
	limit := float64(o.HardLimit - q.Soft)
	if o.Rules.CreditCapIsHardLimit {
		limit = float64(o.HardLimit)
	}
	if q.Credit > limit {
		q.Credit = limit
	}
	return q
}

// Admit says what Add would return in this state, without changing anything.
func (s State) Admit() ErrKind {
	if s.Closed {
		return ErrClosed // "with ErrQueueClosed after Close"
	}
	return s.Opt.AdmitAt(len(s.Items), Quota{s.Soft, s.Credit})
}

// push appends v, applying the quota/credit rules. Precondition: Admit()==OK.
func (s State) push(v int) State {
	n := s.Clone()
	q := n.Opt.AfterAdd(len(n.Items), Quota{n.Soft, n.Credit})
	n.Soft, n.Credit = q.Soft, q.Credit
	n.Items = append(n.Items, v)
	return n
}

// pop removes the oldest item. Precondition: Len()>0.
func (s State) pop() (State, int) {
	n := s.Clone()
	v := n.Items[0]
	n.Items = n.Items[1:]
	q := n.Opt.AfterRemove(len(n.Items), Quota{n.Soft, n.Credit})
	n.Soft, n.Credit = q.Soft, q.Credit
	return n, v
}

// Kind names an operation of the Queue API (and of its Distributor).
type Kind int

const (
	Add         Kind = iota // Queue.Add(v) error
	BlockingAdd             // Queue.BlockingAdd(ctx, v) error
	Remove                  // Queue.Remove() (v, ok)
	Wait                    // Queue.Wait(ctx) (v, error)
	Len                     // Queue.Len() int
	Close                   // Queue.Close()
	Send                    // Distributor.Send(ctx, v) error       (= Add, ctx ignored)
	Receive                 // Distributor.Receive(ctx) (v, error)  (= Remove, else Wait)
	DistLen                 // Distributor.Len() int
)

var kindNames = [...]string{"Add", "BlockingAdd", "Remove", "Wait", "Len", "Close", "Send", "Receive", "DistLen"}

func (k Kind) String() string { return kindNames[k] }

// TakesContext reports whether the operation may legitimately return a
// context error.
func (k Kind) TakesContext() bool { return k == BlockingAdd || k == Wait || k == Send || k == Receive }

// Input is one invocation.
type Input struct {
	Kind Kind
	Val  int // Add, BlockingAdd, Send
}

func (in Input) String() string {
	switch in.Kind {
	case Add, BlockingAdd, Send:
		return fmt.Sprintf("%v(%d)", in.Kind, in.Val)
	}
	return in.Kind.String()
}

// Output is one response. Only the fields meaningful for the operation are
// set (use the constructors): Err for Add/BlockingAdd/Send; Val+OK for Remove;
// Val+Err for Wait/Receive; N for Len/DistLen; nothing for Close.
type Output struct {
	Val int
	OK  bool
	Err ErrKind
	N   int
}

func OutErr(e ErrKind) Output         { return Output{Err: e} }
func OutRemove(v int, ok bool) Output { return norm(Remove, Output{Val: v, OK: ok}) }
func OutWait(v int, e ErrKind) Output { return norm(Wait, Output{Val: v, Err: e}) }
func OutLen(n int) Output             { return Output{N: n} }

// norm clears the fields that carry no information for the operation.
func norm(k Kind, o Output) Output {
	switch k {
	case Add, BlockingAdd, Send:
		return Output{Err: o.Err}
	case Remove:
		if !o.OK {
			return Output{}
		}
		return Output{Val: o.Val, OK: true}
	case Wait, Receive:
		if o.Err != OK {
			return Output{Err: o.Err}
		}
		return Output{Val: o.Val}
	case Len, DistLen:
		return Output{N: o.N}
	}
	return Output{}
}

// Format renders an output of the given kind.
func (o Output) Format(k Kind) string {
	switch k {
	case Add, BlockingAdd, Send:
		return o.Err.String()
	case Remove:
		if !o.OK {
			return "(_, false)"
		}
		return fmt.Sprintf("(%d, true)", o.Val)
	case Wait, Receive:
		if o.Err != OK {
			return fmt.Sprintf("(_, %v)", o.Err)
		}
		return fmt.Sprintf("(%d, nil)", o.Val)
	case Len, DistLen:
		return fmt.Sprint(o.N)
	}
	return "-"
}

// Apply is the sequential specification for a caller whose context never
// ends. If the operation cannot complete in state s (Wait/Receive on an open
// empty queue, BlockingAdd while nothing can be admitted) it reports
// blocks=true and leaves the state alone.
func Apply(s State, in Input) (next State, out Output, blocks bool) {
	switch in.Kind {
	case Add, Send:
		if e := s.Admit(); e != OK {
			return s, OutErr(e), false
		}
		return s.push(in.Val), OutErr(OK), false

	case BlockingAdd:
		// "attempts to add an item to the queue, as with Add, but if the queue is
		// full, blocks until the queue has capacity, is closed, or the context is
		// canceled."
		switch e := s.Admit(); e {
		case OK:
			return s.push(in.Val), OutErr(OK), false
		case ErrClosed:
			return s, OutErr(ErrClosed), false
		default:
			// ErrFull: blocks. UNCLEAR for ErrNoCredit (below the hard limit, no
			// credit): "as with Add" suggests returning ErrQueueNoCredit, "blocks
			// until the queue has capacity" suggests waiting. The model waits;
			// Step additionally accepts an immediate ErrQueueNoCredit.
			return s, Output{}, true
		}

	case Remove:
		if len(s.Items) == 0 {
			return s, OutRemove(0, false), false
		}
		n, v := s.pop()
		return n, OutRemove(v, true), false

	case Wait, Receive:
		// "items that were added to the queue prior to closing will still be
		// available for Remove and Wait. Wait will report an error without
		// blocking if it is called on a closed, empty queue."
		if len(s.Items) > 0 {
			n, v := s.pop()
			return n, OutWait(v, OK), false
		}
		if s.Closed {
			return s, OutWait(0, ErrClosed), false
		}
		return s, Output{}, true

	case Len, DistLen:
		return s, OutLen(len(s.Items)), false

	case Close:
		n := s.Clone()
		n.Closed = true
		return n, Output{}, false
	}
	panic("model: unknown operation")
}

// Step is the porcupine step function: it reports whether observing out for
// in is legal in state s and returns the state afterwards.
//
//   - An operation that reports a context error is legal in every state and
//     has no effect (whether the context had really ended is for the caller to
//     know; only context-taking operations may report one).
//   - An operation that would block in s cannot take effect in s (porcupine
//     then tries to linearize it later).
//   - Otherwise the output must equal the sequential specification.
func Step(s State, in Input, out Output) (bool, State) {
	out = norm(in.Kind, out)
	if out.Err == ErrCtx {
		return in.Kind.TakesContext(), s
	}
	if in.Kind == BlockingAdd && out.Err == ErrNoCredit {
		return s.Admit() == ErrNoCredit, s // see UNCLEAR in Apply
	}
	next, want, blocks := Apply(s, in)
	if blocks {
		return false, s
	}
	if want != out {
		return false, s
	}
	return true, next
}

// Queue is a mutable wrapper around State for harnesses that want an object.
type Queue struct{ S State }

// NewQueue builds the model queue for the options.
func NewQueue(o Options) (*Queue, error) {
	s, err := New(o)
	if err != nil {
		return nil, err
	}
	return &Queue{S: s}, nil
}

func (q *Queue) do(in Input) (Output, bool) {
	n, out, blocks := Apply(q.S, in)
	q.S = n
	return out, blocks
}

// Add enqueues v or says why not.
func (q *Queue) Add(v int) ErrKind { o, _ := q.do(Input{Kind: Add, Val: v}); return o.Err }

// BlockingAdd is Add, except that it reports blocks=true (and does nothing)
// where the real call would have to wait.
func (q *Queue) BlockingAdd(v int) (err ErrKind, blocks bool) {
	o, b := q.do(Input{Kind: BlockingAdd, Val: v})
	return o.Err, b
}

// Remove dequeues the oldest item.
func (q *Queue) Remove() (int, bool) { o, _ := q.do(Input{Kind: Remove}); return o.Val, o.OK }

// Wait dequeues the oldest item, reports ErrClosed on a closed empty queue
// and blocks=true on an open empty queue.
func (q *Queue) Wait() (v int, err ErrKind, blocks bool) {
	o, b := q.do(Input{Kind: Wait})
	return o.Val, o.Err, b
}

// Len is the number of queued items.
func (q *Queue) Len() int { return q.S.Len() }

// Close closes the queue.
func (q *Queue) Close() { q.do(Input{Kind: Close}) }

// Clone, Equal and Key delegate to the state.
func (q *Queue) Clone() *Queue       { return &Queue{S: q.S.Clone()} }
func (q *Queue) Equal(o *Queue) bool { return q.S.Equal(o.S) }
func (q *Queue) Key() string         { return q.S.Key() }
func (q *Queue) String() string      { return q.S.Key() }
func (q *Queue) Contents() []int     { return append([]int(nil), q.S.Items...) }
