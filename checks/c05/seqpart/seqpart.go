// Package seqpart is the sequential-conformance half of C05: bounded
// exhaustive exploration (verif/seq, BFS over operation histories) of the real
// pubsub.Queue and its Distributor against the reference model in
// verif/checks/c05/model.
//
// Oracle (letter of the C05 statement, sequential case): after every
// operation the returned value / error class equals the model's; Len equals
// the number of queued items and never exceeds the hard limit; items come out
// in FIFO order, each once; Add fails with ErrQueueFull at the hard limit,
// ErrQueueNoCredit above the soft quota without burst credit, ErrQueueClosed
// after Close; items queued before Close stay removable; Wait on a closed
// empty queue reports ErrQueueClosed; an operation that returns a context
// error has no effect.
//
// Determinism: the credit system in pubsub/tracker.go is a pure function of
// the add/remove sequence (credit accrues on Remove by (soft-len)/soft, it is
// not replenished by wall-clock time), so nothing asserted here depends on
// time. Real time is used only by the hang guard (verif/checks/c05/guard).
//
// Canonical state key = model state (contents, closed, current soft quota,
// credit rounded to 1e-6) + the real tracker's (length, softQuota, credit)
// read by reflection. Why later behaviour depends on nothing else: the real
// queue's state is its linked list (compared with the model contents after
// every history by draining the object, which is discarded afterwards), the
// closed flag (only set by Close, mirrored by the model), the tracker triple,
// and condition variables without waiters (the harness is sequential; every
// call has returned before the next starts). The tracker triple is hidden, so
// it is made part of the key: two histories are merged only if the model
// states AND the real hidden states agree, hence a divergence of the hidden
// state that is not yet observable cannot be lost by merging. If the fields
// cannot be read (renamed), the key falls back to the model state alone and
// the evidence says so (hidden_state_in_key=false).
package seqpart

import (
	"context"
	"encoding/json"
	"errors"
	"fmt"
	"os"
	"sort"
	"sync/atomic"
	"time"

	"github.com/tychoish/fun/pubsub"

	"verif/checks/c05/guard"
	"verif/checks/c05/model"
	"verif/rep"
	"verif/seq"
)

// ---------------------------------------------------------------- alphabet

type ctxMode int

const (
	noCtx        ctxMode = iota // operation takes no context (or ignores it: Send)
	ctxAuto                     // live context when the model says the call completes, cancelled one when it says it must wait
	ctxCancelled                // always an already-cancelled context
)

type opDef struct {
	name string // history / replay name
	tag  string // signature tail
	in   model.Input
	ctx  ctxMode
}

var alphabet = []opDef{
	{"Add(1)", "Add", model.Input{Kind: model.Add, Val: 1}, noCtx},
	{"Add(2)", "Add", model.Input{Kind: model.Add, Val: 2}, noCtx},
	{"Remove", "Remove", model.Input{Kind: model.Remove}, noCtx},
	{"Len", "Len", model.Input{Kind: model.Len}, noCtx},
	{"Close", "Close", model.Input{Kind: model.Close}, noCtx},
	{"Wait", "Wait", model.Input{Kind: model.Wait}, ctxAuto},
	{"Wait[cancelled-ctx]", "Wait", model.Input{Kind: model.Wait}, ctxCancelled},
	{"BlockingAdd(1)", "BlockingAdd", model.Input{Kind: model.BlockingAdd, Val: 1}, ctxAuto},
	{"BlockingAdd(2)[cancelled-ctx]", "BlockingAdd", model.Input{Kind: model.BlockingAdd, Val: 2}, ctxCancelled},
	{"Dist.Send(1)", "Send", model.Input{Kind: model.Send, Val: 1}, noCtx},
	{"Dist.Receive", "Receive", model.Input{Kind: model.Receive}, ctxAuto},
	{"Dist.Len", "DistLen", model.Input{Kind: model.DistLen}, noCtx},
}

// option sets: the unlimited queue and (hard, soft, credit) triples, all valid
// for QueueOptions.Validate (hard > 0, hard >= soft, credit >= 0). A zero
// credit is replaced by the soft quota by Validate ((1,1,0) starts with
// credit 1, (2,2,0) with 2), as documented on QueueOptions.BurstCredit.
var optionSets = []model.Options{
	{Unlimited: true},
	{HardLimit: 1, SoftQuota: 1, BurstCredit: 0},
	{HardLimit: 2, SoftQuota: 1, BurstCredit: 1},
	{HardLimit: 2, SoftQuota: 2, BurstCredit: 0},
	{HardLimit: 3, SoftQuota: 1, BurstCredit: 2},
	{HardLimit: 3, SoftQuota: 2, BurstCredit: 0.5},
	{HardLimit: 4, SoftQuota: 2, BurstCredit: 1},
	// soft quota == hard limit (also what a configuration with only a hard limit
	// defaults to): no room for bursts at the start, but the quota adapts downwards
	// once the queue drains and later Adds above it have to be paid with credit
	{HardLimit: 3, SoftQuota: 3, BurstCredit: 0},
	{HardLimit: 4, SoftQuota: 4, BurstCredit: 0},
	{HardLimit: 4},
}

// thoroughExtra are added in the thorough tier.
var thoroughExtra = []model.Options{
	{HardLimit: 4, SoftQuota: 1, BurstCredit: 3},
	{HardLimit: 4, SoftQuota: 3, BurstCredit: 1},
	{HardLimit: 5, SoftQuota: 2, BurstCredit: 1.5},
	{HardLimit: 5, SoftQuota: 3, BurstCredit: 2},
}

// boundedDepth stops the exploration of a bounded queue that has not closed
// its state space by then (none of the option sets here gets near it).
const boundedDepth = 30

// ---------------------------------------------------------------- real side

type realQ struct {
	q *pubsub.Queue[int]
	d pubsub.Distributor[int]
}

func newReal(o model.Options) (*realQ, error) {
	var q *pubsub.Queue[int]
	if o.Unlimited {
		q = pubsub.NewUnlimitedQueue[int]()
	} else {
		var err error
		q, err = pubsub.NewQueue[int](pubsub.QueueOptions{HardLimit: o.HardLimit, SoftQuota: o.SoftQuota, BurstCredit: o.BurstCredit})
		if err != nil {
			return nil, err
		}
	}
	return &realQ{q: q, d: q.Distributor()}, nil
}

func classify(err error) model.ErrKind {
	switch {
	case err == nil:
		return model.OK
	case errors.Is(err, context.Canceled), errors.Is(err, context.DeadlineExceeded):
		return model.ErrCtx
	case errors.Is(err, pubsub.ErrQueueFull):
		return model.ErrFull
	case errors.Is(err, pubsub.ErrQueueNoCredit):
		return model.ErrNoCredit
	case errors.Is(err, pubsub.ErrQueueClosed):
		return model.ErrClosed
	}
	return model.ErrOther
}

var cancelledCtx = func() context.Context {
	c, cancel := context.WithCancel(context.Background())
	cancel()
	return c
}()

// call performs one operation on the real queue.
func (rq *realQ) call(ctx context.Context, in model.Input) model.Output {
	switch in.Kind {
	case model.Add:
		return model.OutErr(classify(rq.q.Add(in.Val)))
	case model.BlockingAdd:
		return model.OutErr(classify(rq.q.BlockingAdd(ctx, in.Val)))
	case model.Remove:
		return model.OutRemove(rq.q.Remove())
	case model.Wait:
		v, err := rq.q.Wait(ctx)
		return model.OutWait(v, classify(err))
	case model.Len:
		return model.OutLen(rq.q.Len())
	case model.Close:
		_ = rq.q.Close()
		return model.Output{}
	case model.Send:
		return model.OutErr(classify(rq.d.Send(ctx, in.Val)))
	case model.Receive:
		v, err := rq.d.Receive(ctx)
		return model.OutWait(v, classify(err))
	case model.DistLen:
		return model.OutLen(rq.d.Len())
	}
	panic("unknown op")
}

// ---------------------------------------------------------------- one history

type detail struct {
	Step     int    `json:"failing_step"`
	Op       string `json:"op"`
	Ctx      string `json:"ctx,omitempty"`
	Expected string `json:"expected"`
	Got      string `json:"got"`
	Before   string `json:"model_state_before"`
	Note     string `json:"note,omitempty"`
}

func (d detail) json() string { b, _ := json.Marshal(d); return string(b) }

type spec struct {
	opt       model.Options
	evals     atomic.Int64
	hiddenOK  atomic.Bool
	hiddenDiv atomic.Int64 // histories after which the real hidden tracker differs from the model's
	mon       *guard.Monitor
}

func (sp *spec) run(hist []int) (res seq.Result) {
	id := sp.mon.Begin(sp.opt.String(), hist)
	defer sp.mon.End(id)

	rq, err := newReal(sp.opt)
	m, merr := model.New(sp.opt)
	if err != nil || merr != nil {
		return seq.Result{Fail: "constructor-mismatch", Info: detail{Op: "NewQueue", Expected: "valid options accepted", Got: fmt.Sprint(err, merr)}.json()}
	}
	lastCtxErr := false
	lastTag := "init"
	for i, op := range hist {
		od := alphabet[op]
		fail, d, ctxErr := sp.step(rq, &m, od)
		if fail != "" {
			d.Step = i
			return seq.Result{Fail: fail, Info: d.json()}
		}
		lastCtxErr, lastTag = ctxErr, od.tag
	}

	key := m.Key()
	if h := guard.TrackerState(rq.q); h != "" {
		sp.hiddenOK.Store(true)
		key += " | real " + h
		if !sp.opt.Unlimited {
			if want := fmt.Sprintf("length=%d,softQuota=%d,credit=%.6f", m.Len(), m.Soft, m.Credit+0); want != h {
				sp.hiddenDiv.Add(1)
			}
		}
	}

	// Contents: drain the real object (it is thrown away after this history).
	// Remove works on a closed queue as well ("items queued before Close
	// remain removable").
	var got []int
	for i := 0; i <= len(m.Items)+2; i++ {
		v, ok := rq.q.Remove()
		if !ok {
			break
		}
		got = append(got, v)
	}
	if fmt.Sprint(got) != fmt.Sprint(append([]int{}, m.Items...)) {
		d := detail{Step: len(hist) - 1, Op: "drain by Remove after the history", Expected: fmt.Sprint(m.Items), Got: fmt.Sprint(got), Before: m.Key()}
		if lastCtxErr {
			return seq.Result{Fail: "effect-after-ctx-error/" + lastTag, Info: d.json()}
		}
		return seq.Result{Fail: "contents-mismatch/" + lastTag, Info: d.json()}
	}
	return seq.Result{Key: key}
}

// step executes one operation on the real queue and on the model and compares.
func (sp *spec) step(rq *realQ, m *model.State, od opDef) (fail string, d detail, ctxErr bool) {
	sp.evals.Add(1)
	_, want, blocks := model.Apply(*m, od.in)
	d = detail{Op: od.name, Before: m.Key(), Expected: want.Format(od.in.Kind)}
	if blocks {
		d.Expected = "must wait (so: context error with the cancelled ctx, no effect)"
	}

	cancelled := od.ctx == ctxCancelled || (od.ctx == ctxAuto && blocks)
	// BlockingAdd above the soft quota but below the hard limit, with burst
	// credit available: a plain Add would succeed, the real BlockingAdd waits
	// because it compares the length with the soft quota. The statements (C05
	// "Add fails exactly when ...", C07 "completes whenever there is free
	// capacity") do not settle whether that is free capacity, so neither
	// behaviour is asserted: the call is made with a cancelled context, for
	// which the oracle accepts the normal result or a context error without
	// effect.
	if od.in.Kind == model.BlockingAdd && !blocks && !m.Opt.Unlimited && !m.Closed && m.Len() >= m.Soft {
		cancelled = true
	}
	var got model.Output
	switch {
	case od.ctx == noCtx:
		// lock-only operations; a panic is turned into a violation
		var p any
		func() {
			defer func() { p = recover() }()
			got = rq.call(context.Background(), od.in)
		}()
		if p != nil {
			d.Got = fmt.Sprint("panic: ", p)
			return "panic/" + od.tag, d, false
		}
	default:
		d.Ctx = "live"
		if cancelled {
			d.Ctx = "already cancelled"
		}
		out := guard.Call("queue/blocked-although-satisfied/"+od.tag, func(ctx context.Context) {
			if cancelled {
				ctx = cancelledCtx
			}
			got = rq.call(ctx, od.in)
		})
		switch {
		case out.Panic != nil:
			d.Got = fmt.Sprint("panic: ", out.Panic)
			return "panic/" + od.tag, d, false
		case out.Verdict == guard.Stuck:
			d.Got = fmt.Sprintf("did not return within %v after its context was cancelled", guard.StuckTimeout)
			return "stuck-after-cancel/" + od.tag, d, false
		case out.Verdict == guard.Blocked && cancelled:
			d.Got = fmt.Sprintf("did not return for %v although its context was already cancelled", out.Waited.Round(time.Millisecond))
			return "blocked-with-cancelled-ctx/" + od.tag, d, false
		case out.Verdict == guard.Blocked:
			d.Got = fmt.Sprintf("blocked (no return for %v, parked in sync.Cond.Wait=%v); returned %s only after the harness cancelled the context",
				out.Waited.Round(time.Millisecond), out.Parked, got.Format(od.in.Kind))
			return "blocked-although-satisfied/" + od.tag, d, false
		}
	}
	d.Got = got.Format(od.in.Kind)
	ctxErr = got.Err == model.ErrCtx

	if ctxErr && !cancelled {
		d.Note = "context error although the context was never cancelled"
		return "result-mismatch/" + od.tag, d, ctxErr
	}
	if cancelled && !blocks && !ctxErr {
		d.Expected += " or a context error without effect"
	}
	legal, after := model.Step(*m, od.in, got)
	if !legal {
		popKind := od.in.Kind == model.Wait || od.in.Kind == model.Receive || (od.in.Kind == model.Remove && got.OK && want.OK)
		if popKind && !blocks && got.Err == model.OK && want.Err == model.OK && got.Val != want.Val {
			return "fifo-order/" + od.tag, d, ctxErr
		}
		return "result-mismatch/" + od.tag, d, ctxErr
	}
	*m = after

	// Len is exact and bounded by the hard limit.
	n := rq.q.Len()
	if n != m.Len() {
		d.Note = fmt.Sprintf("Len()=%d after the operation, model holds %d items", n, m.Len())
		if ctxErr {
			return "effect-after-ctx-error/" + od.tag, d, ctxErr
		}
		return "len-mismatch", d, ctxErr
	}
	if !sp.opt.Unlimited && n > sp.opt.HardLimit {
		d.Note = fmt.Sprintf("Len()=%d exceeds the hard limit %d", n, sp.opt.HardLimit)
		return "len-exceeds-hard-limit", d, ctxErr
	}
	return "", d, ctxErr
}

// ---------------------------------------------------------------- driver

// Run explores every option set up to the tier's depth.
func Run(r *rep.Report, tier string) {
	depth, budget := 7, 45*time.Second
	if tier == "thorough" {
		depth, budget = 9, 8*time.Minute
	}
	deadline := time.Now().Add(budget)

	mon := guard.NewMonitor(func(label string, hist []int) {
		h := make([]string, len(hist))
		for i, op := range hist {
			h[i] = alphabet[op].name
		}
		r.Violation("queue/hang", map[string]any{"options": label, "history": h,
			"note": fmt.Sprintf("replaying this history did not finish within %v (a lock-only operation never returned)", guard.HangLimit)})
		os.Exit(r.Finish())
	})
	defer mon.Stop()

	type found struct {
		f   seq.Failure
		opt model.Options
	}
	best := map[string]found{}
	exhaustive := true
	hiddenInKey := true
	shortfalls := []string{}
	var perOpt []string

	sets := optionSets
	if tier == "thorough" {
		sets = append(append([]model.Options{}, sets...), thoroughExtra...)
	}
	for _, o := range sets {
		sp := &spec{opt: o, mon: mon}
		// The unlimited queue has an unbounded state space: explored to the
		// tier's depth. A bounded queue has a finite one (contents over {1,2} up
		// to the hard limit x closed x finitely many quota/credit values) that
		// closes after 5-20 levels for the option sets used here, so it is
		// explored until the frontier is empty (boundedDepth is only a stop).
		maxDepth := depth
		if !o.Unlimited {
			maxDepth = boundedDepth
		}
		st := seq.Explore(seq.Spec{
			Name:     "queue{" + o.String() + "}",
			NumOps:   len(alphabet),
			OpName:   func(op int) string { return alphabet[op].name },
			Run:      sp.run,
			MaxDepth: maxDepth,
			Deadline: deadline,
		})
		r.Add("states", st.States)
		r.Add("transitions", st.Transitions)
		r.Add("traces_validated_against_impl", st.Transitions)
		r.Add("distinct_nontrivial", st.States)
		r.Add("evaluations", int(sp.evals.Load()))
		r.Add("hidden_tracker_divergences", int(sp.hiddenDiv.Load()))
		if !st.Exhaustive {
			exhaustive = false
		}
		if !st.Exhaustive {
			shortfalls = append(shortfalls, fmt.Sprintf("%s: deadline hit, depth %d completed", o, st.Depth))
		}
		if !sp.hiddenOK.Load() {
			hiddenInKey = false
		}
		closed := st.Exhaustive && st.Depth < maxDepth
		perOpt = append(perOpt, fmt.Sprintf("%s: states=%d transitions=%d depth=%d/%d exhaustive=%v state_space_closed=%v", o, st.States, st.Transitions, st.Depth, maxDepth, st.Exhaustive, closed))
		for i, s := range st.Sample {
			if i < 1 || (i == len(st.Sample)-1 && len(perOpt) <= 4) {
				r.Sample(o.String() + ": " + s)
			}
		}
		for _, f := range st.Failures {
			if cur, ok := best[f.Fail]; !ok || len(f.History) < len(cur.f.History) {
				best[f.Fail] = found{f, o}
			}
		}
	}

	sigs := make([]string, 0, len(best))
	for s := range best {
		sigs = append(sigs, s)
	}
	sort.Strings(sigs)
	for _, s := range sigs {
		b := best[s]
		var d any
		var dd detail
		if json.Unmarshal([]byte(b.f.Info), &dd) == nil {
			d = dd
		} else {
			d = b.f.Info
		}
		r.Violation("queue/"+s, map[string]any{
			"object":  "pubsub.Queue[int] + Distributor",
			"options": b.opt.String(),
			"history": b.f.History,
			"detail":  d,
		})
	}

	slow, fast := guard.Counts()
	r.Set("exhaustive", exhaustive)
	r.Set("seq_exhaustive", exhaustive)
	r.Set("seq_depth_unlimited_queue", depth)
	r.Set("seq_depth_bounded_queues", fmt.Sprintf("until the state space is closed (stop at %d)", boundedDepth))
	r.Set("seq_deadline_shortfalls", shortfalls)
	r.Set("seq_option_sets", perOpt)
	r.Set("hidden_state_in_key", hiddenInKey)
	r.Set("blocked_verdicts_2s_rule", int(slow))
	r.Set("blocked_verdicts_parked_rule", int(fast))
	r.Set("rule", "sequential conformance: BFS over all operation histories (unlimited queue: up to seq_depth_unlimited_queue; bounded queues: until no new state appears) from {Add 1|2, Remove, Len, Close, Wait (live when non-empty or closed, cancelled ctx otherwise), Wait with cancelled ctx, BlockingAdd (live when admissible, cancelled ctx otherwise), BlockingAdd with cancelled ctx, Distributor Send/Receive/Len} for the option sets listed in seq_option_sets; states merged by (model state, real tracker triple); each history replayed on a fresh real queue and compared with the reference model operation by operation, then drained and compared item by item")
}
