package seqpart

import (
	"fmt"
	"strings"
	"time"

	"github.com/tychoish/fun/dt"

	"verif/seq"
)

// Stack S (under test) and T (only there so that "belongs to another stack"
// can be expressed). Model: ids top first.

type item = dt.Item[int]

type sworld struct {
	S   [2]*dt.Stack[int]
	h   []*item
	ids map[*item]int
	m   []mElem
	seq [2][]int // top first
	det []int
}

func newSWorld() *sworld {
	return &sworld{S: [2]*dt.Stack[int]{{}, {}}, ids: map[*item]int{}}
}

func (w *sworld) newID(v, loc int, e *item) int {
	id := len(w.m)
	w.m = append(w.m, mElem{val: v, ok: true, loc: loc})
	w.h = append(w.h, e)
	if e != nil {
		w.ids[e] = id
	}
	return id
}

func (w *sworld) vals(si int) []int {
	out := make([]int, len(w.seq[si]))
	for i, id := range w.seq[si] {
		out[i] = w.m[id].val
	}
	return out
}

func (w *sworld) mPush(si, id int) {
	w.seq[si] = append([]int{id}, w.seq[si]...)
	w.m[id].loc = si
	for i, d := range w.det {
		if d == id {
			w.det = append(append([]int{}, w.det[:i]...), w.det[i+1:]...)
			break
		}
	}
}

func (w *sworld) mDetach(id int) {
	si := w.m[id].loc
	for i, x := range w.seq[si] {
		if x == id {
			w.seq[si] = append(append([]int{}, w.seq[si][:i]...), w.seq[si][i+1:]...)
			break
		}
	}
	w.m[id].loc = -1
	w.det = append(w.det, id)
}

type sref struct {
	e  *item
	id int
	si int
}

// selectors reuse skind: kFront = top, kMid = second of >= 3, kBack = bottom of >= 2, kRoot = sentinel.
func ssel(s sel) string {
	n := "S"
	if s.li == 1 {
		n = "T"
	}
	switch s.k {
	case kFront:
		return n + ".top"
	case kMid:
		return n + ".second"
	case kBack:
		return n + ".bottom"
	case kRoot:
		return n + ".root"
	case kDP:
		return "popped"
	case kNil:
		return "nil"
	}
	return fmt.Sprintf("new(%d)", s.v)
}

func (w *sworld) root(si int) *item {
	if n := len(w.seq[si]); n > 0 {
		return w.h[w.seq[si][n-1]].Next()
	}
	return w.S[si].Head()
}

func (w *sworld) resolve(s sel) (sref, bool) {
	q := w.seq[s.li]
	switch s.k {
	case kFront:
		if len(q) >= 1 {
			return sref{w.h[q[0]], q[0], s.li}, true
		}
	case kMid:
		if len(q) >= 3 {
			return sref{w.h[q[1]], q[1], s.li}, true
		}
	case kBack:
		if len(q) >= 2 {
			return sref{w.h[q[len(q)-1]], q[len(q)-1], s.li}, true
		}
	case kRoot:
		if r := w.root(s.li); r != nil {
			return sref{r, idRoot, s.li}, true
		}
	case kDP:
		if n := len(w.det); n > 0 {
			return sref{w.h[w.det[n-1]], w.det[n-1], -1}, true
		}
	case kNil:
		return sref{nil, idNil, -1}, true
	case kNew:
		e := dt.NewItem(s.v)
		return sref{e, w.newID(s.v, -1, e), -1}, true
	}
	return sref{}, false
}

func (w *sworld) locOf(r sref) int {
	switch {
	case r.id == idRoot:
		return r.si
	case r.id >= 0:
		return w.m[r.id].loc
	}
	return -1
}

func walkS(s *dt.Stack[int], bound int) (ptrs []*item, done bool) {
	it := s.Head()
	for i := 0; i <= bound; i++ {
		if !it.Ok() {
			return ptrs, true
		}
		ptrs = append(ptrs, it)
		it = it.Next()
	}
	return ptrs, false
}

func itemValues(p []*item) []int {
	out := make([]int, len(p))
	for i, e := range p {
		out[i] = e.Value()
	}
	return out
}

func (w *sworld) bind() {
	for si := 0; si < 2; si++ {
		need := false
		for _, id := range w.seq[si] {
			if w.h[id] == nil {
				need = true
			}
		}
		if !need {
			continue
		}
		ptrs, _ := walkS(w.S[si], walkBound(len(w.seq[si]), 0))
		for i, id := range w.seq[si] {
			if i < len(ptrs) && w.h[id] == nil {
				w.h[id] = ptrs[i]
				w.ids[ptrs[i]] = id
			}
		}
	}
}

func checkStack(s *dt.Stack[int], want []int, name string, deep bool) (fw []*item, oracle, info string) {
	bound := walkBound(len(want), s.Len())
	fw, done := walkS(s, bound)
	if !done {
		return fw, "walk-mismatch", fmt.Sprintf("%s: Head..Next walk does not end within %d steps, model [%s]", name, bound, csv(want))
	}
	if got := itemValues(fw); !eqInts(got, want) {
		return fw, "walk-mismatch", fmt.Sprintf("%s: Head..Next walk [%s], model (top first) [%s]", name, csv(got), csv(want))
	}
	if s.Len() != len(want) {
		return fw, "len-mismatch", fmt.Sprintf("%s: Len()=%d, model and walk have %d items [%s]", name, s.Len(), len(want), csv(want))
	}
	for i, e := range fw {
		if !e.In(s) {
			return fw, "in-mismatch", fmt.Sprintf("%s: item at depth %d (value %d) of the walk reports In(stack)=false", name, i, e.Value())
		}
	}
	if got, err := s.Iterator().Slice(bg); err != nil || !eqInts(got, want) {
		return fw, "iterator-mismatch", fmt.Sprintf("%s: Iterator() [%s] err=%v, model [%s]", name, csv(got), err, csv(want))
	}
	if !deep {
		return fw, "", ""
	}
	b, err := s.MarshalJSON()
	if err != nil || string(b) != jsonArray(want) {
		return fw, "json-mismatch", fmt.Sprintf("%s: MarshalJSON %q err=%v, model %s", name, b, err, jsonArray(want))
	}
	fresh := &dt.Stack[int]{}
	if err := fresh.UnmarshalJSON(b); err != nil {
		return fw, "json-mismatch", fmt.Sprintf("%s: UnmarshalJSON(%s) into a fresh stack: %v", name, b, err)
	}
	if _, o, i := checkStack(fresh, want, "fresh stack unmarshalled from "+name, false); o != "" {
		return fw, "json-mismatch", i
	}
	// the destructive iterator, on the round-tripped copy (Stack has no Copy)
	got, err := fresh.PopIterator().Slice(bg)
	if err != nil || !eqInts(got, want) {
		return fw, "iterator-mismatch", fmt.Sprintf("PopIterator() on a JSON copy of %s [%s] err=%v, model [%s]", name, csv(got), err, csv(want))
	}
	if _, o, i := checkStack(fresh, nil, "JSON copy of "+name+" after PopIterator", false); o != "" {
		return fw, "iterator-mismatch", i
	}
	return fw, "", ""
}

func (w *sworld) invariants() (oracle, info string) {
	for si := 0; si < 2; si++ {
		name := [2]string{"S", "T"}[si]
		fw, o, i := checkStack(w.S[si], w.vals(si), name, true)
		if o != "" {
			return o, i
		}
		for i, id := range w.seq[si] {
			p := fw[i]
			if w.h[id] == nil {
				if other, dup := w.ids[p]; dup {
					return "element-identity", fmt.Sprintf("%s: depth %d should hold a newly created item but holds handle #%d", name, i, other)
				}
				w.h[id] = p
				w.ids[p] = id
				continue
			}
			if w.h[id] != p {
				return "element-identity", fmt.Sprintf("%s: depth %d (value %d) is not the item object the operations put there (handle #%d)", name, i, p.Value(), id)
			}
		}
		if h := w.S[si].Head(); len(w.seq[si]) == 0 && h.Ok() {
			return "ok-mismatch", name + ": Head() of an empty stack reports Ok()"
		}
	}
	for id, me := range w.m {
		e := w.h[id]
		if e == nil {
			return "element-identity", fmt.Sprintf("handle #%d never became visible", id)
		}
		for si := 0; si < 2; si++ {
			if got, want := e.In(w.S[si]), me.loc == si; got != want {
				return "in-mismatch", fmt.Sprintf("handle #%d (value %d, model: %s): In(%s)=%v", id, me.val, slocName(me.loc), [2]string{"S", "T"}[si], got)
			}
		}
		if me.loc >= 0 && !e.Ok() {
			return "ok-mismatch", fmt.Sprintf("handle #%d is on a stack but reports !Ok()", id)
		}
	}
	// look-ahead by Push+Pop, see lworld.invariants.
	for si := 0; si < 2; si++ {
		name, s, vs := sn(si), w.S[si], w.vals(si)
		s.Push(probe)
		if _, o, i := checkStack(s, append([]int{probe}, vs...), name+" after a further Push", false); o != "" {
			return "not-usable-after", i
		}
		if e := s.Pop(); !e.Ok() || e.Value() != probe || e.In(s) {
			return "not-usable-after", fmt.Sprintf("%s: Push(%d) then Pop() returned Ok=%v value=%d In=%v", name, probe, e.Ok(), e.Value(), e.In(s))
		}
		if _, o, i := checkStack(s, vs, name+" after Push+Pop", false); o != "" {
			return "not-usable-after", i
		}
	}
	return "", ""
}

func slocName(loc int) string {
	if loc < 0 {
		return "detached"
	}
	return "on " + [2]string{"S", "T"}[loc]
}

func (w *sworld) key() string {
	var b strings.Builder
	b.WriteString("S:")
	b.WriteString(csv(w.vals(0)))
	b.WriteString("|T:")
	b.WriteString(csv(w.vals(1)))
	b.WriteString("|D:")
	for i, id := range w.det {
		if i > 0 {
			b.WriteByte(',')
		}
		fmt.Fprint(&b, w.m[id].val)
	}
	return b.String()
}

type sop struct {
	name string
	fn   func(w *sworld) outcome
}

func sn(si int) string { return [2]string{"S", "T"}[si] }

func sopPush(si, v int) sop {
	return sop{fmt.Sprintf("Push(%s,%d)", sn(si), v), func(w *sworld) outcome {
		w.S[si].Push(v)
		w.mPush(si, w.newID(v, si, nil))
		return outcome{applicable: true, class: "Push"}
	}}
}

func sopAppendValues(si int, vs ...int) sop {
	return sop{fmt.Sprintf("Stack.Append(%s,%s)", sn(si), csv(vs)), func(w *sworld) outcome {
		w.S[si].Append(vs...)
		for _, v := range vs {
			w.mPush(si, w.newID(v, si, nil))
		}
		return outcome{applicable: true, class: "Stack.Append"}
	}}
}

func sopPop(si int) sop {
	return sop{fmt.Sprintf("Pop(%s)", sn(si)), func(w *sworld) outcome {
		e := w.S[si].Pop()
		o := outcome{applicable: true, class: "Pop"}
		q := w.seq[si]
		if len(q) == 0 {
			if e.Ok() {
				o.oracle, o.info = "return-value", fmt.Sprintf("Pop on an empty stack returned an item reporting Ok() (value %d)", e.Value())
			}
			return o
		}
		id := q[0]
		want := w.h[id]
		w.mDetach(id)
		switch {
		case !e.Ok():
			o.oracle, o.info = "return-value", fmt.Sprintf("Pop on a stack of %d returned an item that is not Ok()", len(q))
		case e != want:
			o.oracle, o.info = "return-value", fmt.Sprintf("Pop returned value %d, not the top item (value %d, handle #%d)", e.Value(), w.m[id].val, id)
		}
		return o
	}}
}

func sopRemove(s sel) sop {
	return sop{fmt.Sprintf("Item.Remove(%s)", ssel(s)), func(w *sworld) outcome {
		r, ok := w.resolve(s)
		if !ok {
			return na()
		}
		o := outcome{applicable: true, class: "Item.Remove"}
		switch {
		case r.id == idRoot:
			o.class, o.rejected = "Item.Remove-root", true
		case w.m[r.id].loc < 0:
			o.class, o.rejected = "Item.Remove-detached", true
		case w.seq[w.m[r.id].loc][0] == r.id:
			o.class = "Item.Remove-top" // own tag: the head item takes a different path through Remove
		}
		ret := r.e.Remove()
		if o.rejected {
			if ret {
				o.oracle, o.info = "return-value", "Remove returned true for an item that cannot be removed"
			}
			return o
		}
		w.mDetach(r.id)
		if !ret {
			o.oracle, o.info = "return-value", "Remove of an item on the stack returned false"
		}
		return o
	}}
}

func sopItemAppend(rs, as sel) sop {
	return sop{fmt.Sprintf("Item.Append(%s,%s)", ssel(rs), ssel(as)), func(w *sworld) outcome {
		r, ok := w.resolve(rs)
		if !ok {
			return na()
		}
		a, ok := w.resolve(as)
		if !ok {
			return na()
		}
		rl := w.locOf(r)
		o := outcome{applicable: true}
		switch {
		case rl < 0:
			o.class, o.rejected = "Item.Append-detached-receiver", true
		case a.id == idNil || a.id == idRoot || !w.m[a.id].ok:
			o.class, o.rejected = "Item.Append-invalid", true
		case w.m[a.id].loc >= 0:
			o.class, o.rejected = "Item.Append-attached", true
		default:
			o.class = "Item.Append"
		}
		ret := r.e.Append(a.e)
		if o.rejected {
			if ret != r.e {
				o.oracle, o.info = "return-value", "Append did not return the receiver for an argument it must reject"
			}
			return o
		}
		w.mPush(rl, a.id)
		if ret != a.e {
			o.oracle, o.info = "return-value", "Append of a valid detached item did not return that item"
		}
		return o
	}}
}

func sopDrain(si int) sop {
	return sop{fmt.Sprintf("PopIterator(%s)", sn(si)), func(w *sworld) outcome {
		o := outcome{applicable: true, class: "PopIterator"}
		want := w.vals(si)
		got, err := w.S[si].PopIterator().Slice(bg)
		for _, id := range append([]int{}, w.seq[si]...) {
			w.mDetach(id)
		}
		if err != nil || !eqInts(got, want) {
			o.oracle, o.info = "iterator-mismatch", fmt.Sprintf("PopIterator yielded [%s] err=%v, model [%s]", csv(got), err, csv(want))
		}
		return o
	}}
}

func stackAlphabet() []sop {
	S, T := 0, 1
	top := func(si int) sel { return sel{k: kFront, li: si} }
	mid := func(si int) sel { return sel{k: kMid, li: si} }
	bot := func(si int) sel { return sel{k: kBack, li: si} }
	rt := func(si int) sel { return sel{k: kRoot, li: si} }
	dp, nl := sel{k: kDP}, sel{k: kNil}
	nw := func(v int) sel { return sel{k: kNew, v: v} }

	ops := []sop{sopPush(S, 1), sopPush(S, 2), sopPush(S, 3), sopAppendValues(S, 2, 1), sopPush(T, 1), sopPop(S), sopPop(T)}
	for _, s := range []sel{top(S), mid(S), bot(S), rt(S), dp} {
		ops = append(ops, sopRemove(s))
	}
	ops = append(ops,
		sopItemAppend(top(S), nw(3)), sopItemAppend(bot(S), nw(3)), sopItemAppend(rt(S), nw(3)),
		sopItemAppend(top(S), dp), sopItemAppend(rt(S), dp), sopItemAppend(top(T), dp),
		sopItemAppend(dp, nw(3)),
		sopItemAppend(top(S), top(S)), sopItemAppend(top(S), bot(S)), sopItemAppend(bot(S), top(S)),
		sopItemAppend(top(S), top(T)), sopItemAppend(top(T), top(S)),
		sopItemAppend(top(S), rt(S)), sopItemAppend(top(S), nl),
		sopDrain(S),
	)
	return ops
}

func stackSpec(depth int, deadline time.Time) *seq.Spec {
	ops := stackAlphabet()
	sp := &seq.Spec{Name: "stack", NumOps: len(ops), MaxDepth: depth, Deadline: deadline,
		OpName: func(op int) string { return ops[op].name }}
	sp.Run = func(hist []int) (res seq.Result) {
		g := inflight.begin(sp, hist)
		defer inflight.end(g)
		w := newSWorld()
		var o outcome
		stage := "initial"
		defer func() {
			if p := recover(); p != nil {
				cl := o.class
				if cl == "" {
					cl = stage
				}
				res = seq.Result{Fail: "panic/" + cl, Info: fmt.Sprintf("panic in %s: %v", stage, p)}
			}
		}()
		for i, op := range hist {
			stage = ops[op].name
			o = outcome{}
			if j := strings.IndexByte(stage, '('); j > 0 {
				o.class = stage[:j]
			}
			o = ops[op].fn(w)
			if !o.applicable {
				return seq.Result{}
			}
			if i < len(hist)-1 {
				w.bind()
			}
		}
		if len(hist) > 0 {
			applied.Add(1)
			stage = "observation after " + stage
		}
		invO, invI := w.invariants()
		if o.class == "" {
			o.class = "initial"
		}
		if f := failOf(o, invO); f != "" {
			info := o.info
			if invO != "" && (o.oracle == "" || o.rejected) {
				info = invI
			}
			return seq.Result{Fail: f, Info: info}
		}
		return seq.Result{Key: w.key() + unmerged(hist)}
	}
	return sp
}
