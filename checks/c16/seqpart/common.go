// Package seqpart is the C16 check: dt.List and dt.Stack explored as explicit
// state machines (verif/seq, BFS over operation histories) against a plain
// slice model. See list.go and stack.go for the two state spaces.
package seqpart

import (
	"context"
	"fmt"
	"os"
	"strings"
	"sync"
	"sync/atomic"
	"time"

	"verif/rep"
	"verif/seq"
)

var bg = context.Background()

// outcome of applying one operation of the alphabet to a world.
type outcome struct {
	applicable bool   // false: the selectors have no referent in this state (not a transition)
	class      string // operation class = last component of the signature
	rejected   bool   // the operation is documented as rejected in this state
	oracle     string // "" = operation-specific expectations held
	info       string
}

func na() outcome { return outcome{} }

// ---------------------------------------------------------------------------
// hang guard: a library call that never returns cannot be interrupted from
// inside Go, so every replay registers itself and a watchdog turns a replay
// that runs for longer than hangLimit into a violation and ends the process
// through the normal reporting path.

const hangLimit = 30 * time.Second

type flight struct {
	start time.Time
	spec  *seq.Spec
	hist  []int
}

type guard struct {
	mu   sync.Mutex
	next uint64
	m    map[uint64]flight
}

var inflight = &guard{m: map[uint64]flight{}}

func (g *guard) begin(sp *seq.Spec, hist []int) uint64 {
	g.mu.Lock()
	g.next++
	id := g.next
	g.m[id] = flight{time.Now(), sp, hist}
	g.mu.Unlock()
	return id
}

func (g *guard) end(id uint64) {
	g.mu.Lock()
	delete(g.m, id)
	g.mu.Unlock()
}

func (g *guard) watch(r *rep.Report, stop <-chan struct{}) {
	t := time.NewTicker(time.Second)
	defer t.Stop()
	for {
		select {
		case <-stop:
			return
		case <-t.C:
		}
		g.mu.Lock()
		for _, f := range g.m {
			if time.Since(f.start) > hangLimit {
				names := make([]string, len(f.hist))
				for i, op := range f.hist {
					names[i] = f.spec.OpName(op)
				}
				last := "initial"
				if len(names) > 0 {
					last = names[len(names)-1]
					if i := strings.IndexByte(last, '('); i > 0 {
						last = last[:i]
					}
				}
				r.Violation(f.spec.Name+"/hang/"+last, map[string]any{"spec": f.spec.Name, "ops": names,
					"info": fmt.Sprintf("replay did not return within %s (library call loops forever)", hangLimit)})
				r.Set("exhaustive", false)
				g.mu.Unlock()
				os.Exit(r.Finish())
			}
		}
		g.mu.Unlock()
	}
}

// ---------------------------------------------------------------------------

var applied atomic.Int64 // applicable transitions executed and compared with the model

func eqInts(a, b []int) bool {
	if len(a) != len(b) {
		return false
	}
	for i := range a {
		if a[i] != b[i] {
			return false
		}
	}
	return true
}

func reversed(a []int) []int {
	out := make([]int, len(a))
	for i := range a {
		out[len(a)-1-i] = a[i]
	}
	return out
}

func csv(a []int) string {
	var b strings.Builder
	for i, v := range a {
		if i > 0 {
			b.WriteByte(',')
		}
		fmt.Fprint(&b, v)
	}
	return b.String()
}

func jsonArray(a []int) string { return "[" + csv(a) + "]" }

// unmergedDepth: histories up to this length are never merged with another
// history, whatever the model state. The canonical key only contains what the
// model knows; implementation state the model has no notion of (lazily
// initialised sentinels, stale links of detached elements) is thereby still
// explored for every short history, in particular for every order of the first
// operations on a container that has never been touched.
const unmergedDepth = 2

func unmerged(hist []int) string {
	if len(hist) == 0 || len(hist) > unmergedDepth {
		return ""
	}
	return fmt.Sprint("#", hist)
}

// failure string of a finished transition: "<oracle>/<class>". Rejected
// operations get their own oracle tags so that "the guard is missing" is one
// signature whatever part of the structure it happens to corrupt first.
func failOf(o outcome, invOracle string) string {
	switch {
	case o.rejected && invOracle != "":
		return "rejected-op-mutated/" + o.class
	case o.rejected && o.oracle != "":
		return "rejected-op-not-reported/" + o.class
	case o.oracle != "":
		return o.oracle + "/" + o.class
	case invOracle != "":
		return invOracle + "/" + o.class
	}
	return ""
}

// Run explores both state spaces and reports.
func Run(r *rep.Report, tier string) {
	depth, budget := 5, 50*time.Second
	if tier == "thorough" {
		depth, budget = 7, 9*time.Minute
	}
	start := time.Now()
	stop := make(chan struct{})
	go inflight.watch(r, stop)
	defer close(stop)

	exhaustive := true
	report := func(sp *seq.Spec, st seq.Stats) {
		for _, f := range st.Failures {
			r.Violation(sp.Name+"/"+f.Fail, map[string]any{"spec": sp.Name, "ops": f.History, "info": f.Info})
		}
		r.Add("states", st.States)
		r.Add("transitions_including_inapplicable", st.Transitions)
		r.Set(sp.Name+"_states", st.States)
		r.Set(sp.Name+"_depth_completed", st.Depth)
		r.Set(sp.Name+"_alphabet", sp.NumOps)
		if !st.Exhaustive {
			exhaustive = false
		}
		for _, s := range st.Sample {
			r.Sample(sp.Name + ": " + s)
		}
	}

	// the stack space is small: give it at most a fifth of the budget.
	ss := stackSpec(depth, start.Add(budget/5))
	report(ss, seq.Explore(*ss))
	ls := listSpec(depth, start.Add(budget))
	report(ls, seq.Explore(*ls))

	n := int(applied.Load())
	r.Add("transitions", n)
	r.Add("traces_validated_against_impl", n)
	r.Add("evaluations", n)
	cur, _ := r.Coverage["states"].(int)
	r.Set("distinct_nontrivial", cur)
	r.Set("max_depth", depth)
	r.Set("exhaustive", exhaustive)
	r.Set("rule", "BFS over operation histories on one or two real containers replayed from scratch; after every "+
		"transition forward walk = reverse(backward walk) = Slice = Iterator = Reverse = PopIterator/PopReverse (on a Copy, "+
		"and on the list itself as a transition) = Copy = JSON round trip = slice model, Len, In/Ok of every handle ever "+
		"returned, element identity per position; rejected operations must return their 'rejected' value and leave both "+
		"containers equal to the unchanged model. States merged on (values per container, detached handles in order of "+
		"detachment, a dropped handle exists).")
	r.Assume = append(r.Assume,
		"List.Extend(self) is excluded: with a slice model it has no meaning and the implementation loops forever by construction",
		"Element.Set on a detached element is excluded: the doc comment (fails) and UnmarshalJSON's own use of it (must succeed) disagree and the statement does not list it",
		"nil is used as an argument handle (Append(nil), Swap(nil)); nil receivers of Remove/Drop/In only nil-dereference and are excluded",
		"Swap with the root is modelled as the exchange of two positions of the cyclic sequence root,e1..en (signature tag Swap-root)",
		"sorting and Swap move element objects (handles keep their identity); the order SortMerge/SortQuick give to equal values is adopted from the implementation (stability is C17)",
		"Stack: Detach/Attach/Set are not in the statement and are left out; Item.Append is modelled as the code does it (push on top of the owning stack); UnmarshalJSON is only used into a fresh stack (round trip)",
		"a state is not expanded further once an oracle failed in it",
	)
}
