package seqpart

import (
	"fmt"
	"sort"
	"strings"
	"time"

	"github.com/tychoish/fun/dt"
	"github.com/tychoish/fun/dt/cmp"

	"verif/seq"
)

// ---------------------------------------------------------------------------
// world = two real lists + handle table + reference model

type elem = dt.Element[int]

type mElem struct {
	val int
	ok  bool
	loc int // 0/1 = member of that list, -1 = not a member of any list
}

type lworld struct {
	L   [2]*dt.List[int]
	h   []*elem       // handle table: id -> real element (nil = created by the library, not yet bound)
	ids map[*elem]int // reverse of h
	m   []mElem       // model of every element ever created
	seq [2][]int      // model: ids in list order
	det []int         // ids that were popped/removed and are still valid (Ok) and detached, oldest first
	drp []int         // ids that were dropped (detached, !Ok)
}

func newLWorld() *lworld {
	return &lworld{L: [2]*dt.List[int]{{}, {}}, ids: map[*elem]int{}}
}

func (w *lworld) newID(v, loc int, e *elem) int {
	id := len(w.m)
	w.m = append(w.m, mElem{val: v, ok: true, loc: loc})
	w.h = append(w.h, e)
	if e != nil {
		w.ids[e] = id
	}
	return id
}

func (w *lworld) vals(li int) []int {
	out := make([]int, len(w.seq[li]))
	for i, id := range w.seq[li] {
		out[i] = w.m[id].val
	}
	return out
}

func (w *lworld) index(id int) int {
	for i, x := range w.seq[w.m[id].loc] {
		if x == id {
			return i
		}
	}
	return -1
}

// mDetach removes id from its list in the model.
func (w *lworld) mDetach(id int) {
	li := w.m[id].loc
	i := w.index(id)
	w.seq[li] = append(append([]int{}, w.seq[li][:i]...), w.seq[li][i+1:]...)
	w.m[id].loc = -1
}

// mInsert puts id at position pos of list li.
func (w *lworld) mInsert(li, pos, id int) {
	s := w.seq[li]
	out := make([]int, 0, len(s)+1)
	out = append(out, s[:pos]...)
	out = append(out, id)
	out = append(out, s[pos:]...)
	w.seq[li] = out
	w.m[id].loc = li
	for i, d := range w.det {
		if d == id {
			w.det = append(append([]int{}, w.det[:i]...), w.det[i+1:]...)
			break
		}
	}
}

// ---------------------------------------------------------------------------
// handle selectors

type skind int

const (
	kFront skind = iota // first element of list li
	kMid                // second element of list li when it has >= 3 elements
	kBack               // last element of list li when it has >= 2 elements
	kMid2               // last but one element of list li when it has >= 4 elements
	kRoot               // the sentinel of list li
	kDP                 // most recently popped/removed element that is still detached and valid
	kDX                 // most recently dropped element
	kNil                // nil
	kNew                // a fresh dt.NewElement(v)
)

type sel struct {
	k  skind
	li int
	v  int
}

func (s sel) String() string {
	l := string(rune('A' + s.li))
	switch s.k {
	case kFront:
		return l + ".front"
	case kMid:
		return l + ".second"
	case kBack:
		return l + ".back"
	case kMid2:
		return l + ".lastbutone"
	case kRoot:
		return l + ".root"
	case kDP:
		return "popped"
	case kDX:
		return "dropped"
	case kNil:
		return "nil"
	}
	return fmt.Sprintf("new(%d)", s.v)
}

const (
	idRoot = -1
	idNil  = -2
)

// ref is a resolved selector.
type ref struct {
	e  *elem
	id int // >= 0 model id, idRoot, idNil
	li int // for idRoot: whose root
}

func (w *lworld) root(li int) *elem {
	if n := len(w.seq[li]); n > 0 {
		return w.h[w.seq[li][n-1]].Next()
	}
	return w.L[li].Front()
}

func (w *lworld) resolve(s sel) (ref, bool) {
	q := w.seq[s.li]
	switch s.k {
	case kFront:
		if len(q) >= 1 {
			return ref{w.h[q[0]], q[0], s.li}, true
		}
	case kMid:
		if len(q) >= 3 {
			return ref{w.h[q[1]], q[1], s.li}, true
		}
	case kBack:
		if len(q) >= 2 {
			return ref{w.h[q[len(q)-1]], q[len(q)-1], s.li}, true
		}
	case kMid2:
		if len(q) >= 4 {
			return ref{w.h[q[len(q)-2]], q[len(q)-2], s.li}, true
		}
	case kRoot:
		return ref{w.root(s.li), idRoot, s.li}, true
	case kDP:
		if n := len(w.det); n > 0 {
			return ref{w.h[w.det[n-1]], w.det[n-1], -1}, true
		}
	case kDX:
		if n := len(w.drp); n > 0 {
			return ref{w.h[w.drp[n-1]], w.drp[n-1], -1}, true
		}
	case kNil:
		return ref{nil, idNil, -1}, true
	case kNew:
		e := dt.NewElement(s.v)
		return ref{e, w.newID(s.v, -1, e), -1}, true
	}
	return ref{}, false
}

// where the referenced element lives according to the model: list index, or -1.
func (w *lworld) locOf(r ref) int {
	switch {
	case r.id == idRoot:
		return r.li
	case r.id >= 0:
		return w.m[r.id].loc
	}
	return -1
}

// ---------------------------------------------------------------------------
// bounded observation

func walkBound(n, l int) int {
	if l > n {
		n = l
	}
	if n < 0 {
		n = 0
	}
	return 3*n + 5
}

func walkF(l *dt.List[int], bound int) (ptrs []*elem, done bool) {
	e := l.Front()
	for i := 0; i <= bound; i++ {
		if !e.Ok() {
			return ptrs, true
		}
		ptrs = append(ptrs, e)
		e = e.Next()
	}
	return ptrs, false
}

func walkB(l *dt.List[int], bound int) (ptrs []*elem, done bool) {
	e := l.Back()
	for i := 0; i <= bound; i++ {
		if !e.Ok() {
			return ptrs, true
		}
		ptrs = append(ptrs, e)
		e = e.Previous()
	}
	return ptrs, false
}

func valuesOf(p []*elem) []int {
	out := make([]int, len(p))
	for i, e := range p {
		out[i] = e.Value()
	}
	return out
}

// bind gives every model element the library created (unbound id) the real
// element found at its position. No checking; used while replaying a prefix
// that has already been validated.
func (w *lworld) bind() {
	for li := 0; li < 2; li++ {
		need := false
		for _, id := range w.seq[li] {
			if w.h[id] == nil {
				need = true
			}
		}
		if !need {
			continue
		}
		ptrs, _ := walkF(w.L[li], walkBound(len(w.seq[li]), 0))
		for i, id := range w.seq[li] {
			if i < len(ptrs) && w.h[id] == nil {
				w.h[id] = ptrs[i]
				w.ids[ptrs[i]] = id
			}
		}
	}
}

// adoptOrder lets the model take over the order the implementation gave to
// equal values after a sort (the value sequence itself is determined).
func (w *lworld) adoptOrder(li int) {
	ptrs, done := walkF(w.L[li], walkBound(len(w.seq[li]), 0))
	if !done || len(ptrs) != len(w.seq[li]) {
		return
	}
	got := make([]int, len(ptrs))
	seen := map[int]bool{}
	for i, p := range ptrs {
		id, ok := w.ids[p]
		if !ok || seen[id] || w.m[id].loc != li || w.m[id].val != w.m[w.seq[li][i]].val {
			return
		}
		seen[id] = true
		got[i] = id
	}
	w.seq[li] = got
}

// checkList compares one real list, observed through every read path, with a
// value sequence. It returns an oracle tag ("" = fine) and an explanation.
// The manual walks are bounded and run first; the library's own traversals
// (Slice, iterators, Copy, MarshalJSON) follow the same links and are only
// started once the manual walks have terminated.
func checkList(l *dt.List[int], want []int, name string, deep bool) (fw []*elem, oracle, info string) {
	bound := walkBound(len(want), l.Len())
	fw, done := walkF(l, bound)
	if !done {
		return fw, "walk-mismatch", fmt.Sprintf("%s: forward walk Front..Next does not end within %d steps, model [%s]", name, bound, csv(want))
	}
	if got := valuesOf(fw); !eqInts(got, want) {
		return fw, "walk-mismatch", fmt.Sprintf("%s: forward walk [%s], model [%s]", name, csv(got), csv(want))
	}
	bw, done := walkB(l, bound)
	if !done {
		return fw, "walk-mismatch", fmt.Sprintf("%s: backward walk Back..Previous does not end within %d steps, model [%s]", name, bound, csv(want))
	}
	if got := reversed(valuesOf(bw)); !eqInts(got, want) {
		return fw, "walk-mismatch", fmt.Sprintf("%s: reversed backward walk [%s], forward walk and model [%s]", name, csv(got), csv(want))
	}
	for i := range fw {
		if fw[i] != bw[len(bw)-1-i] {
			return fw, "walk-mismatch", fmt.Sprintf("%s: position %d is a different element object in the forward and in the backward walk (values [%s])", name, i, csv(want))
		}
	}
	if l.Len() != len(want) {
		return fw, "len-mismatch", fmt.Sprintf("%s: Len()=%d, model and walks have %d elements [%s]", name, l.Len(), len(want), csv(want))
	}
	for i, e := range fw {
		if !e.In(l) {
			return fw, "in-mismatch", fmt.Sprintf("%s: element at position %d (value %d) of the walk reports In(list)=false", name, i, e.Value())
		}
	}
	if got := []int(l.Slice()); !eqInts(got, want) {
		return fw, "iterator-mismatch", fmt.Sprintf("%s: Slice() [%s], model [%s]", name, csv(got), csv(want))
	}
	if got, err := l.Iterator().Slice(bg); err != nil || !eqInts(got, want) {
		return fw, "iterator-mismatch", fmt.Sprintf("%s: Iterator() [%s] err=%v, model [%s]", name, csv(got), err, csv(want))
	}
	if got, err := l.Reverse().Slice(bg); err != nil || !eqInts(reversed(got), want) {
		return fw, "iterator-mismatch", fmt.Sprintf("%s: Reverse() [%s] err=%v, model reversed [%s]", name, csv(got), err, csv(reversed(want)))
	}
	if !deep {
		return fw, "", ""
	}
	// Copy, and the two destructive iterators on copies.
	for pass := 0; pass < 2; pass++ {
		c := l.Copy()
		if c == l {
			return fw, "copy-mismatch", name + ": Copy() returned the receiver"
		}
		if _, o, i := checkList(c, want, name+".Copy()", false); o != "" {
			return fw, "copy-mismatch", i
		}
		for _, e := range fw {
			if e.In(c) {
				return fw, "copy-mismatch", name + ": an element of the original reports In(copy)"
			}
		}
		var got []int
		var err error
		if pass == 0 {
			got, err = c.PopIterator().Slice(bg)
		} else {
			got, err = c.PopReverse().Slice(bg)
			got = reversed(got)
		}
		itn := [2]string{"PopIterator", "PopReverse"}[pass]
		if err != nil || !eqInts(got, want) {
			return fw, "iterator-mismatch", fmt.Sprintf("%s.Copy().%s() [%s] (normalised to front-to-back) err=%v, model [%s]", name, itn, csv(got), err, csv(want))
		}
		if _, o, i := checkList(c, nil, name+".Copy() after "+itn, false); o != "" {
			return fw, "iterator-mismatch", i
		}
	}
	// the original must not have noticed
	if got, done := walkF(l, bound); !done || !eqInts(valuesOf(got), want) {
		return fw, "copy-mismatch", fmt.Sprintf("%s changed while its copies were consumed: [%s], model [%s]", name, csv(valuesOf(got)), csv(want))
	}
	// JSON round trip into a fresh list
	b, err := l.MarshalJSON()
	if err != nil || string(b) != jsonArray(want) {
		return fw, "json-mismatch", fmt.Sprintf("%s: MarshalJSON %q err=%v, model %s", name, b, err, jsonArray(want))
	}
	fresh := &dt.List[int]{}
	if err := fresh.UnmarshalJSON(b); err != nil {
		return fw, "json-mismatch", fmt.Sprintf("%s: UnmarshalJSON(%s) into a fresh list: %v", name, b, err)
	}
	if _, o, i := checkList(fresh, want, "fresh list unmarshalled from "+name, false); o != "" {
		return fw, "json-mismatch", i
	}
	return fw, "", ""
}

// invariants is the per-state oracle.
func (w *lworld) invariants() (oracle, info string) {
	for li := 0; li < 2; li++ {
		name := string(rune('A' + li))
		fw, o, i := checkList(w.L[li], w.vals(li), name, true)
		if o != "" {
			return o, i
		}
		// element identity per position (also binds elements created by the library)
		for i, id := range w.seq[li] {
			p := fw[i]
			if w.h[id] == nil {
				if other, dup := w.ids[p]; dup {
					return "element-identity", fmt.Sprintf("%s: position %d should hold a newly created element but holds handle #%d", name, i, other)
				}
				w.h[id] = p
				w.ids[p] = id
				continue
			}
			if w.h[id] != p {
				return "element-identity", fmt.Sprintf("%s: position %d (value %d) is not the element object the operations put there (handle #%d)", name, i, p.Value(), id)
			}
		}
	}
	for id, me := range w.m {
		e := w.h[id]
		if e == nil {
			return "element-identity", fmt.Sprintf("handle #%d never became visible", id)
		}
		for li := 0; li < 2; li++ {
			if got, want := e.In(w.L[li]), me.loc == li; got != want {
				return "in-mismatch", fmt.Sprintf("handle #%d (value %d, model: %s): In(%c)=%v", id, me.val, locName(me.loc), 'A'+li, got)
			}
		}
		if e.Ok() != me.ok {
			return "ok-mismatch", fmt.Sprintf("handle #%d (model: %s, ok=%v): Ok()=%v", id, locName(me.loc), me.ok, e.Ok())
		}
		if me.loc < 0 && !me.ok && e.Value() != 0 {
			return "ok-mismatch", fmt.Sprintf("dropped handle #%d still has value %d", id, e.Value())
		}
	}
	for li := 0; li < 2; li++ {
		if r := w.root(li); r.Ok() {
			return "ok-mismatch", fmt.Sprintf("root of %c reports Ok()", 'A'+li)
		}
	}
	// Look-ahead: the same property two operations later, at both ends. This
	// runs last and only in the final state of a replay (successor states are
	// rebuilt from scratch), so it cannot disturb the exploration; it pins a
	// container that looks right but no longer accepts operations on the
	// operation that broke it.
	for li := 0; li < 2; li++ {
		name, l, vs := string(rune('A'+li)), w.L[li], w.vals(li)
		l.PushBack(probe)
		if _, o, i := checkList(l, append(append([]int{}, vs...), probe), name+" after a further PushBack", false); o != "" {
			return "not-usable-after", i
		}
		if e := l.PopBack(); !e.Ok() || e.Value() != probe || e.In(l) {
			return "not-usable-after", fmt.Sprintf("%s: PushBack(%d) then PopBack() returned Ok=%v value=%d In=%v", name, probe, e.Ok(), e.Value(), e.In(l))
		}
		l.PushFront(probe)
		if _, o, i := checkList(l, append([]int{probe}, vs...), name+" after a further PushFront", false); o != "" {
			return "not-usable-after", i
		}
		if e := l.PopFront(); !e.Ok() || e.Value() != probe || e.In(l) {
			return "not-usable-after", fmt.Sprintf("%s: PushFront(%d) then PopFront() returned Ok=%v value=%d In=%v", name, probe, e.Ok(), e.Value(), e.In(l))
		}
		if _, o, i := checkList(l, vs, name+" after push/pop at both ends", false); o != "" {
			return "not-usable-after", i
		}
	}
	return "", ""
}

const probe = 7

func locName(loc int) string {
	if loc < 0 {
		return "detached"
	}
	return "in " + string(rune('A'+loc))
}

func (w *lworld) key() string {
	var b strings.Builder
	b.WriteString("A:")
	b.WriteString(csv(w.vals(0)))
	b.WriteString("|B:")
	b.WriteString(csv(w.vals(1)))
	b.WriteString("|D:")
	for i, id := range w.det {
		if i > 0 {
			b.WriteByte(',')
		}
		fmt.Fprint(&b, w.m[id].val)
	}
	if len(w.drp) > 0 {
		b.WriteString("|X")
	}
	return b.String()
}

// ---------------------------------------------------------------------------
// alphabet

type lop struct {
	name string
	fn   func(w *lworld) outcome
}

func ln(li int) string { return string(rune('A' + li)) }

func opPush(li, v int, front bool) lop {
	n := "PushBack"
	if front {
		n = "PushFront"
	}
	return lop{fmt.Sprintf("%s(%s,%d)", n, ln(li), v), func(w *lworld) outcome {
		if front {
			w.L[li].PushFront(v)
			w.mInsert(li, 0, w.newID(v, li, nil))
		} else {
			w.L[li].PushBack(v)
			w.mInsert(li, len(w.seq[li]), w.newID(v, li, nil))
		}
		return outcome{applicable: true, class: n}
	}}
}

func opListAppend(li int, vs ...int) lop {
	return lop{fmt.Sprintf("List.Append(%s,%s)", ln(li), csv(vs)), func(w *lworld) outcome {
		w.L[li].Append(vs...)
		for _, v := range vs {
			w.mInsert(li, len(w.seq[li]), w.newID(v, li, nil))
		}
		return outcome{applicable: true, class: "List.Append"}
	}}
}

func opPop(li int, front bool) lop {
	n := "PopBack"
	if front {
		n = "PopFront"
	}
	return lop{fmt.Sprintf("%s(%s)", n, ln(li)), func(w *lworld) outcome {
		var e *elem
		if front {
			e = w.L[li].PopFront()
		} else {
			e = w.L[li].PopBack()
		}
		o := outcome{applicable: true, class: n}
		q := w.seq[li]
		if len(q) == 0 {
			if e.Ok() {
				o.oracle, o.info = "return-value", fmt.Sprintf("%s on an empty list returned an element reporting Ok() (value %d)", n, e.Value())
			}
			return o
		}
		id := q[len(q)-1]
		if front {
			id = q[0]
		}
		want := w.h[id]
		w.mDetach(id)
		w.det = append(w.det, id)
		switch {
		case !e.Ok():
			o.oracle, o.info = "return-value", fmt.Sprintf("%s on a list of %d returned an element that is not Ok()", n, len(q))
		case e != want:
			o.oracle, o.info = "return-value", fmt.Sprintf("%s returned value %d, not the end element (value %d, handle #%d)", n, e.Value(), w.m[id].val, id)
		}
		return o
	}}
}

func opElemAppend(rs, as sel) lop {
	return lop{fmt.Sprintf("Element.Append(%s,%s)", rs, as), func(w *lworld) outcome {
		r, ok := w.resolve(rs)
		if !ok {
			return na()
		}
		a, ok := w.resolve(as)
		if !ok {
			return na()
		}
		rl := w.locOf(r)
		o := outcome{applicable: true}
		switch {
		case rl < 0:
			o.class, o.rejected = "Element.Append-detached-receiver", true
		case a.id == idNil || a.id == idRoot || !w.m[a.id].ok:
			o.class, o.rejected = "Element.Append-invalid", true
		case w.m[a.id].loc >= 0:
			o.class, o.rejected = "Element.Append-attached", true
		default:
			o.class = "Element.Append"
		}
		ret := r.e.Append(a.e)
		if o.rejected {
			if ret != r.e {
				o.oracle, o.info = "return-value", "Append did not return the receiver for an argument it must reject"
			}
			return o
		}
		pos := 0
		if r.id != idRoot {
			pos = w.index(r.id) + 1
		}
		w.mInsert(rl, pos, a.id)
		if ret != a.e {
			o.oracle, o.info = "return-value", "Append of a valid detached element did not return that element"
		}
		return o
	}}
}

func opRemove(s sel, drop bool) lop {
	n := "Remove"
	if drop {
		n = "Drop"
	}
	return lop{fmt.Sprintf("%s(%s)", n, s), func(w *lworld) outcome {
		r, ok := w.resolve(s)
		if !ok {
			return na()
		}
		o := outcome{applicable: true, class: n}
		switch {
		case r.id == idRoot:
			o.class, o.rejected = n+"-root", true
		case w.m[r.id].loc < 0:
			o.class, o.rejected = n+"-detached", true
		}
		if drop {
			r.e.Drop()
			if !o.rejected {
				w.mDetach(r.id)
				w.m[r.id].ok, w.m[r.id].val = false, 0
				w.drp = append(w.drp, r.id)
			}
			return o
		}
		ret := r.e.Remove()
		if o.rejected {
			if ret {
				o.oracle, o.info = "return-value", "Remove returned true for an element that cannot be removed"
			}
			return o
		}
		w.mDetach(r.id)
		w.det = append(w.det, r.id)
		if !ret {
			o.oracle, o.info = "return-value", "Remove of a listed element returned false"
		}
		return o
	}}
}

func opSet(s sel, v int) lop {
	return lop{fmt.Sprintf("Set(%s,%d)", s, v), func(w *lworld) outcome {
		r, ok := w.resolve(s)
		if !ok {
			return na()
		}
		o := outcome{applicable: true, class: "Set"}
		ret := r.e.Set(v)
		if r.id == idRoot {
			o.class, o.rejected = "Set-root", true
			if ret {
				o.oracle, o.info = "return-value", "Set on the root returned true"
			}
			return o
		}
		w.m[r.id].val = v
		if !ret {
			o.oracle, o.info = "return-value", "Set on a listed element returned false"
		}
		return o
	}}
}

// opElemJSON: Element.UnmarshalJSON sets the value of a listed element like
// Set does; decoding into the root sentinel (what Front()/Back() of an empty
// list and Back().Next() hand out) is rejected and changes nothing. Detached
// elements are left out for the same reason as in opSet's doc note.
func opElemJSON(s sel, v int) lop {
	return lop{fmt.Sprintf("Element.UnmarshalJSON(%s,%d)", s, v), func(w *lworld) outcome {
		r, ok := w.resolve(s)
		if !ok || r.id == idNil {
			return na()
		}
		if r.id != idRoot && w.locOf(r) < 0 {
			return na()
		}
		o := outcome{applicable: true, class: "Element.UnmarshalJSON"}
		err := r.e.UnmarshalJSON([]byte(fmt.Sprint(v)))
		if r.id == idRoot {
			o.class, o.rejected = "Element.UnmarshalJSON-root", true
			return o
		}
		w.m[r.id].val = v
		if err != nil {
			o.oracle, o.info = "return-value", "Element.UnmarshalJSON of a number failed: "+err.Error()
		}
		return o
	}}
}

func opSwap(s1, s2 sel) lop {
	return lop{fmt.Sprintf("Swap(%s,%s)", s1, s2), func(w *lworld) outcome {
		a, ok := w.resolve(s1)
		if !ok {
			return na()
		}
		b, ok := w.resolve(s2)
		if !ok {
			return na()
		}
		la, lb := w.locOf(a), w.locOf(b)
		o := outcome{applicable: true}
		switch {
		case a.id == idNil || b.id == idNil:
			o.class, o.rejected = "Swap-nil", true
		case a.e == b.e:
			o.class, o.rejected = "Swap-self", true
		case la < 0 || lb < 0:
			o.class, o.rejected = "Swap-detached", true
		case la != lb:
			o.class, o.rejected = "Swap-otherlist", true
		case a.id == idRoot || b.id == idRoot:
			o.class = "Swap-root"
		default:
			o.class = "Swap"
		}
		ret := a.e.Swap(b.e)
		if o.rejected {
			if ret {
				o.oracle, o.info = "return-value", "Swap returned true for operands it must reject"
			}
			return o
		}
		// exchange two positions of the cyclic sequence root,e1..en
		cyc := append([]int{idRoot}, w.seq[la]...)
		ia, ib := -1, -1
		for i, id := range cyc {
			if id == a.id {
				ia = i
			}
			if id == b.id {
				ib = i
			}
		}
		cyc[ia], cyc[ib] = cyc[ib], cyc[ia]
		var out []int
		for i := range cyc {
			if cyc[i] == idRoot {
				out = append(append(out, cyc[i+1:]...), cyc[:i]...)
			}
		}
		w.seq[la] = out
		if !ret {
			o.oracle, o.info = "return-value", "Swap of two members of one list returned false"
		}
		return o
	}}
}

func opExtend(dst, src int) lop {
	return lop{fmt.Sprintf("Extend(%s,%s)", ln(dst), ln(src)), func(w *lworld) outcome {
		w.L[dst].Extend(w.L[src])
		for _, id := range w.seq[src] {
			w.m[id].loc = dst
		}
		w.seq[dst] = append(append([]int{}, w.seq[dst]...), w.seq[src]...)
		w.seq[src] = nil
		return outcome{applicable: true, class: "Extend"}
	}}
}

func opSort(li int, merge bool) lop {
	n := "SortQuick"
	if merge {
		n = "SortMerge"
	}
	return lop{fmt.Sprintf("%s(%s)", n, ln(li)), func(w *lworld) outcome {
		if merge {
			w.L[li].SortMerge(cmp.LessThanNative[int])
		} else {
			w.L[li].SortQuick(cmp.LessThanNative[int])
		}
		q := append([]int{}, w.seq[li]...)
		sort.SliceStable(q, func(i, j int) bool { return w.m[q[i]].val < w.m[q[j]].val })
		w.seq[li] = q
		w.adoptOrder(li)
		return outcome{applicable: true, class: n}
	}}
}

func opJSON(dst, src int) lop {
	return lop{fmt.Sprintf("UnmarshalJSON(%s,MarshalJSON(%s))", ln(dst), ln(src)), func(w *lworld) outcome {
		o := outcome{applicable: true, class: "UnmarshalJSON"}
		vs := w.vals(src)
		b, err := w.L[src].MarshalJSON()
		if err != nil || string(b) != jsonArray(vs) {
			o.oracle, o.info = "json-mismatch", fmt.Sprintf("MarshalJSON %q err=%v, model %s", b, err, jsonArray(vs))
			return o
		}
		if err := w.L[dst].UnmarshalJSON(b); err != nil {
			o.oracle, o.info = "json-mismatch", fmt.Sprintf("UnmarshalJSON(%s): %v", b, err)
		}
		for _, v := range vs {
			w.mInsert(dst, len(w.seq[dst]), w.newID(v, dst, nil))
		}
		return o
	}}
}

func opDrain(li int, rev bool) lop {
	n := "PopIterator"
	if rev {
		n = "PopReverse"
	}
	return lop{fmt.Sprintf("%s(%s)", n, ln(li)), func(w *lworld) outcome {
		o := outcome{applicable: true, class: n}
		want := w.vals(li)
		var got []int
		var err error
		if rev {
			got, err = w.L[li].PopReverse().Slice(bg)
			want = reversed(want)
		} else {
			got, err = w.L[li].PopIterator().Slice(bg)
		}
		q := append([]int{}, w.seq[li]...)
		if rev {
			q = reversed(q)
		}
		for _, id := range q {
			w.mDetach(id)
			w.det = append(w.det, id)
		}
		if err != nil || !eqInts(got, want) {
			o.oracle, o.info = "iterator-mismatch", fmt.Sprintf("%s yielded [%s] err=%v, model [%s]", n, csv(got), err, csv(want))
		}
		return o
	}}
}

func listAlphabet() []lop {
	A, B := 0, 1
	f := func(li int) sel { return sel{k: kFront, li: li} }
	m := func(li int) sel { return sel{k: kMid, li: li} }
	m2 := func(li int) sel { return sel{k: kMid2, li: li} }
	b := func(li int) sel { return sel{k: kBack, li: li} }
	rt := func(li int) sel { return sel{k: kRoot, li: li} }
	dp, dx, nl := sel{k: kDP}, sel{k: kDX}, sel{k: kNil}
	nw := func(v int) sel { return sel{k: kNew, v: v} }

	var ops []lop
	for v := 1; v <= 3; v++ {
		ops = append(ops, opPush(A, v, true), opPush(A, v, false))
	}
	ops = append(ops, opListAppend(A, 2, 1), opPush(B, 1, false), opPush(B, 2, false), opPush(B, 3, true))
	ops = append(ops, opPop(A, true), opPop(A, false), opPop(B, true), opPop(B, false))
	// Element.Append: new element at every position, re-append of a popped element, and everything that must be rejected
	for _, r := range []sel{f(A), m(A), m2(A), b(A), rt(A), rt(B)} {
		ops = append(ops, opElemAppend(r, nw(3)))
	}
	for _, r := range []sel{f(A), m(A), b(A), rt(A), f(B)} {
		ops = append(ops, opElemAppend(r, dp))
	}
	ops = append(ops,
		opElemAppend(dp, nw(3)),                                                   // detached receiver
		opElemAppend(f(A), dx), opElemAppend(f(A), rt(A)), opElemAppend(f(A), nl), // invalid argument
		// member of the same list: successor, predecessor, self, distant, through the root
		opElemAppend(f(A), b(A)), opElemAppend(b(A), f(A)), opElemAppend(f(A), f(A)), opElemAppend(rt(A), f(A)),
		opElemAppend(f(A), m(A)), opElemAppend(m(A), f(A)), opElemAppend(rt(A), b(A)),
		opElemAppend(f(A), f(B)), opElemAppend(f(B), f(A)), opElemAppend(rt(A), f(B)), // member of the other list
	)
	for _, s := range []sel{f(A), m(A), m2(A), b(A), f(B), b(B), rt(A), dp} {
		ops = append(ops, opRemove(s, false))
	}
	for _, s := range []sel{f(A), m(A), b(A), rt(A)} {
		ops = append(ops, opRemove(s, true))
	}
	ops = append(ops, opSet(f(A), 3), opSet(m(A), 1), opSet(b(A), 2), opSet(rt(A), 1))
	ops = append(ops, opElemJSON(f(A), 2), opElemJSON(b(A), 3), opElemJSON(rt(A), 1))
	ops = append(ops,
		opSwap(f(A), b(A)), opSwap(b(A), f(A)), opSwap(f(A), m(A)), opSwap(m(A), f(A)), opSwap(m(A), b(A)), opSwap(b(A), m(A)),
		opSwap(m(A), m2(A)), opSwap(m2(A), m(A)), opSwap(f(A), m2(A)), opSwap(m2(A), b(A)),
		opSwap(rt(A), f(A)), opSwap(f(A), rt(A)), opSwap(rt(A), b(A)), opSwap(b(A), rt(A)), opSwap(rt(A), m(A)),
		opSwap(f(A), f(A)), opSwap(f(A), f(B)), opSwap(f(B), f(A)), opSwap(f(A), rt(B)), opSwap(f(A), dp), opSwap(dp, f(A)), opSwap(f(A), nl),
	)
	ops = append(ops, opExtend(A, B), opExtend(B, A))
	ops = append(ops, opSort(A, true), opSort(A, false))
	ops = append(ops, opJSON(A, A), opJSON(A, B))
	ops = append(ops, opDrain(A, false), opDrain(A, true))
	return ops
}

func listSpec(depth int, deadline time.Time) *seq.Spec {
	ops := listAlphabet()
	sp := &seq.Spec{Name: "list", NumOps: len(ops), MaxDepth: depth, Deadline: deadline,
		OpName: func(op int) string { return ops[op].name }}
	sp.Run = func(hist []int) (res seq.Result) {
		g := inflight.begin(sp, hist)
		defer inflight.end(g)
		w := newLWorld()
		var o outcome
		stage := "initial"
		defer func() {
			if p := recover(); p != nil {
				cl := o.class
				if cl == "" {
					cl = stage
				}
				res = seq.Result{Fail: "panic/" + cl, Info: fmt.Sprintf("panic in %s: %v", stage, p)}
			}
		}()
		for i, op := range hist {
			stage = ops[op].name
			if j := strings.IndexByte(stage, '('); j > 0 {
				o.class = stage[:j]
			}
			o = ops[op].fn(w)
			if !o.applicable {
				return seq.Result{}
			}
			if i < len(hist)-1 {
				w.bind()
			}
		}
		if len(hist) > 0 {
			applied.Add(1)
			stage = "observation after " + stage
		}
		invO, invI := w.invariants()
		if o.class == "" {
			o.class = "initial"
		}
		if f := failOf(o, invO); f != "" {
			info := o.info
			if invO != "" && (o.oracle == "" || o.rejected) {
				info = invI
			}
			return seq.Result{Fail: f, Info: info}
		}
		return seq.Result{Key: w.key() + unmerged(hist)}
	}
	return sp
}
