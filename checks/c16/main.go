// Command c16 checks property C16 (dt.List / dt.Stack against a sequence model).
package main

import (
	"flag"
	"os"

	"verif/checks/c16/seqpart"
	"verif/rep"
)

func main() {
	tier := flag.String("tier", "quick", "quick|thorough")
	flag.Parse()
	r := rep.New("C16", *tier, "model_checking")
	seqpart.Run(r, *tier)
	os.Exit(r.Finish())
}
