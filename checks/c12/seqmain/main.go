// Check C12 (sequential part): error aggregation is lossless and
// errors.Is/As/Unwind-consistent. Exhaustive enumeration of error-expression
// trees up to a depth bound with an independent bookkeeping oracle; see
// seqpart for the bounds and the reading of the statement.
package main

import (
	"flag"
	"os"

	"verif/checks/c12/seqpart"
	"verif/rep"
)

func main() {
	tier := flag.String("tier", "quick", "quick|thorough")
	flag.Parse()
	r := rep.New("C12", *tier, "model_checking")
	seqpart.Run(r, *tier)
	os.Exit(r.Finish())
}
