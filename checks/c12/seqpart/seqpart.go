// Package seqpart is the sequential part of check C12: every error-expression
// tree up to a depth bound is built with the real ers/erc/stdlib constructors
// and compared with an independent bookkeeping model.
//
// # Reading of the statement (what "constituent" means per constructor)
//
// A model value is Nil, an Atom (a single error: a leaf, or a singly wrapping
// fmt.Errorf("%w") value - "singly wrapped errors are kept intact") or an
// Aggregate with a flat list of items. Documented Push behaviour: *Stack,
// Unwind() []error and Unwrap() []error operands are flattened (recursively),
// everything else is added as is. Hence for every ers/erc combinator
// (Join, Stack.Push/Add, Stack-in-Stack, Collector.Add, Wrap/Wrapf,
// ParsePanic) the constituents are: for each non-nil argument in supply order,
// the argument itself when it is an Atom, or its flat items when it is an
// Aggregate (an ers aggregate, errors.Join or fmt.Errorf("%w %w")).
//
// Asserted for every tree (root value R, model M):
//   - nil-iff: R == nil  <=>  no non-nil leaf was supplied.
//   - single-identity: ers.Join with exactly one non-nil argument that is an
//     Atom returns that identical value.
//   - Is: errors.Is(R, leaf) <=> leaf occurs in the tree, for the five non-nil
//     leaves; false for two unrelated sentinels (an ers.Error constant and an
//     errors.New pointer).
//   - As: errors.As finds *myErr / typedErr iff such a leaf occurs (and yields
//     that value); false for an unrelated pointer type and an unrelated struct type.
//   - Unwind (only when the root is an ers/erc combinator and R != nil): after
//     removing permitted extras (the annotation error a Wrap/Wrapf adds, and
//     ErrRecoveredPanic added by ParsePanic - at most one per such node), with
//     one constituent: Unwind(R)[0] is that constituent (internal.Unwind lists
//     the whole Unwrap chain of a single wrapped error, so nothing more is
//     asserted); with several: the list is exactly the multiset of constituents
//     (unwind/multiset) and the top-level arguments appear most recent first,
//     each flattened aggregate argument as one contiguous block whose internal
//     order is unconstrained (unwind/order).
//
// Roots built by fmt.Errorf / errors.Join are stdlib values: nil-iff, Is and As
// are evaluated (they exercise Stack.Is/As/Unwrap underneath), Unwind is not
// claimed for them.
//
// fmt.Errorf("%w", nil) would create a non-nil error wrapping nothing; the
// tree constructors FmtW/FmtWW model the program `if err != nil { wrap }`.
//
// A violation is attributed to the smallest failing subtree (a subtree failing
// the same oracle none of whose children fails it); the signature carries that
// subtree's root constructor.
package seqpart

import (
	"context"
	"errors"
	"fmt"
	"io"
	"runtime"
	"sort"
	"strings"
	"sync"
	"time"

	"github.com/tychoish/fun"
	"github.com/tychoish/fun/erc"
	"github.com/tychoish/fun/ers"

	"verif/rep"
)

// ---------------------------------------------------------------- leaves

type myErr struct{ msg string }

func (e *myErr) Error() string { return e.msg }

type typedErr struct{ Code int }

func (e typedErr) Error() string { return fmt.Sprintf("typed-%d", e.Code) }

// unwinder is a user-defined aggregate: it offers both Unwind() []error (the
// library's own protocol) and Unwrap() []error (the stdlib protocol) with the
// same contents, so errors.Is/As can see through it as well.
type unwinder struct{ errs []error }

func (u *unwinder) Error() string   { return fmt.Sprint("unwinder", u.errs) }
func (u *unwinder) Unwind() []error { return u.errs }
func (u *unwinder) Unwrap() []error { return u.errs }

// unwindOnly is a user aggregate that speaks only the library's own protocol
// (Unwind() []error), not the stdlib one.
type unwindOnly struct{ errs []error }

func (u *unwindOnly) Error() string   { return fmt.Sprint("unwindOnly", u.errs) }
func (u *unwindOnly) Unwind() []error { return u.errs }

type otherErr struct{}

func (*otherErr) Error() string { return "other-pointer-type" }

type otherTyped struct{ X int }

func (otherTyped) Error() string { return "other-struct-type" }

const (
	e1        ers.Error = "e1"
	e2        ers.Error = "e2"
	unrelated ers.Error = "unrelated-sentinel"
)

var (
	pErr         = &myErr{"p"}
	tErr         = typedErr{7}
	unrelatedPtr = errors.New("unrelated-pointer-sentinel")
)

const (
	lNil = iota
	lE1
	lE2
	lP
	lT
	lEOF
	lPPStr // ers.ParsePanic("boom")
	lPPInt // ers.ParsePanic(42)
	lPPNil // ers.ParsePanic(nil)
	lLayer // errors.Unwrap(ers.Join(E1, E2, P)): the inner layer of an aggregate, holding E2 and E1
	numLeafKinds
)

var leafNames = [...]string{"nil", "E1", "E2", "P", "T", "io.EOF", `ers.ParsePanic("boom")`, "ers.ParsePanic(42)", "ers.ParsePanic(nil)", "errors.Unwrap(ers.Join(E1, E2, P))"}

// the five identity leaves, indexed by bit in mv.leaves
var idLeaves = [...]error{e1, e2, pErr, tErr, io.EOF}
var idLeafNames = [...]string{"E1", "E2", "P", "T", "io.EOF"}

const (
	bitE1 = 1 << iota
	bitE2
	bitP
	bitT
	bitEOF
)

// ---------------------------------------------------------------- ops

const (
	opLeaf = iota
	opWrap
	opWrapf
	opFmtW
	opPPErr
	opJoin1
	opColl1
	opStackPush1
	opJoin2
	opFmtWW
	opErrorsJoin2
	opStackPush2
	opStackAdd2
	opSIS2
	opColl2
	opUnwinder2
	opJoin3
	opSIS3
	opPPSlice3
	opCollRecover1
	opCollConsume2
	opCollHelpers3
	opUnwinderNil2
	opJoinUnwindOnly2
	opCollUnwindOnly2
	numOps
)

var opNames = [...]string{"leaf", "Wrap", "Wrapf", "FmtW", "ParsePanicErr", "Join1", "Collector1", "StackPush1",
	"Join2", "FmtWW", "ErrorsJoin2", "StackPush2", "StackAdd2", "StackInStack2", "Collector2", "CustomUnwinder2",
	"Join3", "StackInStack3", "ParsePanicSlice3", "CollectorRecover1", "CollectorConsume2", "CollectorHelpers3", "CustomUnwinderWithNilSlot2", "JoinOfUnwindOnlyAggregate2", "CollectorOfUnwindOnlyAggregate2"}
var opArity = [...]int{0, 1, 1, 1, 1, 1, 1, 1, 2, 2, 2, 2, 2, 2, 2, 2, 3, 3, 3, 1, 2, 3, 2, 2, 2}

type expr struct {
	op   int
	leaf int
	kids []*expr
	size int
}

func mk(op int, kids ...*expr) *expr {
	e := &expr{op: op, kids: kids, size: 1}
	for _, k := range kids {
		e.size += k.size
	}
	return e
}

var leafExprs = func() []*expr {
	out := make([]*expr, numLeafKinds)
	for i := range out {
		out[i] = &expr{op: opLeaf, leaf: i, size: 1}
	}
	return out
}()

func (e *expr) String() string {
	if e.op == opLeaf {
		return leafNames[e.leaf]
	}
	k := make([]string, len(e.kids))
	for i, c := range e.kids {
		k[i] = c.String()
	}
	a := strings.Join(k, ", ")
	switch e.op {
	case opWrap:
		return `ers.Wrap(` + a + `, "ann")`
	case opWrapf:
		return `ers.Wrapf(` + a + `, "ann %d", 1)`
	case opFmtW:
		return `fmt.Errorf("ctx: %w", ` + a + `)`
	case opPPErr:
		return `ers.ParsePanic(` + a + `)`
	case opJoin1, opJoin2, opJoin3:
		return `ers.Join(` + a + `)`
	case opColl1, opColl2:
		return `collector{` + strings.ReplaceAll(a, ", ", "; ") + `}.Resolve()`
	case opStackPush1, opStackPush2:
		return `stackPush{` + a + `}.Resolve()`
	case opStackAdd2:
		return `stackAdd{` + a + `}.asError()`
	case opFmtWW:
		return `fmt.Errorf("%w %w", ` + a + `)`
	case opErrorsJoin2:
		return `errors.Join(` + a + `)`
	case opUnwinder2:
		return `&unwinder{` + a + `}`
	case opSIS2:
		return `outer.Push(inner.Add(` + a + `)).Resolve()`
	case opSIS3:
		return `outer.Push(inner.Push(` + k[0] + `).Push(` + k[1] + `)).Push(` + k[2] + `).Resolve()`
	case opPPSlice3:
		return `ers.ParsePanic([]error{` + a + `})`
	case opUnwinderNil2:
		return `&unwinder{` + k[0] + `, nil, ` + k[1] + `}`
	case opJoinUnwindOnly2:
		return `ers.Join(nil, &unwindOnly{` + a + `})`
	case opCollUnwindOnly2:
		return `collector{&unwindOnly{` + a + `}}.Resolve()`
	case opCollRecover1:
		return `collector{defer erc.Recover; panic(` + a + `)}.Resolve()`
	case opCollConsume2:
		return `collector{erc.Consume(SliceIterator(` + a + `))}.Resolve()`
	case opCollHelpers3:
		return `collector{erc.Check(` + k[0] + `); Handler()(` + k[1] + `); erc.Collect(_, ` + k[2] + `)}.Future()()`
	}
	return "?"
}

// ---------------------------------------------------------------- model

type item struct {
	id   error
	pred func(error) bool // opaque constituents (non-error panic values)
	name string
}

func (it item) match(e error) (ok bool) {
	defer func() {
		if recover() != nil { // comparing uncomparable dynamic types
			ok = false
		}
	}()
	if it.pred != nil {
		return it.pred(e)
	}
	return e == it.id
}

type mv struct {
	isNil  bool
	agg    bool
	ersAgg bool     // built by an ers/erc combinator: Unwind claims apply
	self   item     // Atom
	items  []item   // Aggregate: flat constituents in supply order
	blocks [][]item // ers aggregate: one block per non-nil top-level argument, supply order
	leaves int      // bitmask of identity leaves occurring in the tree
	ann    int      // number of Wrap/Wrapf annotations possibly present
	rp     int      // number of ErrRecoveredPanic possibly present
}

var nilMV = &mv{isNil: true}

func flat(m *mv) []item {
	switch {
	case m.isNil:
		return nil
	case m.agg:
		return m.items
	default:
		return []item{m.self}
	}
}

// combine is the model of every ers/erc combinator: one block per argument group.
func combine(groups ...[]*mv) *mv {
	out := &mv{agg: true, ersAgg: true}
	for _, g := range groups {
		var block []item
		for _, m := range g {
			block = append(block, flat(m)...)
		}
		if len(block) > 0 {
			out.blocks = append(out.blocks, block)
			out.items = append(out.items, block...)
		}
	}
	if len(out.items) == 0 {
		return &mv{isNil: true}
	}
	return out
}

func each(ms ...*mv) [][]*mv {
	out := make([][]*mv, len(ms))
	for i, m := range ms {
		out[i] = []*mv{m}
	}
	return out
}

func stdAgg(ms ...*mv) *mv {
	out := &mv{agg: true}
	for _, m := range ms {
		out.items = append(out.items, flat(m)...)
	}
	return out
}

// ---------------------------------------------------------------- evaluation (real constructors + model)

func eval(e *expr) (error, *mv) {
	if e.op == opLeaf {
		switch e.leaf {
		case lNil:
			return nil, nilMV
		case lE1, lE2, lP, lT, lEOF:
			v := idLeaves[e.leaf-lE1]
			return v, &mv{self: item{id: v, name: leafNames[e.leaf]}, leaves: 1 << (e.leaf - lE1)}
		case lPPStr:
			m := combine([]*mv{{self: item{name: "panic(boom)", pred: func(x error) bool { return x != nil && x.Error() == "boom" }}}})
			m.rp = 1
			return ers.ParsePanic("boom"), m
		case lPPInt:
			m := combine([]*mv{{self: item{name: "panic(42)", pred: func(x error) bool { return x != nil && strings.Contains(x.Error(), "42") }}}})
			m.rp = 1
			return ers.ParsePanic(42), m
		case lPPNil:
			return ers.ParsePanic(nil), nilMV
		case lLayer:
			// what errors.Unwrap hands out for an aggregate of three: the layer
			// below the most recent error, itself an aggregate of the two older ones
			a := &mv{self: item{id: error(e1), name: "E1"}, leaves: bitE1}
			b := &mv{self: item{id: error(e2), name: "E2"}, leaves: bitE2}
			m := combine(each(a, b)...)
			m.leaves = bitE1 | bitE2
			return errors.Unwrap(ers.Join(e1, e2, pErr)), m
		}
	}
	vs := make([]error, len(e.kids))
	ms := make([]*mv, len(e.kids))
	for i, k := range e.kids {
		vs[i], ms[i] = eval(k)
	}
	var v error
	var m *mv
	switch e.op {
	case opWrap:
		v, m = ers.Wrap(vs[0], "ann"), combine(each(ms...)...)
	case opWrapf:
		v, m = ers.Wrapf(vs[0], "ann %d", 1), combine(each(ms...)...)
	case opFmtW:
		if vs[0] == nil {
			v, m = nil, nilMV
		} else {
			v = fmt.Errorf("ctx: %w", vs[0])
			m = &mv{self: item{id: v, name: "fmtW"}}
		}
	case opPPErr:
		var r any
		if vs[0] != nil {
			r = vs[0]
		}
		v, m = ers.ParsePanic(r), combine(each(ms...)...)
	case opJoin1, opJoin2, opJoin3:
		v, m = ers.Join(vs...), combine(each(ms...)...)
	case opColl1, opColl2:
		ec := &erc.Collector{}
		for _, x := range vs {
			ec.Add(x)
		}
		v, m = ec.Resolve(), combine(each(ms...)...)
	case opStackPush1, opStackPush2:
		st := &ers.Stack{}
		for _, x := range vs {
			st.Push(x)
		}
		v, m = st.Resolve(), combine(each(ms...)...)
	case opStackAdd2:
		st := &ers.Stack{}
		st.Add(vs...)
		if st.Len() > 0 {
			v = st
		}
		m = combine(each(ms...)...)
	case opFmtWW:
		switch {
		case vs[0] == nil && vs[1] == nil:
			v, m = nil, nilMV
		case vs[0] == nil:
			v = fmt.Errorf("ctx: %w", vs[1])
			m = &mv{self: item{id: v, name: "fmtW"}}
		case vs[1] == nil:
			v = fmt.Errorf("ctx: %w", vs[0])
			m = &mv{self: item{id: v, name: "fmtW"}}
		default:
			v, m = fmt.Errorf("%w %w", vs[0], vs[1]), stdAgg(ms...)
		}
	case opErrorsJoin2:
		v = errors.Join(vs...)
		if vs[0] == nil && vs[1] == nil {
			m = nilMV
		} else {
			m = stdAgg(ms...)
		}
	case opUnwinder2:
		u := &unwinder{}
		for _, x := range vs {
			if x != nil {
				u.errs = append(u.errs, x)
			}
		}
		if len(u.errs) == 0 {
			v, m = nil, nilMV
		} else {
			v, m = u, stdAgg(ms...)
		}
	case opSIS2:
		inner, outer := &ers.Stack{}, &ers.Stack{}
		inner.Add(vs...)
		outer.Push(inner)
		v, m = outer.Resolve(), combine(ms)
	case opSIS3:
		inner, outer := &ers.Stack{}, &ers.Stack{}
		inner.Push(vs[0])
		inner.Push(vs[1])
		outer.Push(inner)
		outer.Push(vs[2])
		v, m = outer.Resolve(), combine(ms[:2], ms[2:])
	case opPPSlice3:
		v, m = ers.ParsePanic([]error{vs[0], vs[1], vs[2]}), combine(each(ms...)...)
	case opUnwinderNil2:
		// a user aggregate that hands out its own slice, which has an empty slot
		if vs[0] == nil && vs[1] == nil {
			v, m = nil, nilMV
		} else {
			v, m = &unwinder{errs: []error{vs[0], nil, vs[1]}}, stdAgg(ms...)
		}
	case opJoinUnwindOnly2, opCollUnwindOnly2:
		// an Unwind-only aggregate as the ONLY non-nil argument of a combinator: it
		// is flattened like any other aggregate
		u := &unwindOnly{}
		for _, x := range vs {
			if x != nil {
				u.errs = append(u.errs, x)
			}
		}
		if e.op == opJoinUnwindOnly2 {
			v = ers.Join(nil, u)
		} else {
			ec := &erc.Collector{}
			ec.Add(u)
			v = ec.Resolve()
		}
		m = combine(ms)
	case opCollRecover1:
		// the collector fed by a recovered panic whose value is the error
		ec := &erc.Collector{}
		func() {
			defer erc.Recover(ec)
			if vs[0] != nil {
				panic(vs[0])
			}
		}()
		v, m = ec.Resolve(), combine(each(ms...)...)
	case opCollConsume2:
		// the collector fed from an iterator of errors (nil values included)
		ec := &erc.Collector{}
		erc.Consume(context.Background(), ec, fun.SliceIterator([]error{vs[0], vs[1]}))
		v, m = ec.Resolve(), combine(each(ms...)...)
	case opCollHelpers3:
		// the collector fed through its helper entry points, read as a Future
		ec := &erc.Collector{}
		erc.Check(ec, func() error { return vs[0] })
		ec.Handler()(vs[1])
		_ = erc.Collect[int](ec)(0, vs[2])
		v, m = ec.Future()(), combine(each(ms...)...)
	}
	if m != nilMV {
		for _, k := range ms {
			m.leaves |= k.leaves
			m.ann += k.ann
			m.rp += k.rp
		}
		if !m.isNil {
			switch e.op {
			case opWrap, opWrapf:
				m.ann++
			case opPPErr, opCollRecover1:
				m.rp++
			}
		}
	}
	return v, m
}

// ---------------------------------------------------------------- oracle

type failure struct {
	tag    string
	detail string
}

func describe(errs []error) []string {
	out := make([]string, len(errs))
	for i, e := range errs {
		out[i] = fmt.Sprintf("%T(%v)", e, e)
	}
	return out
}

func isAnnotation(e error) bool {
	if e == nil {
		return false
	}
	s := e.Error()
	return s == "ann" || s == "ann 1"
}

// check evaluates every oracle on (v, m); evals counts assertions evaluated.
func check(e *expr, v error, m *mv, evals *int) (fails []failure) {
	add := func(tag, format string, args ...any) {
		fails = append(fails, failure{tag, fmt.Sprintf(format, args...)})
	}
	*evals++
	if (v == nil) != m.isNil {
		add("join/nil-iff", "result nil=%v, but a non-nil error was supplied=%v", v == nil, !m.isNil)
		return
	}
	if v == nil {
		return
	}
	// Is
	for i, leaf := range idLeaves {
		*evals++
		want := m.leaves&(1<<i) != 0
		if got := errors.Is(v, leaf); got != want {
			if want {
				add("is/missing-constituent", "errors.Is(result, %s) = false, %s was supplied", idLeafNames[i], idLeafNames[i])
			} else {
				add("is/unrelated-found", "errors.Is(result, %s) = true, %s was not supplied", idLeafNames[i], idLeafNames[i])
			}
		}
	}
	*evals += 2
	if errors.Is(v, unrelated) || errors.Is(v, unrelatedPtr) {
		add("is/unrelated-found", "errors.Is(result, unrelated sentinel) = true")
	}
	// As
	*evals += 4
	var pt *myErr
	if got, want := errors.As(v, &pt), m.leaves&bitP != 0; got != want {
		if want {
			add("as/missing-pointer", "errors.As(result, **myErr) = false, P was supplied")
		} else {
			add("as/unrelated-found", "errors.As(result, **myErr) = true, no *myErr supplied")
		}
	} else if got && pt != pErr {
		add("as/wrong-value", "errors.As yielded %v, want P", pt)
	}
	var tt typedErr
	if got, want := errors.As(v, &tt), m.leaves&bitT != 0; got != want {
		if want {
			add("as/missing-typed", "errors.As(result, *typedErr) = false, T was supplied")
		} else {
			add("as/unrelated-found", "errors.As(result, *typedErr) = true, no typedErr supplied")
		}
	} else if got && tt != tErr {
		add("as/wrong-value", "errors.As yielded %v, want T", tt)
	}
	var op *otherErr
	var ot otherTyped
	if errors.As(v, &op) || errors.As(v, &ot) {
		add("as/unrelated-found", "errors.As(result, unrelated type) = true")
	}
	// Unwind is an observation: asking twice gives the same list, for every kind
	// of root (observing an error must not change what it, or a later
	// combination built from it, contains)
	*evals++
	first, again := describe(ers.Unwind(v)), describe(ers.Unwind(v))
	if fmt.Sprint(first) != fmt.Sprint(again) {
		add("unwind/not-stable", "Unwind(result) = %v, asked again = %v", first, again)
		return
	}
	// Unwind
	if !m.ersAgg {
		return
	}
	*evals++
	list := ers.Unwind(v)
	// remove permitted extras
	var core []error
	annLeft, rpLeft := m.ann, m.rp
	for _, x := range list {
		matched := false
		for _, it := range m.items {
			if it.match(x) {
				matched = true
				break
			}
		}
		if !matched {
			if isAnnotation(x) && annLeft > 0 {
				annLeft--
				continue
			}
			if x == error(ers.ErrRecoveredPanic) && rpLeft > 0 {
				rpLeft--
				continue
			}
		}
		core = append(core, x)
	}
	if len(m.items) == 1 {
		if len(core) == 0 || !m.items[0].match(core[0]) {
			add("unwind/multiset", "single constituent %s: Unwind(result)=%v does not start with it", m.items[0].name, describe(list))
		}
		return
	}
	// exact multiset
	used := make([]bool, len(core))
	okMulti := len(core) == len(m.items)
	if okMulti {
		for _, it := range m.items {
			found := false
			for j, x := range core {
				if !used[j] && it.match(x) {
					used[j], found = true, true
					break
				}
			}
			if !found {
				okMulti = false
				break
			}
		}
	}
	if !okMulti {
		names := make([]string, len(m.items))
		for i, it := range m.items {
			names[i] = it.name
		}
		add("unwind/multiset", "Unwind(result)=%v, supplied constituents (oldest first)=%v", describe(list), names)
		return
	}
	*evals++
	pos := 0
	for b := len(m.blocks) - 1; b >= 0; b-- {
		blk := m.blocks[b]
		seg := core[pos : pos+len(blk)]
		pos += len(blk)
		u := make([]bool, len(seg))
		for _, it := range blk {
			found := false
			for j, x := range seg {
				if !u[j] && it.match(x) {
					u[j], found = true, true
					break
				}
			}
			if !found {
				add("unwind/order", "Unwind(result)=%v is not most-recent-first over the top-level arguments (argument block %d misplaced)", describe(list), b)
				return
			}
		}
	}
	return
}

// checkIdentity is the single-identity oracle (needs the argument values).
func checkIdentity(e *expr, evals *int) *failure {
	if e.op != opJoin1 && e.op != opJoin2 && e.op != opJoin3 {
		return nil
	}
	vs := make([]error, len(e.kids))
	var only error
	n, atom := 0, false
	for i, k := range e.kids {
		var km *mv
		vs[i], km = eval(k)
		if (vs[i] == nil) != km.isNil {
			return nil // the argument itself already violates nil-iff (reported there)
		}
		if vs[i] != nil {
			n++
			only, atom = vs[i], !km.agg
		}
	}
	if n != 1 || !atom {
		return nil
	}
	*evals++
	got := ers.Join(vs...)
	same := false
	func() {
		defer func() { _ = recover() }()
		same = got == only
	}()
	if !same {
		return &failure{"join/single-identity", fmt.Sprintf("ers.Join with the single error %T(%v) returned %T(%v)", only, only, got, got)}
	}
	return nil
}

// run evaluates one tree completely (under recover).
func run(e *expr, evals *int) (fails []failure) {
	defer func() {
		if p := recover(); p != nil {
			fails = append(fails, failure{"tree/panic", fmt.Sprint(p)})
		}
	}()
	v, m := eval(e)
	fails = check(e, v, m, evals)
	if f := checkIdentity(e, evals); f != nil {
		fails = append(fails, *f)
	}
	return fails
}

func failsTag(e *expr, tag string) bool {
	n := 0
	for _, f := range run(e, &n) {
		if f.tag == tag {
			return true
		}
	}
	return false
}

func minimalFailing(e *expr, tag string) *expr {
	for _, k := range e.kids {
		if failsTag(k, tag) {
			return minimalFailing(k, tag)
		}
	}
	return e
}

// ---------------------------------------------------------------- enumeration

// level1 = every constructor over every tuple of leaves from alpha.
func level1(alpha []int) []*expr {
	var out []*expr
	for op := 1; op < numOps; op++ {
		n := opArity[op]
		idx := make([]int, n)
		for {
			kids := make([]*expr, n)
			for i, ix := range idx {
				kids[i] = leafExprs[alpha[ix]]
			}
			out = append(out, mk(op, kids...))
			i := n - 1
			for ; i >= 0; i-- {
				idx[i]++
				if idx[i] < len(alpha) {
					break
				}
				idx[i] = 0
			}
			if i < 0 {
				break
			}
		}
	}
	return out
}

// above calls fn for every tree whose root has exactly one child from deep
// (at any position) and leaf siblings from sib.
func above(deep []*expr, sib []int, fn func(*expr)) {
	for _, d := range deep {
		for op := 1; op < numOps; op++ {
			n := opArity[op]
			for pos := 0; pos < n; pos++ {
				idx := make([]int, n-1)
				for {
					kids := make([]*expr, 0, n)
					si := 0
					for i := 0; i < n; i++ {
						if i == pos {
							kids = append(kids, d)
						} else {
							kids = append(kids, leafExprs[sib[idx[si]]])
							si++
						}
					}
					fn(mk(op, kids...))
					i := n - 2
					for ; i >= 0; i-- {
						idx[i]++
						if idx[i] < len(sib) {
							break
						}
						idx[i] = 0
					}
					if i < 0 {
						break
					}
				}
			}
		}
	}
}

func materialize(deep []*expr, sib []int) []*expr {
	var out []*expr
	above(deep, sib, func(e *expr) { out = append(out, e) })
	return out
}

// ---------------------------------------------------------------- driver

type found struct {
	sig    string
	size   int
	replay map[string]any
}

type worker struct {
	trees, evals int
	found        map[string]found
	samples      []string
}

func (w *worker) visit(e *expr) {
	w.trees++
	fails := run(e, &w.evals)
	for _, f := range fails {
		min := e
		if f.tag != "tree/panic" {
			min = minimalFailing(e, f.tag)
		}
		detail := f.detail
		if min != e {
			n := 0
			for _, g := range run(min, &n) {
				if g.tag == f.tag {
					detail = g.detail
				}
			}
		}
		sig := f.tag + "/" + opNames[min.op]
		if old, ok := w.found[sig]; ok && (old.size < min.size || (old.size == min.size && old.replay["expr"].(string) <= min.String())) {
			continue
		}
		w.found[sig] = found{sig, min.size, map[string]any{"expr": min.String(), "detail": detail, "first_seen_in": e.String(),
			"legend": "E1,E2 ers.Error constants; P *myErr; T typedErr{7}; collector{a; b} = Collector.Add(a), Add(b); &unwinder{..} = user type with Unwind() []error and Unwrap() []error; stackPush = fresh Stack.Push(..)...; stackAdd.asError = fresh Stack.Add(..) used directly as error; outer/inner = fresh Stacks"}}
	}
}

// phase is one family of trees; gen enumerates the roots belonging to the
// index range [lo,hi) of n independent slices of the family.
type phase struct {
	name  string
	depth int
	n     int
	gen   func(lo, hi int, fn func(*expr))
}

func rootsPhase(name string, roots []*expr) phase {
	return phase{name: name, depth: 1, n: len(roots), gen: func(lo, hi int, fn func(*expr)) {
		for _, e := range roots[lo:hi] {
			fn(e)
		}
	}}
}

// spinePhase: exactly one child from deep (any position), leaf siblings from sib.
func spinePhase(name string, depth int, deep []*expr, sib []int) phase {
	return phase{name: name, depth: depth, n: len(deep), gen: func(lo, hi int, fn func(*expr)) { above(deep[lo:hi], sib, fn) }}
}

// pairPhase: every binary constructor over (l, r) and (r, l), l in L, r in R.
func pairPhase(name string, L, R []*expr) phase {
	return phase{name: name, depth: 2, n: len(L), gen: func(lo, hi int, fn func(*expr)) {
		for _, l := range L[lo:hi] {
			for _, r := range R {
				for op := 1; op < numOps; op++ {
					if opArity[op] == 2 {
						fn(mk(op, l, r))
						fn(mk(op, r, l))
					}
				}
			}
		}
	}}
}

// triplePhase: every ternary constructor over (a, b, c), a in A, b in B, c in C.
func triplePhase(name string, A, B, C []*expr) phase {
	return phase{name: name, depth: 2, n: len(A), gen: func(lo, hi int, fn func(*expr)) {
		for _, a := range A[lo:hi] {
			for _, b := range B {
				for _, c := range C {
					for op := 1; op < numOps; op++ {
						if opArity[op] == 3 {
							fn(mk(op, a, b, c))
						}
					}
				}
			}
		}
	}}
}

// Run enumerates all trees of the tier.
func Run(r *rep.Report, tier string) {
	start := time.Now()
	limit := 45 * time.Second
	if tier == "thorough" {
		limit = 8 * time.Minute
	}
	deadline := start.Add(limit)

	full := []int{lNil, lE1, lE2, lP, lT, lEOF, lPPStr, lPPInt, lPPNil, lLayer}
	l1full := level1(full)
	l1 := func(leaves ...int) []*expr { return level1(leaves) }

	phases := []phase{rootsPhase("depth1: every constructor over all 10-leaf tuples", l1full)}
	var rule string
	if tier == "thorough" {
		d2 := materialize(l1(lNil, lE1, lT), []int{lNil, lP})
		d3 := materialize(materialize(l1(lE1), []int{lP}), []int{lE2})
		phases = append(phases,
			spinePhase("depth2 spine: one depth-1 child (all 9 leaves), leaf siblings from {nil,E2,P}", 2, l1full, []int{lNil, lE2, lP}),
			pairPhase("depth2 full binary: both children depth-1, over leaves {nil,E1,T} and {nil,E2,P}, both orders", l1(lNil, lE1, lT), l1(lNil, lE2, lP)),
			triplePhase("depth2 full ternary: three depth-1 children over leaves {E1},{E2,nil},{P}", l1(lE1), l1(lE2, lNil), l1(lP)),
			spinePhase("depth3 spine: one depth-2 spine child (leaves {nil,E1,T}, siblings {nil,P}), leaf siblings from {nil,E2}", 3, d2, []int{lNil, lE2}),
			spinePhase("depth4 spine: one depth-3 spine child (leaf E1, siblings P, E2), leaf sibling io.EOF", 4, d3, []int{lEOF}),
		)
		rule = "trees of depth<=4: depth 1 complete over 10 leaves; depth 2 spine + all binary/ternary roots over two/three depth-1 children (reduced leaf alphabets); depth 3 and 4 spine trees (exactly one non-leaf child per node above depth 1, any position); alphabets as listed in phases"
	} else {
		d2 := materialize(l1(lE1), []int{lP})
		phases = append(phases,
			spinePhase("depth2 spine: one depth-1 child (leaves {nil,E1,T}), leaf siblings from {nil,P}", 2, l1(lNil, lE1, lT), []int{lNil, lP}),
			pairPhase("depth2 full binary: both children depth-1, over leaves {nil,E1} and {nil,E2}, both orders", l1(lNil, lE1), l1(lNil, lE2)),
			spinePhase("depth3 spine: one depth-2 spine child (leaf E1, sibling P), leaf sibling E2", 3, d2, []int{lE2}),
		)
		rule = "trees of depth<=3: depth 1 complete over 10 leaves; depth 2 spine + all binary roots over two depth-1 children (reduced leaf alphabets); depth 3 spine trees (exactly one non-leaf child per node above depth 1, any position); alphabets as listed in phases"
	}

	nw := runtime.NumCPU()
	total := worker{found: map[string]found{}}
	depthDone, exhaustive := 0, true
	var phaseInfo []string
	for _, ph := range phases {
		chunk := ph.n/(nw*8) + 1
		jobs := make(chan [2]int, ph.n/chunk+1)
		for lo := 0; lo < ph.n; lo += chunk {
			hi := lo + chunk
			if hi > ph.n {
				hi = ph.n
			}
			jobs <- [2]int{lo, hi}
		}
		close(jobs)
		ws := make([]*worker, nw)
		var wg sync.WaitGroup
		var mu sync.Mutex
		timedOut := false
		for i := range ws {
			w := &worker{found: map[string]found{}}
			ws[i] = w
			wg.Add(1)
			go func() {
				defer wg.Done()
				for j := range jobs {
					if time.Now().After(deadline) {
						mu.Lock()
						timedOut = true
						mu.Unlock()
						continue
					}
					ph.gen(j[0], j[1], w.visit)
				}
			}()
		}
		wg.Wait()
		before := total.trees
		for _, w := range ws {
			total.trees += w.trees
			total.evals += w.evals
			for sig, f := range w.found {
				if old, ok := total.found[sig]; !ok || f.size < old.size || (f.size == old.size && f.replay["expr"].(string) < old.replay["expr"].(string)) {
					total.found[sig] = f
				}
			}
		}
		if timedOut {
			exhaustive = false
			phaseInfo = append(phaseInfo, fmt.Sprintf("%s: INCOMPLETE (deadline), %d trees", ph.name, total.trees-before))
			break
		}
		phaseInfo = append(phaseInfo, fmt.Sprintf("%s: %d trees", ph.name, total.trees-before))
		depthDone = ph.depth
	}

	sigs := make([]string, 0, len(total.found))
	for s := range total.found {
		sigs = append(sigs, s)
	}
	sort.Strings(sigs)
	for _, s := range sigs {
		r.Violation(s, total.found[s].replay)
	}
	r.Add("states", total.trees)
	r.Add("transitions", total.evals)
	r.Add("traces_validated_against_impl", total.trees)
	r.Add("evaluations", total.evals)
	r.Add("distinct_nontrivial", total.trees)
	r.Set("exhaustive", exhaustive)
	r.Set("depth_completed", depthDone)
	r.Set("phases", phaseInfo)
	r.Set("constructors", opNames[1:])
	r.Set("rule", rule)
	for _, e := range []*expr{l1full[0], l1full[len(l1full)/2], l1full[len(l1full)-1]} {
		r.Sample(e.String())
	}
	last := phases[len(phases)-1]
	n := 0
	last.gen(last.n/2, last.n/2+1, func(e *expr) {
		if n%7 == 3 && n < 30 {
			r.Sample(e.String())
		}
		n++
	})
}
