// C12 (concurrent half): a Collector used from many goroutines holds exactly
// the non-nil errors added, and Resolve is nil iff none were. Every schedule
// (deviation bounded) of small programs of Add / Resolve / Len / Iterator
// callers over the real erc.Collector, with the race oracle on.
package main

import (
	"context"
	"errors"
	"fmt"
	"sort"
	"time"

	"github.com/tychoish/fun/erc"
	"github.com/tychoish/fun/ers"
	"verif/vs"
	"verif/vs/runner"
)

var errs = []error{errors.New("e0"), errors.New("e1"), errors.New("e2"), errors.New("e3")}

type snap struct {
	at      int
	kind    string
	n       int
	members []int
	isNil   bool
}

func idx(err error) int {
	for i, e := range errs {
		if err == e {
			return i
		}
	}
	return -1
}

// adders: each adds its list (nil entries are ignored by the collector);
// observers: Resolve / Len / Iterator at arbitrary times.
func scenario(adds [][]int, observers []string) vs.Scenario {
	return func() (func(), func(*vs.End) (string, string)) {
		var snaps []snap
		addDone := map[int]int{}  // error index -> time its Add returned
		addStart := map[int]int{} // error index -> time its Add was invoked
		var final []int
		finalNil := false
		finalLen := -1
		body := func() {
			ctx := context.Background()
			ec := &erc.Collector{}
			fin := make(chan struct{}, 8)
			n := 0
			for _, list := range adds {
				list := list
				n++
				go func() {
					for _, i := range list {
						if i < 0 {
							ec.Add(nil)
							continue
						}
						addStart[i] = vs.Now()
						ec.Add(errs[i])
						addDone[i] = vs.Now()
					}
					fin <- struct{}{}
				}()
			}
			for _, ob := range observers {
				ob := ob
				n++
				go func() {
					s := snap{kind: ob}
					switch ob {
					case "Resolve":
						err := ec.Resolve()
						s.at = vs.Now()
						s.isNil = err == nil
						for _, e := range ers.Unwind(err) {
							s.members = append(s.members, idx(e))
						}
					case "Len":
						s.n = ec.Len()
						s.at = vs.Now()
					case "Iterator":
						it := ec.Iterator()
						s.at = vs.Now()
						for it.Next(ctx) {
							s.members = append(s.members, idx(it.Value()))
						}
					}
					snaps = append(snaps, s)
					fin <- struct{}{}
				}()
			}
			for i := 0; i < n; i++ {
				<-fin
			}
			err := ec.Resolve()
			finalNil = err == nil
			finalLen = ec.Len()
			for _, e := range ers.Unwind(err) {
				final = append(final, idx(e))
			}
			for i, e := range errs {
				if _, ok := addDone[i]; ok && !errors.Is(err, e) {
					final = append(final, -100-i)
				}
			}
		}
		check := func(e *vs.End) (string, string) {
			where := fmt.Sprintf("adds=%v observers=%v", adds, observers)
			if len(e.Panics) > 0 {
				return "panic/" + e.Panics[0].Site, e.Panics[0].Value
			}
			if e.Status != vs.Clean {
				return "stuck/" + e.LibSites(), where
			}
			if len(e.Races) > 0 {
				return "race/" + e.Races[0].Signature, where + ": " + e.Races[0].A + " <-> " + e.Races[0].B
			}
			var want []int
			for _, l := range adds {
				for _, i := range l {
					if i >= 0 {
						want = append(want, i)
					}
				}
			}
			got := append([]int(nil), final...)
			sort.Ints(got)
			sort.Ints(want)
			if fmt.Sprint(got) != fmt.Sprint(want) {
				return "final-contents-mismatch", where + fmt.Sprintf(": collector holds %v, added %v (negative = errors.Is false)", final, want)
			}
			if finalNil != (len(want) == 0) {
				return "resolve-nil-iff", where
			}
			if finalLen != len(want) {
				return "len-mismatch", where + fmt.Sprintf(": Len()=%d", finalLen)
			}
			// observers: every member seen was added (its Add had at least been invoked),
			// every error whose Add returned before the observation started... (observation
			// start is not recorded; only soundness of what was seen is asserted)
			for _, s := range snaps {
				seen := map[int]bool{}
				for _, m := range s.members {
					if m < 0 {
						return "observer-saw-unknown-error/" + s.kind, where
					}
					if seen[m] {
						return "observer-saw-duplicate/" + s.kind, where + fmt.Sprint(s.members)
					}
					seen[m] = true
					if st, ok := addStart[m]; !ok || st > s.at {
						return "observer-saw-error-before-it-was-added/" + s.kind, where
					}
				}
				if s.kind == "Len" && (s.n < 0 || s.n > len(want)) {
					return "observer-len-out-of-range", where
				}
			}
			return "", ""
		}
		return body, check
	}
}

func build(tier string) ([]runner.Instance, time.Duration) {
	bound, budget := 2, 60*time.Second
	if tier == "thorough" {
		bound, budget = 3, 10*time.Minute
	}
	var out []runner.Instance
	addSets := [][][]int{
		{{0}, {1}},
		{{0, 1}, {2}},
		{{0, -1}, {-1, 1}},
		{{-1}, {-1}},
		{{0}, {1}, {2}},
	}
	obsSets := [][]string{{}, {"Resolve"}, {"Len"}, {"Iterator"}, {"Resolve", "Iterator"}}
	for _, a := range addSets {
		for _, o := range obsSets {
			if len(a) == 3 && len(o) > 1 && tier != "thorough" {
				continue
			}
			out = append(out, runner.Instance{Group: "collector", Name: fmt.Sprintf("collector/adds=%v,observers=%v", a, o), Bound: bound, Race: true, Scenario: scenario(a, o)})
		}
	}
	return out, budget
}

func main() {
	runner.Main(runner.Options{Property: "C12", Level: "model_checking", Build: build,
		Rule:   "concurrent half: every schedule (deviation bounded) of 2-3 adders (nil entries included) and 0-2 observers (Resolve/Len/Iterator) over the real erc.Collector with the happens-before race oracle on; evaluations = executions",
		Assume: []string{"model of sync primitives in verif/vs (DESIGN §2.2)"}})
}
