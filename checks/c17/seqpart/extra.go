package seqpart

import (
	"fmt"
	"runtime"
	"sort"
	"sync"
	"sync/atomic"
	"time"

	"github.com/tychoish/fun/dt"
)

// Phase L: long inputs over a tiny key alphabet. Sorting routines switch
// algorithm with the input length (insertion sort below a threshold, merge /
// pattern-defeating quicksort above it), so stability and correctness on
// inputs of length <= 8 say nothing about the code used for longer lists. All
// key sequences over {0,1} of length 9..maxBin and over {0,1,2} of length
// 9..maxTer are evaluated as (key, position) pairs under the key-projected
// orderings (ascending and descending) with the same oracles as the short
// inputs.
//
// Phase H: the Heap as a state machine. Every sequence of Push(1|2|3) / Pop of
// length <= depth against a sorted-multiset model, compared after every
// operation (Pop value and ok, Len), then drained; under the native and the
// reversed strict ordering.

type extraStats struct {
	longInputs, longEvals int
	heapSeqs, heapOps     int
	exhaustive            bool
	maxBin, maxTer, depth int
}

func runExtra(c *collector, tier string, deadline time.Time, baseIndex int) extraStats {
	st := extraStats{exhaustive: true, maxBin: 16, maxTer: 10, depth: 7}
	if tier == "thorough" {
		st.maxBin, st.maxTer, st.depth = 20, 12, 9
	}
	pos := pairOrderings()
	workers := runtime.NumCPU()
	var evals, inputs atomic.Int64
	var timedOut atomic.Bool

	type job struct {
		base, n int
	}
	var jobs []job
	for n := 9; n <= st.maxBin; n++ {
		jobs = append(jobs, job{2, n})
	}
	for n := 9; n <= st.maxTer; n++ {
		jobs = append(jobs, job{3, n})
	}
	for _, jb := range jobs {
		total := 1
		for i := 0; i < jb.n; i++ {
			total *= jb.base
		}
		var wg sync.WaitGroup
		for wk := 0; wk < workers; wk++ {
			wg.Add(1)
			go func(wk int) {
				defer wg.Done()
				for k := wk; k < total; k += workers {
					if k%4096 == wk && time.Now().After(deadline) {
						timedOut.Store(true)
						return
					}
					ps := make([]pair, jb.n)
					for i, d := jb.n-1, k; i >= 0; i, d = i-1, d/jb.base {
						ps[i] = pair{d % jb.base, i}
					}
					for _, o := range pos {
						if o.dupFreeOnly {
							continue
						}
						x := &ctx[pair]{c: c, index: baseIndex + jb.n*1000000 + k, input: ps, ord: o, extra: pair{7, 99},
							stable: func(a, b pair) bool { return a.ID < b.ID }}
						x.sortOp("SortMerge")
						x.sortOp("SortQuick")
						x.isSorted()
						evals.Add(3)
					}
					inputs.Add(1)
				}
			}(wk)
		}
		wg.Wait()
		if timedOut.Load() {
			st.exhaustive = false
			break
		}
	}
	st.longInputs, st.longEvals = int(inputs.Load()), int(evals.Load())

	// Phase H
	type hord struct {
		name string
		lt   func(a, b int) bool
	}
	hords := []hord{{"cmp.LessThanNative[int]", func(a, b int) bool { return a < b }}, {"func(a,b) a>b", func(a, b int) bool { return a > b }}}
	const nops = 4 // Push(1), Push(2), Push(3), Pop
	for depth := 1; depth <= st.depth && st.exhaustive; depth++ {
		total := 1
		for i := 0; i < depth; i++ {
			total *= nops
		}
		var wg sync.WaitGroup
		var seqs, ops atomic.Int64
		for wk := 0; wk < workers; wk++ {
			wg.Add(1)
			go func(wk int) {
				defer wg.Done()
				for k := wk; k < total; k += workers {
					if k%4096 == wk && time.Now().After(deadline) {
						timedOut.Store(true)
						return
					}
					script := make([]int, depth)
					for i, d := depth-1, k; i >= 0; i, d = i-1, d/nops {
						script[i] = d % nops
					}
					for _, o := range hords {
						heapScript(c, baseIndex+depth*100000000+k, script, o.name, o.lt)
						ops.Add(int64(depth))
					}
					seqs.Add(1)
				}
			}(wk)
		}
		wg.Wait()
		st.heapSeqs += int(seqs.Load())
		st.heapOps += int(ops.Load())
		if timedOut.Load() {
			st.exhaustive = false
		}
	}
	return st
}

func scriptString(script []int) []string {
	out := make([]string, len(script))
	for i, op := range script {
		if op == 3 {
			out[i] = "Pop"
		} else {
			out[i] = fmt.Sprintf("Push(%d)", op+1)
		}
	}
	return out
}

func heapScript(c *collector, index int, script []int, oname string, lt func(a, b int) bool) {
	fail := func(sig, info string) { c.fail(sig, "", index, scriptString(script), oname, info) }
	guard(func(p any) { fail("heap/panic", fmt.Sprint(p)) }, func() {
		h := &dt.Heap[int]{LT: lt}
		var model []int // kept sorted by lt
		for i, op := range script {
			if op < 3 {
				v := op + 1
				h.Push(v)
				model = append(model, v)
				sort.SliceStable(model, func(a, b int) bool { return lt(model[a], model[b]) })
			} else {
				v, ok := h.Pop()
				if ok != (len(model) > 0) {
					fail("heap/interleaved/not-exactly-once", fmt.Sprintf("op %d Pop()=(%v,%v) but the heap should hold %v", i, v, ok, model))
					return
				}
				if ok {
					if v != model[0] {
						if lt(model[0], v) {
							fail("heap/interleaved/out-of-order", fmt.Sprintf("op %d Pop()=%v but %v is pending and lt it (pending %v)", i, v, model[0], model))
						} else {
							fail("heap/interleaved/not-exactly-once", fmt.Sprintf("op %d Pop()=%v, pending %v", i, v, model))
						}
						return
					}
					model = model[1:]
				}
			}
			if h.Len() != len(model) {
				fail("heap/interleaved/not-exactly-once", fmt.Sprintf("after op %d: Len()=%d, pending %v", i, h.Len(), model))
				return
			}
		}
		for len(model) > 0 {
			v, ok := h.Pop()
			if !ok || v != model[0] {
				fail("heap/interleaved/not-exactly-once", fmt.Sprintf("draining: Pop()=(%v,%v), still pending %v", v, ok, model))
				return
			}
			model = model[1:]
		}
		if v, ok := h.Pop(); ok {
			fail("heap/interleaved/not-exactly-once", fmt.Sprintf("drained heap popped %v", v))
		}
	})
}
