// Package seqpart is the C17 check: SortMerge, SortQuick, IsSorted and Heap
// evaluated on every input sequence of a finite domain, for several strict
// weak orderings, against oracles that do not use the library.
package seqpart

import (
	"fmt"
	"os"
	"runtime"
	"sort"
	"strings"
	"sync"
	"sync/atomic"
	"time"

	"github.com/tychoish/fun/dt"
	"github.com/tychoish/fun/dt/cmp"

	"verif/rep"
)

var domain = []int{-1, 0, 1, 2}

// pair is the element type that makes stability observable: orderings look
// at K only, ID is the position in the input.
type pair struct{ K, ID int }

// ordering = one comparison function of the quantifier.
type ordering[T any] struct {
	name        string
	lt          cmp.LessThan[T]
	dupFreeOnly bool // not a strict weak order when two equivalent elements exist (cmp.Reverse)
}

func intOrderings() []ordering[int] {
	return []ordering[int]{
		{name: "cmp.LessThanNative[int]", lt: cmp.LessThanNative[int]},
		{name: "func(a,b) a>b", lt: func(a, b int) bool { return a > b }},
		{name: "cmp.Reverse(cmp.LessThanNative[int])", lt: cmp.Reverse(cmp.LessThanNative[int]), dupFreeOnly: true},
	}
}

func pairOrderings() []ordering[pair] {
	key := func(p pair) int { return p.K }
	return []ordering[pair]{
		{name: "cmp.LessThanConverter(pair.K)", lt: cmp.LessThanConverter(key)},
		{name: "func(a,b) a.K>b.K", lt: func(a, b pair) bool { return a.K > b.K }},
		{name: "cmp.Reverse(cmp.LessThanConverter(pair.K))", lt: cmp.Reverse(cmp.LessThanConverter(key)), dupFreeOnly: true},
	}
}

// ---------------------------------------------------------------------------
// findings

type example struct {
	index int // enumeration index of the input: smaller = shorter
	data  map[string]any
}

type collector struct {
	mu    sync.Mutex
	first map[string]example
	count map[string]int
}

// fail records one failing evaluation. variant separates different faces of
// one defect (e.g. false positive / false negative) so that the replay file
// of the signature carries the smallest input of each.
func (c *collector) fail(sig, variant string, index int, input any, order, info string) {
	c.mu.Lock()
	defer c.mu.Unlock()
	c.count[sig]++
	k := sig + "\x00" + variant
	if cur, ok := c.first[k]; !ok || index < cur.index {
		d := map[string]any{"input": input, "lt": order, "info": info}
		if variant != "" {
			d["case"] = variant
		}
		c.first[k] = example{index, d}
	}
}

// ---------------------------------------------------------------------------
// bounded observation of a list

func walk[T any](l *dt.List[T], n int, back bool) (ptrs []*dt.Element[T], done bool) {
	bound := 3*n + 5
	e := l.Front()
	if back {
		e = l.Back()
	}
	for i := 0; i <= bound; i++ {
		if !e.Ok() {
			return ptrs, true
		}
		ptrs = append(ptrs, e)
		if back {
			e = e.Previous()
		} else {
			e = e.Next()
		}
	}
	return ptrs, false
}

func values[T any](p []*dt.Element[T]) []T {
	out := make([]T, len(p))
	for i := range p {
		out[i] = p[i].Value()
	}
	return out
}

func eq[T comparable](a, b []T) bool {
	if len(a) != len(b) {
		return false
	}
	for i := range a {
		if a[i] != b[i] {
			return false
		}
	}
	return true
}

func sameMultiset[T comparable](a, b []T) bool {
	if len(a) != len(b) {
		return false
	}
	m := map[T]int{}
	for _, v := range a {
		m[v]++
	}
	for _, v := range b {
		m[v]--
		if m[v] < 0 {
			return false
		}
	}
	return true
}

// firstOutOfOrder is the independent sortedness oracle: the first position
// whose element is lt its predecessor, or -1.
func firstOutOfOrder[T any](s []T, lt cmp.LessThan[T]) int {
	for i := 1; i < len(s); i++ {
		if lt(s[i], s[i-1]) {
			return i
		}
	}
	return -1
}

// usable checks that l, which the walks say holds w, behaves as a list
// holding w: Len, both directions agree element by element, membership, and
// PushBack / PopFront / PopBack keep working and return the right values.
func usable[T comparable](l *dt.List[T], w []T, extra T) string {
	n := len(w)
	if l.Len() != n {
		return fmt.Sprintf("Len()=%d but the list holds %d elements", l.Len(), n)
	}
	fw, done := walk(l, n, false)
	if !done || !eq(values(fw), w) {
		return fmt.Sprintf("forward walk %v (ended=%v), expected %v", values(fw), done, w)
	}
	bw, done := walk(l, n, true)
	if !done || len(bw) != n {
		return fmt.Sprintf("backward walk %v (ended=%v) does not mirror the forward walk %v", values(bw), done, w)
	}
	for i := range fw {
		if fw[i] != bw[n-1-i] {
			return fmt.Sprintf("backward walk %v does not mirror the forward walk %v", values(bw), w)
		}
	}
	for i, e := range fw {
		if !e.In(l) {
			return fmt.Sprintf("element %d (%v) of the list reports In(list)=false", i, e.Value())
		}
	}
	model := append(append([]T{}, w...), extra)
	l.PushBack(extra)
	if fw, done := walk(l, n+1, false); !done || !eq(values(fw), model) || l.Len() != n+1 {
		return fmt.Sprintf("after PushBack(%v): forward walk %v, Len()=%d, expected %v", extra, values(fw), l.Len(), model)
	}
	if e := l.PopFront(); !e.Ok() || e.Value() != model[0] || e.In(l) {
		return fmt.Sprintf("PopFront() returned Ok=%v value=%v In=%v, expected %v", e.Ok(), e.Value(), e.In(l), model[0])
	}
	model = model[1:]
	if len(model) > 0 {
		if e := l.PopBack(); !e.Ok() || e.Value() != model[len(model)-1] || e.In(l) {
			return fmt.Sprintf("PopBack() returned Ok=%v value=%v In=%v, expected %v", e.Ok(), e.Value(), e.In(l), model[len(model)-1])
		}
		model = model[:len(model)-1]
	} else if e := l.PopBack(); e.Ok() {
		return "PopBack() on the emptied list returned an element reporting Ok()"
	}
	fw, done = walk(l, len(model), false)
	bw, done2 := walk(l, len(model), true)
	if !done || !done2 || !eq(values(fw), model) || len(bw) != len(model) || l.Len() != len(model) {
		return fmt.Sprintf("after PushBack/PopFront/PopBack: forward walk %v, backward walk %v, Len()=%d, expected %v", values(fw), values(bw), l.Len(), model)
	}
	// insertion at the front (goes through the root sentinel)
	l.PushFront(extra)
	model = append([]T{extra}, model...)
	if fw, done := walk(l, len(model), false); !done || !eq(values(fw), model) || l.Len() != len(model) || !l.Front().In(l) {
		return fmt.Sprintf("after PushFront(%v): forward walk %v, Len()=%d, Front().In(list)=%v, expected %v", extra, values(fw), l.Len(), l.Front().In(l), model)
	}
	if e := l.PopFront(); !e.Ok() || e.Value() != extra || e.In(l) {
		return fmt.Sprintf("PopFront() after PushFront(%v) returned Ok=%v value=%v In=%v", extra, e.Ok(), e.Value(), e.In(l))
	}
	model = model[1:]
	// drain completely, then reuse the emptied list
	for i := range model {
		if e := l.PopFront(); !e.Ok() || e.Value() != model[i] {
			return fmt.Sprintf("draining: PopFront() #%d returned Ok=%v value=%v, expected %v", i+1, e.Ok(), e.Value(), model[i])
		}
	}
	if l.Len() != 0 || l.Front().Ok() || l.Back().Ok() {
		return fmt.Sprintf("after draining: Len()=%d Front().Ok()=%v Back().Ok()=%v", l.Len(), l.Front().Ok(), l.Back().Ok())
	}
	l.PushBack(extra)
	l.PushFront(extra)
	if fw, done := walk(l, 2, false); !done || len(fw) != 2 || l.Len() != 2 || !l.Front().In(l) || !l.Back().In(l) {
		return fmt.Sprintf("refilling the drained list: forward walk %v (ended=%v), Len()=%d, Front().In=%v Back().In=%v, expected two elements", values(fw), done, l.Len(), l.Front().In(l), l.Back().In(l))
	}
	if e := l.PopBack(); !e.Ok() || e.Value() != extra {
		return fmt.Sprintf("PopBack() on the refilled list returned Ok=%v value=%v", e.Ok(), e.Value())
	}
	return ""
}

// ---------------------------------------------------------------------------
// the four evaluations

type ctx[T comparable] struct {
	c      *collector
	index  int
	input  []T
	ord    ordering[T]
	extra  T
	stable func(a, b T) bool // nil, or: "a was before b in the input"
}

func (x *ctx[T]) fail(sig, info string) { x.c.fail(sig, "", x.index, x.input, x.ord.name, info) }
func (x *ctx[T]) failCase(sig, variant, info string) {
	x.c.fail(sig, variant, x.index, x.input, x.ord.name, info)
}

func guard(onPanic func(p any), f func()) {
	defer func() {
		if p := recover(); p != nil {
			onPanic(p)
		}
	}()
	f()
}

func (x *ctx[T]) sortOp(op string) {
	guard(func(p any) { x.fail("sort/panic/"+op, fmt.Sprint(p)) }, func() {
		l := &dt.List[T]{}
		for _, v := range x.input {
			l.PushBack(v)
		}
		if op == "SortMerge" {
			l.SortMerge(x.ord.lt)
		} else {
			l.SortQuick(x.ord.lt)
		}
		n := len(x.input)
		fw, done := walk(l, n, false)
		w := values(fw)
		if !done || !sameMultiset(w, x.input) {
			x.fail("sort/not-permutation/"+op, fmt.Sprintf("forward walk after the sort %v (ended=%v)", w, done))
			return
		}
		if i := firstOutOfOrder(w, x.ord.lt); i >= 0 {
			x.fail("sort/not-sorted/"+op, fmt.Sprintf("result %v: element %d is lt its predecessor", w, i))
			return
		}
		if op == "SortQuick" && x.stable != nil {
			for i := 1; i < len(w); i++ {
				if !x.ord.lt(w[i-1], w[i]) && !x.ord.lt(w[i], w[i-1]) && !x.stable(w[i-1], w[i]) {
					x.fail("sort/not-stable/"+op, fmt.Sprintf("result %v: equal elements %d and %d changed their relative order", w, i-1, i))
					return
				}
			}
		}
		if msg := usable(l, w, x.extra); msg != "" {
			x.fail("sort/not-usable-after/"+op, fmt.Sprintf("sorted to %v, then: %s", w, msg))
		}
	})
}

func (x *ctx[T]) isSorted() {
	guard(func(p any) { x.fail("issorted/panic", fmt.Sprint(p)) }, func() {
		l := &dt.List[T]{}
		for _, v := range x.input {
			l.PushBack(v)
		}
		got := l.IsSorted(x.ord.lt)
		i := firstOutOfOrder(x.input, x.ord.lt)
		if want := i < 0; got != want {
			why, variant := "no adjacent pair is out of order", "sorted list reported unsorted"
			if i >= 0 {
				why, variant = fmt.Sprintf("element %d is lt element %d", i, i-1), "unsorted list reported sorted"
			}
			x.failCase("issorted/wrong-answer", variant, fmt.Sprintf("IsSorted=%v, expected %v: %s", got, want, why))
			return
		}
		if msg := usable(l, x.input, x.extra); msg != "" {
			x.fail("issorted/mutated-list", msg)
		}
	})
}

func (x *ctx[T]) heap() {
	guard(func(p any) { x.fail("heap/panic", fmt.Sprint(p)) }, func() {
		h := &dt.Heap[T]{LT: x.ord.lt}
		for _, v := range x.input {
			h.Push(v)
		}
		n := len(x.input)
		if h.Len() != n {
			x.fail("heap/not-exactly-once", fmt.Sprintf("Len()=%d after %d pushes", h.Len(), n))
			return
		}
		var out []T
		for i := 0; i < n; i++ {
			v, ok := h.Pop()
			if !ok {
				x.fail("heap/not-exactly-once", fmt.Sprintf("Pop %d of %d reported !ok, popped so far %v", i+1, n, out))
				return
			}
			out = append(out, v)
		}
		if !sameMultiset(out, x.input) {
			x.fail("heap/not-exactly-once", fmt.Sprintf("popped %v", out))
			return
		}
		if v, ok := h.Pop(); ok || h.Len() != 0 {
			x.fail("heap/not-exactly-once", fmt.Sprintf("after popping everything: Pop()=(%v,%v) Len()=%d", v, ok, h.Len()))
			return
		}
		if i := firstOutOfOrder(out, x.ord.lt); i >= 0 {
			x.fail("heap/out-of-order", fmt.Sprintf("popped %v: pop %d is lt pop %d", out, i+1, i))
		}
	})
}

// ---------------------------------------------------------------------------

func hasDuplicates(s []int) bool {
	var seen [8]bool
	for _, v := range s {
		if seen[v+1] {
			return true
		}
		seen[v+1] = true
	}
	return false
}

func classify(s []int) string {
	lt := func(a, b int) bool { return a < b }
	first := firstOutOfOrder(s, lt)
	switch {
	case len(s) == 0:
		return "empty"
	case len(s) == 1:
		return "singleton"
	case first < 0 && firstOutOfOrder(s, func(a, b int) bool { return a > b }) < 0:
		return "all_equal"
	case first < 0:
		return "sorted"
	case firstOutOfOrder(s, func(a, b int) bool { return a > b }) < 0:
		return "reverse_sorted"
	case first == len(s)-1:
		return "only_last_pair_out_of_order"
	case first == 1 && firstOutOfOrder(s[1:], lt) < 0:
		return "only_first_pair_out_of_order"
	}
	return "other"
}

const hangLimit = 30 * time.Second

// Run evaluates everything and reports.
func Run(r *rep.Report, tier string) {
	maxLen, budget := 6, 50*time.Second
	if tier == "thorough" {
		maxLen, budget = 8, 9*time.Minute
	}
	deadline := time.Now().Add(budget)

	// enumerate: length ascending, then base-4 counting
	var inputs [][]int
	for n := 0; n <= maxLen; n++ {
		total := 1
		for i := 0; i < n; i++ {
			total *= len(domain)
		}
		for k := 0; k < total; k++ {
			s := make([]int, n)
			for i, d := n-1, k; i >= 0; i, d = i-1, d/len(domain) {
				s[i] = domain[d%len(domain)]
			}
			inputs = append(inputs, s)
		}
	}

	c := &collector{first: map[string]example{}, count: map[string]int{}}
	ios, pos := intOrderings(), pairOrderings()
	var evals, nontrivial, done atomic.Int64
	classes := map[string]int{}
	var cmu sync.Mutex
	workers := runtime.NumCPU()
	type slot struct {
		start atomic.Int64
		index atomic.Int64
	}
	slots := make([]slot, workers)
	var timedOut atomic.Bool
	var wg sync.WaitGroup
	for wk := 0; wk < workers; wk++ {
		wg.Add(1)
		go func(wk int) {
			defer wg.Done()
			local := map[string]int{}
			for idx := wk; idx < len(inputs); idx += workers {
				if time.Now().After(deadline) {
					timedOut.Store(true)
					break
				}
				in := inputs[idx]
				slots[wk].index.Store(int64(idx))
				slots[wk].start.Store(time.Now().UnixNano())
				local[classify(in)]++
				if len(in) >= 2 {
					nontrivial.Add(2)
				}
				dup := hasDuplicates(in)
				for _, o := range ios {
					if o.dupFreeOnly && dup {
						continue
					}
					x := &ctx[int]{c: c, index: idx, input: in, ord: o, extra: 7}
					x.sortOp("SortMerge")
					x.sortOp("SortQuick")
					x.isSorted()
					x.heap()
					evals.Add(4)
				}
				ps := make([]pair, len(in))
				for i, k := range in {
					ps[i] = pair{k, i}
				}
				for _, o := range pos {
					if o.dupFreeOnly && dup {
						continue
					}
					x := &ctx[pair]{c: c, index: idx, input: ps, ord: o, extra: pair{7, 99},
						stable: func(a, b pair) bool { return a.ID < b.ID }}
					x.sortOp("SortMerge")
					x.sortOp("SortQuick")
					x.isSorted()
					x.heap()
					evals.Add(4)
				}
				slots[wk].start.Store(0)
				done.Add(1)
			}
			cmu.Lock()
			for k, v := range local {
				classes[k] += v
			}
			cmu.Unlock()
		}(wk)
	}
	// hang guard: an evaluation that does not come back is a violation, reported through the normal path.
	finished := make(chan struct{})
	go func() { wg.Wait(); close(finished) }()
	tick := time.NewTicker(time.Second)
	defer tick.Stop()
wait:
	for {
		select {
		case <-finished:
			break wait
		case <-tick.C:
			for i := range slots {
				if st := slots[i].start.Load(); st != 0 && time.Since(time.Unix(0, st)) > hangLimit {
					r.Violation("sort/hang", map[string]any{"input": inputs[slots[i].index.Load()],
						"info": fmt.Sprintf("evaluation of this input did not return within %s", hangLimit)})
					r.Set("exhaustive", false)
					os.Exit(r.Finish())
				}
			}
		}
	}

	ex := runExtra(c, tier, deadline, len(inputs))

	keys := make([]string, 0, len(c.first))
	for k := range c.first {
		keys = append(keys, k)
	}
	sort.Slice(keys, func(i, j int) bool { return c.first[keys[i]].index < c.first[keys[j]].index })
	bySig := map[string][]any{}
	var sigs []string
	for _, k := range keys {
		sig := k[:strings.IndexByte(k, 0)]
		if _, ok := bySig[sig]; !ok {
			sigs = append(sigs, sig)
		}
		bySig[sig] = append(bySig[sig], c.first[k].data)
	}
	sort.Strings(sigs)
	for _, sig := range sigs {
		r.Violation(sig, map[string]any{"minimal": bySig[sig], "failing_evaluations": c.count[sig]})
	}

	nd := int(done.Load())
	r.Add("states", 2*nd+ex.longInputs+ex.heapSeqs) // every sequence once as []int and once as [](key,id)
	r.Add("transitions", int(evals.Load())+ex.longEvals+ex.heapOps)
	r.Add("traces_validated_against_impl", int(evals.Load())+ex.longEvals+ex.heapOps)
	r.Add("evaluations", int(evals.Load())+ex.longEvals+ex.heapSeqs*2)
	r.Add("distinct_nontrivial", int(nontrivial.Load())+ex.longInputs+ex.heapSeqs)
	r.Set("long_inputs", map[string]any{"binary_keys_max_length": ex.maxBin, "ternary_keys_max_length": ex.maxTer, "sequences": ex.longInputs, "evaluations": ex.longEvals})
	r.Set("heap_interleavings", map[string]any{"max_depth": ex.depth, "scripts": ex.heapSeqs, "operations_compared": ex.heapOps})
	r.Set("sequences", nd)
	r.Set("max_length", maxLen)
	r.Set("domain", domain)
	r.Set("input_classes", classes)
	var on []string
	for _, o := range ios {
		on = append(on, "int: "+o.name)
	}
	for _, o := range pos {
		on = append(on, "pair{K,ID}: "+o.name)
	}
	r.Set("orderings", on)
	r.Set("exhaustive", !timedOut.Load() && nd == len(inputs) && ex.exhaustive)
	r.Set("rule", "every sequence over the domain up to max_length, as []int and as [](key,position) pairs, times every ordering "+
		"(cmp.Reverse orderings only on duplicate-free sequences), times {SortMerge, SortQuick, IsSorted, Heap}. Oracles: multiset "+
		"equality, independent adjacent-pair scan with the same lt, position ids for stability (SortQuick only), then Len, "+
		"forward = mirrored backward walk, In(list) of every element, PushBack/PopFront/PopBack values on the sorted list; "+
		"IsSorted compared with the adjacent-pair scan; Heap: push all, pop all, every value exactly once, non-decreasing, then empty. "+
		"Long inputs: every key sequence over {0,1} (length 9..binary_keys_max_length) and {0,1,2} (length 9..ternary_keys_max_length) as (key,position) pairs, "+
		"same sort/IsSorted oracles (algorithm switches by length are covered). Heap interleavings: every script of Push(1|2|3)/Pop up to max_depth "+
		"against a sorted multiset, compared after every operation, under < and >.")
	r.Sample(map[string]any{"heap_script": []string{"Push(3)", "Push(1)", "Pop", "Push(2)", "Pop", "Pop"}, "lt": "native"})
	r.Sample(map[string]any{"long_input_keys": []int{0, 1, 0, 1, 0, 1, 0, 1, 0, 1, 0, 1, 0}, "as": "(key,position) pairs under LessThanConverter(pair.K)"})
	r.Sample(map[string]any{"input": []int{1, -1, 2, 0}, "evaluations": "SortMerge, SortQuick, IsSorted, Heap under each of 3 int and 3 pair orderings"})
	r.Assume = append(r.Assume,
		"cmp.Reverse(lt) is not a strict weak order when two elements are equivalent; it is used on duplicate-free inputs only",
		"stability is only required of SortQuick (statement); it is observed through (key,position) pairs ordered by key",
		"Heap: push-all then pop-all for every push order, plus every interleaved Push/Pop script up to the stated depth",
	)
}
