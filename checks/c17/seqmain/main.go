// C17 (sequential part): property C17 (list sorting, IsSorted and Heap against the ordering relation).
package main

import (
	"flag"
	"os"

	"verif/checks/c17/seqpart"
	"verif/rep"
)

func main() {
	tier := flag.String("tier", "quick", "quick|thorough")
	flag.Parse()
	r := rep.New("C17", *tier, "model_checking")
	seqpart.Run(r, *tier)
	os.Exit(r.Finish())
}
