// C17 (concurrent half): sorting is a property of ONE list. Goroutines that
// each sort, test or heap-order a list of their own at the same time must get
// exactly the sequential answers: nothing the implementation keeps between
// calls (scratch buffers, pools, package state) may leak from one list into
// another. Every schedule (deviation bounded, with race-directed preemption)
// of 2-3 threads, each working on a private list.
package main

import (
	"fmt"
	"sort"
	"time"

	"github.com/tychoish/fun/dt"
	"verif/vs"
	"verif/vs/runner"
)

func lt(a, b int) bool { return a < b }

type job struct {
	kind string // SortQuick | SortMerge | IsSorted | Heap
	in   []int
	out  []int
	ans  bool
	len  int
}

func (j *job) run() {
	switch j.kind {
	case "SortQuick", "SortMerge":
		l := &dt.List[int]{}
		for _, v := range j.in {
			l.PushBack(v)
		}
		if j.kind == "SortQuick" {
			l.SortQuick(lt)
		} else {
			l.SortMerge(lt)
		}
		j.len = l.Len()
		for e := l.Front(); e.Ok() && len(j.out) <= len(j.in)+1; e = e.Next() {
			j.out = append(j.out, e.Value())
		}
		j.ans = l.IsSorted(lt)
	case "IsSorted":
		l := &dt.List[int]{}
		for _, v := range j.in {
			l.PushBack(v)
		}
		j.ans = l.IsSorted(lt)
		j.len = l.Len()
	case "Heap":
		h := &dt.Heap[int]{LT: lt}
		for _, v := range j.in {
			h.Push(v)
		}
		j.len = h.Len()
		for i := 0; i <= len(j.in); i++ {
			v, ok := h.Pop()
			if !ok {
				break
			}
			j.out = append(j.out, v)
		}
	}
}

func (j *job) verdict() string {
	want := append([]int(nil), j.in...)
	sort.Ints(want)
	switch j.kind {
	case "SortQuick", "SortMerge", "Heap":
		if fmt.Sprint(j.out) != fmt.Sprint(want) || j.len != len(j.in) {
			return fmt.Sprintf("%s of %v gave %v (Len %d), want %v", j.kind, j.in, j.out, j.len, want)
		}
		if j.kind != "Heap" && !j.ans {
			return fmt.Sprintf("IsSorted after %s of %v is false", j.kind, j.in)
		}
	case "IsSorted":
		if j.ans != sort.IntsAreSorted(j.in) {
			return fmt.Sprintf("IsSorted(%v) = %v", j.in, j.ans)
		}
	}
	return ""
}

func scenario(kinds []string, inputs [][]int) vs.Scenario {
	return func() (func(), func(*vs.End) (string, string)) {
		jobs := make([]*job, len(kinds))
		for i := range kinds {
			jobs[i] = &job{kind: kinds[i], in: inputs[i]}
		}
		body := func() {
			fin := make(chan struct{}, len(jobs))
			for _, j := range jobs {
				j := j
				go func() { j.run(); fin <- struct{}{} }()
			}
			for range jobs {
				<-fin
			}
		}
		check := func(e *vs.End) (string, string) {
			if len(e.Panics) > 0 {
				return "independent-lists/panic/" + e.Panics[0].Site, e.Panics[0].Value
			}
			if e.Status != vs.Clean {
				return "independent-lists/stuck/" + e.LibSites(), fmt.Sprintf("%+v", e.Stuck)
			}
			for _, j := range jobs {
				if msg := j.verdict(); msg != "" {
					return "independent-lists/wrong-answer/" + j.kind, msg + fmt.Sprintf(" while %d other goroutine(s) worked on lists of their own", len(jobs)-1)
				}
			}
			return "", ""
		}
		return body, check
	}
}

func build(tier string) ([]runner.Instance, time.Duration) {
	bound, budget := 2, 60*time.Second
	if tier == "thorough" {
		bound, budget = 3, 10*time.Minute
	}
	kinds := []string{"SortQuick", "SortMerge", "IsSorted", "Heap"}
	ins := [][]int{{2, 1}, {3, 1, 2}, {1, 1, 0}}
	var out []runner.Instance
	for i, a := range kinds {
		for j := i; j < len(kinds); j++ {
			b := kinds[j]
			for x, ia := range ins {
				for y, ib := range ins {
					if tier != "thorough" && (x+y)%2 == 1 {
						continue
					}
					out = append(out, runner.Instance{Group: "independent-lists", Name: fmt.Sprintf("independent-lists/%s%v||%s%v", a, ia, b, ib), Bound: bound, Scenario: scenario([]string{a, b}, [][]int{ia, ib})})
				}
			}
		}
	}
	if tier == "thorough" {
		out = append(out, runner.Instance{Group: "independent-lists", Name: "independent-lists/3xSortQuick", Bound: bound - 1, Scenario: scenario([]string{"SortQuick", "SortQuick", "SortQuick"}, [][]int{{2, 1}, {4, 3}, {6, 5}})})
	}
	return out, budget
}

func main() {
	runner.Main(runner.Options{Property: "C17", Level: "model_checking", Build: build, RacePoints: true,
		Rule:   "concurrent half: every schedule (deviation bounded, race-directed preemption) of two goroutines that each sort / test / heap-order a private list; every answer must equal the sequential one",
		Assume: []string{"model of sync (incl. sync.Pool as a deterministic LIFO free list) in verif/vs (DESIGN §2.2)", "small scope: lists of 2-3 elements, 2 goroutines (3 thorough)"}})
}
