// C09: broker makes progress while subscribers read, and shuts down cleanly.
package main

import (
	"context"
	"fmt"
	"time"

	"github.com/tychoish/fun/pubsub"
	"verif/vs"
	"verif/vs/runner"
)

type backend struct {
	name string
	mk   func(ctx context.Context, opts pubsub.BrokerOptions) *pubsub.Broker[int]
}

func backends() []backend {
	return []backend{
		{"chan", func(ctx context.Context, o pubsub.BrokerOptions) *pubsub.Broker[int] {
			return pubsub.NewBroker[int](ctx, o)
		}},
		{"queue", func(ctx context.Context, o pubsub.BrokerOptions) *pubsub.Broker[int] {
			return pubsub.NewQueueBroker(ctx, pubsub.NewUnlimitedQueue[int](), o)
		}},
		{"deque", func(ctx context.Context, o pubsub.BrokerOptions) *pubsub.Broker[int] {
			return pubsub.NewDequeBroker(ctx, pubsub.NewUnlimitedDeque[int](), o)
		}},
		{"lifo", func(ctx context.Context, o pubsub.BrokerOptions) *pubsub.Broker[int] {
			return pubsub.NewLIFOBroker[int](ctx, o, 4)
		}},
	}
}

func endTag(e *vs.End) (string, string) {
	if len(e.Panics) > 0 {
		return "panic/" + e.Panics[0].Site, e.Panics[0].Value
	}
	if e.NonTerminating() {
		return "livelock/" + e.LibSites(), fmt.Sprintf("%+v", e.Stuck)
	}
	if e.Status != vs.Clean {
		return "stuck/" + e.LibSites(), fmt.Sprintf("threads never returned: %+v", e.Stuck)
	}
	return "", ""
}

// subscriber that keeps receiving until its context ends.
func subscribe(ctx context.Context, b *pubsub.Broker[int], got *[]int, fin chan struct{}) {
	ch := b.Subscribe(ctx)
	go func() {
		defer func() { fin <- struct{}{} }()
		for {
			select {
			case <-ctx.Done():
				return
			case m := <-ch:
				*got = append(*got, m)
				vs.Progress()
			}
		}
	}()
}

// progress: a burst of m publishes, one reading subscriber: at quiescence
// every message has been delivered; then Stop, Wait returns, everything exits.
func progress(be backend, m int, parallel bool, workers int, stopHow string) vs.Scenario {
	return func() (func(), func(*vs.End) (string, string)) {
		var got []int
		atQuiet := -1
		published := 0
		waitReturned := false
		body := func() {
			parent, cancelParent := context.WithCancel(context.Background())
			if stopHow == "deadline" {
				// the broker's context ends by deadline expiry (DeadlineExceeded, not
				// Canceled); model time only advances when nothing else can run
				parent, cancelParent = context.WithTimeout(context.Background(), time.Second)
			}
			sctx, cancelSub := context.WithCancel(context.Background())
			b := be.mk(parent, pubsub.BrokerOptions{ParallelDispatch: parallel, WorkerPoolSize: workers})
			fin := make(chan struct{}, 2)
			subscribe(sctx, b, &got, fin)
			go func() {
				for i := 1; i <= m; i++ {
					b.Publish(sctx, i)
					published++
				}
				fin <- struct{}{}
			}()
			vs.Quiesce()
			atQuiet = len(got)
			switch stopHow {
			case "stop":
				b.Stop()
			case "cancel":
				cancelParent()
			}
			b.Wait(context.Background())
			waitReturned = true
			cancelSub()
			<-fin
			<-fin
			cancelParent()
		}
		check := func(e *vs.End) (string, string) {
			where := fmt.Sprintf("%s burst=%d parallel=%v workers=%d", be.name, m, parallel, workers)
			if atQuiet >= 0 && published < m {
				return "publish-did-not-return", where + fmt.Sprintf(": %d of %d Publish calls returned although the subscriber keeps reading", published, m)
			}
			if atQuiet >= 0 && atQuiet < m {
				return "stalled-with-undelivered-message", where + fmt.Sprintf(": at quiescence the subscriber had %d of %d messages (%v)", atQuiet, m, got)
			}
			if t, d := endTag(e); t != "" {
				if !waitReturned && atQuiet >= 0 {
					return "wait-did-not-return-after-" + stopHow + "/" + t, where + ": " + d
				}
				return "not-clean-after-" + stopHow + "/" + t, where + ": " + d
			}
			return "", ""
		}
		return body, check
	}
}

// shutdown: Stop / parent cancel racing publishes and dispatch; afterwards Wait
// returns and every broker goroutine exits; client calls return once their own
// context is cancelled.
func shutdown(be backend, m int, parallel bool, stopHow string, concurrentWait bool) vs.Scenario {
	return func() (func(), func(*vs.End) (string, string)) {
		var got []int
		waitReturned := false
		body := func() {
			parent, cancelParent := context.WithCancel(context.Background())
			if stopHow == "deadline" {
				parent, cancelParent = context.WithTimeout(context.Background(), time.Second)
			}
			cctx, cancelClients := context.WithCancel(context.Background())
			b := be.mk(parent, pubsub.BrokerOptions{ParallelDispatch: parallel})
			fin := make(chan struct{}, 4)
			subscribe(cctx, b, &got, fin)
			go func() {
				for i := 1; i <= m; i++ {
					b.Publish(cctx, i)
				}
				fin <- struct{}{}
			}()
			n := 2
			if concurrentWait {
				n++
				go func() { b.Wait(context.Background()); fin <- struct{}{} }()
			}
			// the stopper runs concurrently with everything above
			switch stopHow {
			case "stop":
				b.Stop()
			case "cancel":
				cancelParent()
			}
			b.Wait(context.Background())
			waitReturned = true
			cancelClients()
			for i := 0; i < n; i++ {
				<-fin
			}
			cancelParent()
		}
		check := func(e *vs.End) (string, string) {
			where := fmt.Sprintf("%s burst=%d parallel=%v concurrentWait=%v", be.name, m, parallel, concurrentWait)
			if t, d := endTag(e); t != "" {
				if !waitReturned {
					return "wait-or-stop-blocked-on-" + stopHow + "/" + t, where + ": " + d
				}
				return "not-clean-after-" + stopHow + "/" + t, where + ": " + d
			}
			seen := map[int]bool{}
			for _, v := range got {
				if v < 1 || v > m || seen[v] {
					return "invented-or-duplicate", where + fmt.Sprint(got)
				}
				seen[v] = true
			}
			return "", ""
		}
		return body, check
	}
}

// clientCancel: Publish / Subscribe / Unsubscribe / Stats whose own context is
// cancelled while the call is pending return, and the broker keeps working.
func clientCancel(be backend, call string, brokerStopped bool) vs.Scenario {
	return func() (func(), func(*vs.End) (string, string)) {
		var got []int
		atQuiet := -1
		body := func() {
			parent, cancelParent := context.WithCancel(context.Background())
			sctx, cancelSub := context.WithCancel(context.Background())
			b := be.mk(parent, pubsub.BrokerOptions{})
			fin := make(chan struct{}, 3)
			if brokerStopped {
				b.Stop()
				b.Wait(context.Background())
			} else {
				subscribe(sctx, b, &got, fin)
			}
			cctx, cancelCall := context.WithCancel(context.Background())
			go func() {
				switch call {
				case "Publish":
					b.Publish(cctx, 99)
				case "Subscribe":
					_ = b.Subscribe(cctx)
				case "Unsubscribe":
					b.Unsubscribe(cctx, make(chan int))
				case "Stats":
					_ = b.Stats(cctx)
				}
				fin <- struct{}{}
			}()
			cancelCall() // races with the call
			<-fin
			if !brokerStopped {
				// the broker must still be alive: publish one message and see it arrive
				b.Publish(sctx, 1)
				vs.Quiesce()
				atQuiet = 0
				for _, v := range got {
					if v == 1 {
						atQuiet = 1
					}
				}
				b.Stop()
				b.Wait(context.Background())
				cancelSub()
				<-fin
			}
			cancelParent()
			cancelSub()
		}
		check := func(e *vs.End) (string, string) {
			where := fmt.Sprintf("%s %s brokerStopped=%v", be.name, call, brokerStopped)
			if atQuiet == 0 {
				return "broker-wedged-after-cancelled-" + call, where + fmt.Sprintf(": message published afterwards was not delivered (%v)", got)
			}
			if t, d := endTag(e); t != "" {
				return "blocked-after-cancelled-" + call + "/" + t, where + ": " + d
			}
			return "", ""
		}
		return body, check
	}
}

// wedged: the subscriber does NOT read. A backlog of `backlog` publishes (each
// with its own context, cancelled at the end) parks the dispatch worker(s) on
// the subscriber and, for unbuffered back-ends, the event loop behind them.
// Then `calls` client calls run concurrently, the context of the first one stays
// live, the contexts of the others are cancelled: those must return. Finally
// Stop / cancel: Wait returns and every broker goroutine exits although nobody
// ever read.
func wedged(be backend, opts pubsub.BrokerOptions, backlog int, call string, calls int, stopHow string) vs.Scenario {
	return func() (func(), func(*vs.End) (string, string)) {
		returned := make([]bool, calls)
		atQuiet := make([]bool, calls)
		quiet, waitReturned := false, false
		body := func() {
			parent, cancelParent := context.WithCancel(context.Background())
			live, cancelLive := context.WithCancel(context.Background())
			b := be.mk(parent, opts)
			sub := b.Subscribe(live) // never read
			fin := make(chan struct{}, backlog+calls)
			for i := 1; i <= backlog; i++ {
				i := i
				go func() { b.Publish(live, i); fin <- struct{}{} }()
			}
			vs.Quiesce()
			cancels := make([]context.CancelFunc, calls)
			for c := 0; c < calls; c++ {
				c := c
				ctx, cancel := context.WithCancel(context.Background())
				cancels[c] = cancel
				go func() {
					switch call {
					case "Publish":
						b.Publish(ctx, 90+c)
					case "Subscribe":
						_ = b.Subscribe(ctx)
					case "Unsubscribe":
						b.Unsubscribe(ctx, sub)
					case "Stats":
						_ = b.Stats(ctx)
					}
					returned[c] = true
					vs.Progress()
					fin <- struct{}{}
				}()
			}
			vs.Quiesce()
			for c := 1; c < calls; c++ {
				cancels[c]()
			}
			vs.Quiesce()
			copy(atQuiet, returned)
			quiet = true
			switch stopHow {
			case "stop":
				b.Stop()
			case "cancel":
				cancelParent()
			}
			b.Wait(context.Background())
			waitReturned = true
			cancelLive()
			cancels[0]()
			for i := 0; i < backlog+calls; i++ {
				<-fin
			}
			cancelParent()
		}
		check := func(e *vs.End) (string, string) {
			where := fmt.Sprintf("%s %+v backlog=%d %dx%s stop=%s (subscriber never reads)", be.name, opts, backlog, calls, call, stopHow)
			if quiet {
				for c := 1; c < calls; c++ {
					if !atQuiet[c] {
						return "blocked-after-cancelled-" + call, where + fmt.Sprintf(": call %d did not return although its own context was cancelled", c)
					}
				}
			}
			if t, d := endTag(e); t != "" {
				if quiet && !waitReturned {
					return "wait-did-not-return-after-" + stopHow + "/" + t, where + ": " + d
				}
				return "not-clean-after-" + stopHow + "/" + t, where + ": " + d
			}
			return "", ""
		}
		return body, check
	}
}

// lossy: a load-shedding LIFO broker with a single slot. A burst may evict
// older messages, but a Force push keeps the NEWEST one, so once every Publish
// has returned and the subscriber keeps reading the last message of the burst
// is delivered, and the broker still works for a message published afterwards.
func lossy(capacity, m int, parallel bool) vs.Scenario {
	return lossyBackend("lifo", capacity, m, parallel)
}

// lossyBackend: kind "lifo" (Force pushes keep the newest message) or
// "queue-hard" (a Queue at its hard limit drops the NEW message): in both
// cases every Publish returns, and once the burst is over a further message
// is delivered - a broker that sheds load does not stall.
func lossyBackend(kind string, capacity, m int, parallel bool) vs.Scenario {
	return func() (func(), func(*vs.End) (string, string)) {
		var got []int
		quiet1, quiet2 := false, false
		var at1, at2 []int
		body := func() {
			parent, cancelParent := context.WithCancel(context.Background())
			sctx, cancelSub := context.WithCancel(context.Background())
			var b *pubsub.Broker[int]
			if kind == "lifo" {
				b = pubsub.NewLIFOBroker[int](parent, pubsub.BrokerOptions{ParallelDispatch: parallel}, capacity)
			} else {
				q, err := pubsub.NewQueue[int](pubsub.QueueOptions{HardLimit: capacity, SoftQuota: capacity})
				if err != nil {
					panic(err)
				}
				b = pubsub.NewQueueBroker(parent, q, pubsub.BrokerOptions{ParallelDispatch: parallel})
			}
			fin := make(chan struct{}, 2)
			subscribe(sctx, b, &got, fin)
			go func() {
				for i := 1; i <= m; i++ {
					b.Publish(sctx, i)
				}
				fin <- struct{}{}
			}()
			vs.Quiesce()
			quiet1, at1 = true, append([]int(nil), got...)
			b.Publish(sctx, 99)
			vs.Quiesce()
			quiet2, at2 = true, append([]int(nil), got...)
			b.Stop()
			b.Wait(context.Background())
			cancelSub()
			<-fin
			<-fin
			cancelParent()
		}
		has := func(l []int, v int) bool {
			for _, x := range l {
				if x == v {
					return true
				}
			}
			return false
		}
		check := func(e *vs.End) (string, string) {
			where := fmt.Sprintf("%s(capacity=%d) burst=%d parallel=%v", kind, capacity, m, parallel)
			if quiet1 && kind == "lifo" && !has(at1, m) {
				return "stalled-with-undelivered-message", where + fmt.Sprintf(": at quiescence the newest message %d had not been delivered (got %v)", m, at1)
			}
			if quiet2 && !has(at2, 99) {
				return "stalled-with-undelivered-message", where + fmt.Sprintf(": a message published after the burst was never delivered (got %v)", at2)
			}
			if t, d := endTag(e); t != "" {
				return "not-clean-after-stop/" + t, where + ": " + d
			}
			return "", ""
		}
		return body, check
	}
}

// backendClosed: the owner of the Queue/Deque behind the broker closes it;
// a Publish after that is accepted by the event loop, which then winds the
// broker down. Stop, Wait and parent cancel must still return and every
// goroutine exit.
func backendClosed(kind string, publishes int, stopHow string) vs.Scenario {
	return func() (func(), func(*vs.End) (string, string)) {
		waitReturned := false
		body := func() {
			parent, cancelParent := context.WithCancel(context.Background())
			cctx, cancelClients := context.WithCancel(context.Background())
			var b *pubsub.Broker[int]
			var closeBackend func()
			if kind == "queue" {
				q := pubsub.NewUnlimitedQueue[int]()
				b, closeBackend = pubsub.NewQueueBroker(parent, q, pubsub.BrokerOptions{}), func() { _ = q.Close() }
			} else {
				d := pubsub.NewUnlimitedDeque[int]()
				b, closeBackend = pubsub.NewDequeBroker(parent, d, pubsub.BrokerOptions{}), func() { _ = d.Close() }
			}
			var got []int
			fin := make(chan struct{}, 2)
			subscribe(cctx, b, &got, fin)
			closeBackend()
			go func() {
				for i := 1; i <= publishes; i++ {
					b.Publish(cctx, i)
				}
				fin <- struct{}{}
			}()
			vs.Quiesce()
			switch stopHow {
			case "stop":
				b.Stop()
			case "cancel":
				cancelParent()
			}
			b.Wait(context.Background())
			waitReturned = true
			cancelClients()
			<-fin
			<-fin
			cancelParent()
		}
		check := func(e *vs.End) (string, string) {
			where := fmt.Sprintf("%s back-end closed by its owner, %d publishes, then %s", kind, publishes, stopHow)
			if t, d := endTag(e); t != "" {
				if !waitReturned {
					return "wait-or-stop-blocked-on-" + stopHow + "/" + t, where + ": " + d
				}
				return "not-clean-after-" + stopHow + "/" + t, where + ": " + d
			}
			return "", ""
		}
		return body, check
	}
}

func build(tier string) ([]runner.Instance, time.Duration) {
	bound, budget := 1, 130*time.Second
	maxM := 2
	if tier == "thorough" {
		bound, budget, maxM = 2, 14*time.Minute, 3
	}
	var out []runner.Instance
	for _, be := range backends() {
		for m := 1; m <= maxM; m++ {
			for _, par := range []bool{false, true} {
				for w := 1; w <= 2; w++ {
					if w == 2 && (par || tier != "thorough") {
						continue
					}
					for _, how := range []string{"stop", "cancel", "deadline"} {
						out = append(out, runner.Instance{Group: "progress/" + be.name, Name: fmt.Sprintf("progress/%s/m=%d,par=%v,w=%d,%s", be.name, m, par, w, how), Bound: bound, Scenario: progress(be, m, par, w, how)})
					}
				}
				for _, how := range []string{"stop", "cancel", "deadline"} {
					for _, cw := range []bool{false, true} {
						if par && cw {
							continue
						}
						out = append(out, runner.Instance{Group: "shutdown/" + be.name, Name: fmt.Sprintf("shutdown/%s/m=%d,par=%v,%s,cw=%v", be.name, m, par, how, cw), Bound: bound + 1, Scenario: shutdown(be, m, par, how, cw)})
					}
				}
			}
		}
		for _, call := range []string{"Publish", "Subscribe", "Unsubscribe", "Stats"} {
			for _, stopped := range []bool{false, true} {
				out = append(out, runner.Instance{Group: "client-cancel/" + be.name, Name: fmt.Sprintf("client-cancel/%s/%s,stopped=%v", be.name, call, stopped), Bound: bound + 1, Scenario: clientCancel(be, call, stopped)})
			}
		}
	}
	for capacity := 1; capacity <= 2; capacity++ {
		for m := 2; m <= maxM+1; m++ {
			for _, par := range []bool{false, true} {
				if par && tier != "thorough" {
					continue
				}
				out = append(out, runner.Instance{Group: "lossy/lifo", Name: fmt.Sprintf("lossy/lifo/capacity=%d,m=%d,par=%v", capacity, m, par), Bound: bound, Scenario: lossy(capacity, m, par)})
				out = append(out, runner.Instance{Group: "lossy/queue-hard", Name: fmt.Sprintf("lossy/queue-hard/limit=%d,m=%d,par=%v", capacity, m, par), Bound: bound, Scenario: lossyBackend("queue-hard", capacity, m, par)})
			}
		}
	}
	for _, kind := range []string{"queue", "deque"} {
		for n := 0; n <= 2; n++ {
			for _, how := range []string{"stop", "cancel", "wait-only"} {
				if how == "wait-only" && n == 0 {
					continue // nothing ends the broker: Wait may block
				}
				out = append(out, runner.Instance{Group: "backend-closed/" + kind, Name: fmt.Sprintf("backend-closed/%s/publishes=%d,%s", kind, n, how), Bound: bound + 1, Scenario: backendClosed(kind, n, how)})
			}
		}
	}
	for _, be := range backends() {
		for _, o := range []pubsub.BrokerOptions{{}, {WorkerPoolSize: 2, BufferSize: 1}, {ParallelDispatch: true}} {
			for _, backlog := range []int{0, 3} {
				for _, call := range []string{"Publish", "Subscribe", "Unsubscribe", "Stats"} {
					for _, how := range []string{"stop", "cancel"} {
						if how == "cancel" && (call != "Publish" || backlog == 0) {
							continue
						}
						if o.ParallelDispatch && (tier != "thorough" || call == "Stats") {
							continue
						}
						calls := 2
						name := fmt.Sprintf("wedged/%s/par=%v,w=%d,buf=%d/backlog=%d,%dx%s,%s", be.name, o.ParallelDispatch, o.WorkerPoolSize, o.BufferSize, backlog, calls, call, how)
						out = append(out, runner.Instance{Group: "wedged/" + be.name, Name: name, Bound: bound, Scenario: wedged(be, o, backlog, call, calls, how)})
					}
				}
			}
		}
	}
	return out, budget
}

func main() {
	runner.Main(runner.Options{Property: "C09", Level: "exploration", Build: build, RacePoints: true,
		Assume: []string{"model of sync/context/channels in verif/vs (DESIGN §2.2)", "LIFO back-end with capacity 4 >= burst so that nothing is evicted", "small scope: bursts of <=3 messages, one subscriber, <=2 dispatch workers"}})
}
