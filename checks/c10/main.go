// C10: srv.Service lifecycle — each phase once, in order, errors complete.
package main

import (
	"context"
	"errors"
	"fmt"
	"time"

	"github.com/tychoish/fun"
	"github.com/tychoish/fun/srv"
	"verif/vs"
	"verif/vs/runner"
)

var (
	errRun      = errors.New("run-failed")
	errShutdown = errors.New("shutdown-failed")
	errCleanup  = errors.New("cleanup-failed")
)

// phase outcome: 0 absent, 1 ok, 2 error, 3 panic
// (handler only) 4: ok, and the handler itself calls Wait on the service
var outcomeNames = []string{"absent", "ok", "error", "panic", "ok+Wait"}

type span struct{ start, end int }

type obs struct {
	run, shutdown, cleanup, handler []span
	handlerArg                      []error
	ctxEnd                          int // earliest time the service context was ended from outside (Close / parent cancel); 0 = never
	startRes                        []error
	lateRes                         []error // Start calls made after Wait had returned
	startRet                        []int
	waitRes                         []error
	waitCall, waitRet               []int
	runningAfterWait                []bool
}

func (o *obs) phase(list *[]span, outcome int, err error, block func()) error {
	sp := span{start: vs.Now()}
	*list = append(*list, sp)
	idx := len(*list) - 1
	defer func() { (*list)[idx].end = vs.Now() }()
	if block != nil {
		block()
	}
	vs.Yield()
	switch outcome {
	case 2:
		return err
	case 3:
		panic(err)
	}
	return nil
}

func mkService(o *obs, run, shutdown, cleanup, handler int, runBlocks bool) *srv.Service {
	s := &srv.Service{Name: "svc"}
	if run != 0 {
		s.Run = func(ctx context.Context) error {
			var block func()
			if runBlocks {
				block = func() { <-ctx.Done() }
			}
			return o.phase(&o.run, run, errRun, block)
		}
	}
	if shutdown != 0 {
		s.Shutdown = func() error { return o.phase(&o.shutdown, shutdown, errShutdown, nil) }
	}
	if cleanup != 0 {
		s.Cleanup = func() error { return o.phase(&o.cleanup, cleanup, errCleanup, nil) }
	}
	if handler != 0 {
		s.ErrorHandler.Set(func(err error) {
			o.handlerArg = append(o.handlerArg, err)
			var inside func()
			if handler == 4 {
				// Run, Shutdown and Cleanup have returned by now: a Wait from
				// here returns (with the same aggregate)
				inside = func() { _ = s.Wait() }
			}
			_ = o.phase(&o.handler, handler, errors.New("handler-panic"), inside)
		})
	}
	return s
}

func endTag(e *vs.End) (string, string) {
	if len(e.Panics) > 0 {
		return "panic-escaped/" + e.Panics[0].Site, e.Panics[0].Value
	}
	if e.NonTerminating() {
		return "livelock/" + e.LibSites(), fmt.Sprintf("%+v", e.Stuck)
	}
	if e.Status != vs.Clean {
		return "stuck/" + e.LibSites(), fmt.Sprintf("threads never returned: %+v", e.Stuck)
	}
	return "", ""
}

// oracle shared by the fault matrix and the schedule scenarios.
func (o *obs) verdict(where string, run, shutdown, cleanup, handler int, e *vs.End) (string, string) {
	if t, d := endTag(e); t != "" {
		return t, where + ": " + d
	}
	okStarts := 0
	for _, r := range o.startRes {
		switch {
		case r == nil:
			okStarts++
		case errors.Is(r, srv.ErrServiceAlreadyStarted), errors.Is(r, srv.ErrServiceReturned):
		default:
			return "start/unexpected-error", where + ": " + r.Error()
		}
	}
	for _, r := range o.lateRes {
		if r != nil && !errors.Is(r, srv.ErrServiceReturned) {
			return "start/late-start-not-ErrServiceReturned", where + fmt.Sprintf(": a Start issued after Wait had returned reported %v (all late results: %v)", r, o.lateRes)
		}
	}
	if len(o.startRes) > 0 && okStarts != 1 {
		return "start/not-exactly-one-nil", where + fmt.Sprintf(": %d of %d Start calls returned nil (%v)", okStarts, len(o.startRes), o.startRes)
	}
	if run != 0 && len(o.run) > 1 {
		return "run/invoked-twice", where
	}
	if run != 0 && len(o.startRes) > 0 && len(o.run) != 1 {
		return "run/not-invoked", where
	}
	if shutdown != 0 {
		if len(o.shutdown) != 1 {
			return "shutdown/not-exactly-once", where + fmt.Sprintf(": %d", len(o.shutdown))
		}
		ended := 0
		if len(o.run) == 1 && o.run[0].end > 0 {
			ended = o.run[0].end
		}
		if o.ctxEnd > 0 && (ended == 0 || o.ctxEnd < ended) {
			ended = o.ctxEnd
		}
		if run != 0 && ended > 0 && o.shutdown[0].start < ended {
			return "shutdown/before-context-ended", where + fmt.Sprintf(": shutdown started at %d, context ended at %d", o.shutdown[0].start, ended)
		}
	}
	if cleanup != 0 {
		if len(o.cleanup) != 1 {
			return "cleanup/not-exactly-once", where + fmt.Sprintf(": %d", len(o.cleanup))
		}
		if len(o.run) == 1 && o.cleanup[0].start < o.run[0].end {
			return "cleanup/before-run-returned", where
		}
		if len(o.shutdown) == 1 && o.cleanup[0].start < o.shutdown[0].end {
			return "cleanup/before-shutdown-returned", where
		}
	}
	if len(o.handler) > 1 {
		return "handler/more-than-once", where
	}
	if len(o.handler) == 1 {
		if o.handlerArg[0] == nil {
			return "handler/nil-aggregate", where
		}
		if len(o.cleanup) == 1 && o.handler[0].start < o.cleanup[0].end {
			return "handler/before-cleanup", where
		}
	}
	for i, werr := range o.waitRes {
		// constrained: Wait calls invoked after a successful Start returned, and Wait calls
		// racing Start that did not answer ErrServiceNotStarted (an answer other than "not
		// started" claims the service is over, so every phase must have returned by then)
		constrained := !errors.Is(werr, srv.ErrServiceNotStarted)
		for j, r := range o.startRes {
			if r == nil && o.startRet[j] <= o.waitCall[i] {
				constrained = true
			}
		}
		if !constrained {
			continue
		}
		if len(o.run) == 0 && run != 0 {
			return "wait/returned-before-phases-finished", where + fmt.Sprintf(": Wait returned %v at %d, Run had not been invoked", werr, o.waitRet[i])
		}
		for _, sp := range [][]span{o.run, o.shutdown, o.cleanup} {
			for _, s := range sp {
				if s.end == 0 || s.end > o.waitRet[i] {
					return "wait/returned-before-phases-finished", where + fmt.Sprintf(": Wait returned at %d", o.waitRet[i])
				}
			}
		}
		if cleanup != 0 && len(o.cleanup) == 0 {
			return "wait/returned-before-phases-finished", where + ": Cleanup had not run"
		}
		if shutdown != 0 && len(o.shutdown) == 0 {
			return "wait/returned-before-phases-finished", where + ": Shutdown had not run"
		}
		type exp struct {
			outcome int
			err     error
			name    string
		}
		anyPanic, anyErr := false, false
		for _, x := range []exp{{run, errRun, "Run"}, {shutdown, errShutdown, "Shutdown"}, {cleanup, errCleanup, "Cleanup"}} {
			if x.outcome >= 2 {
				anyErr = true
				if !errors.Is(werr, x.err) {
					return "wait/error-lost/" + x.name, where + fmt.Sprintf(": Wait() = %v", werr)
				}
			}
			if x.outcome == 3 {
				anyPanic = true
			}
		}
		if anyPanic && !errors.Is(werr, fun.ErrRecoveredPanic) {
			return "wait/panic-not-marked", where + fmt.Sprintf(": Wait() = %v", werr)
		}
		// absent Run: a nil call panics inside the service (pinned by the suite); the
		// statement does not settle the result. A panicking handler may add to the result.
		if !anyErr && !anyPanic && run != 0 && handler != 3 && werr != nil {
			return "wait/error-invented", where + fmt.Sprintf(": Wait() = %v", werr)
		}
		if o.runningAfterWait[i] {
			return "running-true-after-wait", where
		}
	}
	return "", ""
}

// matrix cell: one starter; end in {run-returns, close, cancel}.
func cell(run, shutdown, cleanup, handler int, end string) vs.Scenario {
	return func() (func(), func(*vs.End) (string, string)) {
		o := &obs{}
		body := func() {
			parent, cancel := context.WithCancel(context.Background())
			defer cancel()
			s := mkService(o, run, shutdown, cleanup, handler, end != "run-returns")
			o.startRes = append(o.startRes, s.Start(parent))
			o.startRet = append(o.startRet, vs.Now())
			switch end {
			case "close":
				o.ctxEnd = vs.Now()
				s.Close()
			case "cancel":
				o.ctxEnd = vs.Now()
				cancel()
			}
			o.waitCall = append(o.waitCall, vs.Now())
			werr := s.Wait()
			o.waitRet = append(o.waitRet, vs.Now())
			o.waitRes = append(o.waitRes, werr)
			o.runningAfterWait = append(o.runningAfterWait, s.Running())
		}
		check := func(e *vs.End) (string, string) {
			where := fmt.Sprintf("run=%s shutdown=%s cleanup=%s handler=%s end=%s", outcomeNames[run], outcomeNames[shutdown], outcomeNames[cleanup], outcomeNames[handler], end)
			return o.verdict(where, run, shutdown, cleanup, handler, e)
		}
		return body, check
	}
}

// schedules: several concurrent Start / Close / Wait callers.
func concurrent(run, shutdown, cleanup int, starters int, closer, waiter bool, runBlocks bool) vs.Scenario {
	return func() (func(), func(*vs.End) (string, string)) {
		o := &obs{}
		body := func() {
			parent, cancel := context.WithCancel(context.Background())
			defer cancel()
			s := mkService(o, run, shutdown, cleanup, 1, runBlocks)
			fin := make(chan struct{}, 8)
			n := 0
			for i := 0; i < starters; i++ {
				n++
				go func() {
					r := s.Start(parent)
					o.startRes = append(o.startRes, r)
					o.startRet = append(o.startRet, vs.Now())
					fin <- struct{}{}
				}()
			}
			wfin := make(chan struct{}, 1)
			if waiter {
				go func() {
					call := vs.Now()
					werr := s.Wait()
					o.waitCall = append(o.waitCall, call)
					o.waitRet = append(o.waitRet, vs.Now())
					o.waitRes = append(o.waitRes, werr)
					o.runningAfterWait = append(o.runningAfterWait, s.Running())
					wfin <- struct{}{}
				}()
			}
			if closer {
				n++
				go func() { s.Close(); fin <- struct{}{} }()
			}
			for i := 0; i < n; i++ {
				<-fin
			}
			// all callers are done: end the service for good and wait
			if runBlocks {
				if o.ctxEnd == 0 {
					o.ctxEnd = vs.Now()
				}
				s.Close()
			}
			o.waitCall = append(o.waitCall, vs.Now())
			werr := s.Wait()
			o.waitRet = append(o.waitRet, vs.Now())
			o.waitRes = append(o.waitRes, werr)
			o.runningAfterWait = append(o.runningAfterWait, s.Running())
			if waiter {
				<-wfin // the concurrent waiter returns once the service has ended
			}
			// two more Starts after the end, concurrently: a finished service
			// reports ErrServiceReturned to each of them
			lfin := make(chan struct{}, 2)
			for i := 0; i < 2; i++ {
				go func() {
					r := s.Start(parent)
					o.lateRes = append(o.lateRes, r)
					if r == nil {
						o.startRes = append(o.startRes, r)
						o.startRet = append(o.startRet, vs.Now())
					}
					lfin <- struct{}{}
				}()
			}
			<-lfin
			<-lfin
			o.runningAfterWait = append(o.runningAfterWait, s.Running())
		}
		check := func(e *vs.End) (string, string) {
			where := fmt.Sprintf("run=%s shutdown=%s cleanup=%s starters=%d closer=%v waiter=%v runBlocks=%v", outcomeNames[run], outcomeNames[shutdown], outcomeNames[cleanup], starters, closer, waiter, runBlocks)
			if closer {
				// a concurrent Close may end the context at any time: the
				// shutdown-after-context-end clause cannot be timed from outside
				o.ctxEnd = 1
			}
			return o.verdict(where, run, shutdown, cleanup, 1, e)
		}
		return body, check
	}
}

func build(tier string) ([]runner.Instance, time.Duration) {
	bound, budget := 2, 100*time.Second
	mbound := 1
	if tier == "thorough" {
		bound, mbound, budget = 3, 2, 14*time.Minute
	}
	var out []runner.Instance
	for run := 0; run < 4; run++ {
		for sh := 0; sh < 4; sh++ {
			for cl := 0; cl < 4; cl++ {
				for _, h := range []int{0, 1, 3, 4} {
					for _, end := range []string{"run-returns", "close", "cancel"} {
						if run == 0 && end != "run-returns" {
							continue
						}
						if h == 4 && (sh == 3 || cl == 3 || (tier != "thorough" && end == "cancel")) {
							continue
						}
						name := fmt.Sprintf("matrix/run=%s,shutdown=%s,cleanup=%s,handler=%s,end=%s", outcomeNames[run], outcomeNames[sh], outcomeNames[cl], outcomeNames[h], end)
						out = append(out, runner.Instance{Group: "matrix", Name: name, Bound: mbound, Scenario: cell(run, sh, cl, h, end)})
					}
				}
			}
		}
	}
	type rep struct{ run, sh, cl int }
	reps := []rep{{1, 0, 0}, {1, 1, 1}, {2, 1, 2}, {3, 2, 1}}
	if tier == "thorough" {
		reps = append(reps, rep{1, 3, 3}, rep{2, 2, 2}, rep{1, 1, 0}, rep{1, 0, 1})
	}
	for _, r := range reps {
		for starters := 1; starters <= 3; starters++ {
			for _, closer := range []bool{false, true} {
				for _, waiter := range []bool{false, true} {
					for _, blocks := range []bool{false, true} {
						if starters == 3 && (closer || waiter) && tier != "thorough" {
							continue
						}
						name := fmt.Sprintf("concurrent/run=%s,shutdown=%s,cleanup=%s/starters=%d,closer=%v,waiter=%v,blocks=%v", outcomeNames[r.run], outcomeNames[r.sh], outcomeNames[r.cl], starters, closer, waiter, blocks)
						out = append(out, runner.Instance{Group: "concurrent", Name: name, Bound: bound, Scenario: concurrent(r.run, r.sh, r.cl, starters, closer, waiter, blocks)})
					}
				}
			}
		}
	}
	return out, budget
}

func main() {
	runner.Main(runner.Options{Property: "C10", Level: "fault_enumeration", Build: build, RacePoints: true,
		Rule:   "fault matrix {absent, ok, error, panic}^3 for Run/Shutdown/Cleanup x {absent, ok, panic} ErrorHandler x {Run returns, Close, parent cancel}, every cell under every schedule up to the deviation bound; plus 1-3 concurrent Start callers x Close x Wait on representative cells; evaluations = executions; distinct_nontrivial = distinct visible-step sequences with real contention",
		Assume: []string{"model of sync/context/channels in verif/vs (DESIGN §2.2)", "absent Run: the nil call panics inside the service; only the phase order clauses are asserted for it", "a Wait racing Start that answers ErrServiceNotStarted is not constrained; every other Wait is"}})
}
