// C13: concurrency-safe types are free of data races.
// For every type documented as safe for concurrent use: every unordered pair of
// public operations on a shared instance (in several pre-states), each pair run
// by two threads under every schedule up to the deviation bound, with the
// happens-before race oracle (vector clocks over the modelled primitives,
// shadow state for every instrumented plain access) switched on.
package main

import (
	"context"
	"errors"
	"fmt"
	"io"
	"strings"
	"sync"
	"time"

	"github.com/tychoish/fun"
	"github.com/tychoish/fun/adt"
	"github.com/tychoish/fun/dt"
	"github.com/tychoish/fun/erc"
	"github.com/tychoish/fun/ers"
	"github.com/tychoish/fun/ft"
	"github.com/tychoish/fun/pubsub"
	"verif/vs"
	"verif/vs/runner"
)

// op is one public operation on the shared object built by subject.fresh.
type op struct {
	name string
	run  func(ctx context.Context, obj any)
}

type subject struct {
	name  string
	pres  []string
	fresh func(pre string) any
	ops   []op
}

// doneFns[subject name] releases whatever fresh started (brokers).
var doneFns = map[string]func(obj any){}

var errA = errors.New("a")
var errB = errors.New("b")

func must[T any](v T, err error) T {
	if err != nil {
		panic(err)
	}
	return v
}

func readSome[T any](ctx context.Context, it *fun.Iterator[T], n int) {
	for i := 0; i < n; i++ {
		if _, err := it.ReadOne(ctx); err != nil {
			return
		}
	}
}

func subjects() []subject {
	queueOps := []op{
		{"Add", func(_ context.Context, o any) { _ = o.(*pubsub.Queue[int]).Add(1) }},
		{"BlockingAdd", func(ctx context.Context, o any) { _ = o.(*pubsub.Queue[int]).BlockingAdd(ctx, 2) }},
		{"Remove", func(_ context.Context, o any) { _, _ = o.(*pubsub.Queue[int]).Remove() }},
		{"Wait", func(ctx context.Context, o any) { _, _ = o.(*pubsub.Queue[int]).Wait(ctx) }},
		{"Len", func(_ context.Context, o any) { _ = o.(*pubsub.Queue[int]).Len() }},
		{"Close", func(_ context.Context, o any) { _ = o.(*pubsub.Queue[int]).Close() }},
		{"Iterator", func(ctx context.Context, o any) { readSome(ctx, o.(*pubsub.Queue[int]).Iterator(), 2) }},
		{"Distributor.Send", func(ctx context.Context, o any) { _ = o.(*pubsub.Queue[int]).Distributor().Send(ctx, 3) }},
		{"Distributor.Receive", func(ctx context.Context, o any) { _, _ = o.(*pubsub.Queue[int]).Distributor().Receive(ctx) }},
		{"Distributor.Len", func(_ context.Context, o any) { _ = o.(*pubsub.Queue[int]).Distributor().Len() }},
	}
	dequeOps := []op{
		{"PushFront", func(_ context.Context, o any) { _ = o.(*pubsub.Deque[int]).PushFront(1) }},
		{"PushBack", func(_ context.Context, o any) { _ = o.(*pubsub.Deque[int]).PushBack(2) }},
		{"PopFront", func(_ context.Context, o any) { _, _ = o.(*pubsub.Deque[int]).PopFront() }},
		{"PopBack", func(_ context.Context, o any) { _, _ = o.(*pubsub.Deque[int]).PopBack() }},
		{"ForcePushFront", func(_ context.Context, o any) { _ = o.(*pubsub.Deque[int]).ForcePushFront(3) }},
		{"ForcePushBack", func(_ context.Context, o any) { _ = o.(*pubsub.Deque[int]).ForcePushBack(4) }},
		{"WaitFront", func(ctx context.Context, o any) { _, _ = o.(*pubsub.Deque[int]).WaitFront(ctx) }},
		{"WaitBack", func(ctx context.Context, o any) { _, _ = o.(*pubsub.Deque[int]).WaitBack(ctx) }},
		{"WaitPushFront", func(ctx context.Context, o any) { _ = o.(*pubsub.Deque[int]).WaitPushFront(ctx, 5) }},
		{"WaitPushBack", func(ctx context.Context, o any) { _ = o.(*pubsub.Deque[int]).WaitPushBack(ctx, 6) }},
		{"Len", func(_ context.Context, o any) { _ = o.(*pubsub.Deque[int]).Len() }},
		{"Close", func(_ context.Context, o any) { _ = o.(*pubsub.Deque[int]).Close() }},
		{"Iterator", func(ctx context.Context, o any) { readSome(ctx, o.(*pubsub.Deque[int]).Iterator(), 3) }},
		{"IteratorReverse", func(ctx context.Context, o any) { readSome(ctx, o.(*pubsub.Deque[int]).IteratorReverse(), 3) }},
		{"ProducerBlocking", func(ctx context.Context, o any) {
			p := o.(*pubsub.Deque[int]).ProducerBlocking()
			_, _ = p(ctx)
			_, _ = p(ctx)
		}},
		{"Distributor.Send", func(ctx context.Context, o any) { _ = o.(*pubsub.Deque[int]).Distributor().Send(ctx, 7) }},
		{"Distributor.Receive", func(ctx context.Context, o any) { _, _ = o.(*pubsub.Deque[int]).Distributor().Receive(ctx) }},
		{"Distributor.Len", func(_ context.Context, o any) { _ = o.(*pubsub.Deque[int]).Distributor().Len() }},
	}
	return []subject{
		{"pubsub.Queue", []string{"empty", "one", "full", "closed"}, func(pre string) any {
			switch pre {
			case "full":
				q := must(pubsub.NewQueue[int](pubsub.QueueOptions{HardLimit: 1, SoftQuota: 1}))
				_ = q.Add(9)
				return q
			}
			q := pubsub.NewUnlimitedQueue[int]()
			if pre != "empty" {
				_ = q.Add(9)
			}
			if pre == "closed" {
				_ = q.Close()
			}
			return q
		}, queueOps},
		{"pubsub.Deque", []string{"empty", "one", "full", "closed"}, func(pre string) any {
			switch pre {
			case "full":
				q := must(pubsub.NewDeque[int](pubsub.DequeOptions{Capacity: 1}))
				_ = q.PushBack(9)
				return q
			}
			q := pubsub.NewUnlimitedDeque[int]()
			if pre != "empty" {
				_ = q.PushBack(9)
			}
			if pre == "closed" {
				_ = q.Close()
			}
			return q
		}, dequeOps},
		{"fun.WaitGroup", []string{"zero", "one"}, func(pre string) any {
			wg := &fun.WaitGroup{}
			if pre == "one" {
				wg.Add(1)
			}
			return wg
		}, []op{
			{"Add+Done", func(_ context.Context, o any) { o.(*fun.WaitGroup).Add(1); o.(*fun.WaitGroup).Done() }},
			{"Inc", func(_ context.Context, o any) { o.(*fun.WaitGroup).Inc() }},
			{"Num", func(_ context.Context, o any) { _ = o.(*fun.WaitGroup).Num() }},
			{"IsDone", func(_ context.Context, o any) { _ = o.(*fun.WaitGroup).IsDone() }},
			{"Wait", func(ctx context.Context, o any) { o.(*fun.WaitGroup).Wait(ctx) }},
			{"Launch", func(ctx context.Context, o any) { o.(*fun.WaitGroup).Launch(ctx, func(context.Context) {}) }},
		}},
		{"erc.Collector", []string{"empty", "one"}, func(pre string) any {
			ec := &erc.Collector{}
			if pre == "one" {
				ec.Add(errA)
			}
			return ec
		}, []op{
			{"Add", func(_ context.Context, o any) { o.(*erc.Collector).Add(errB) }},
			{"Resolve+Is", func(_ context.Context, o any) { _ = errors.Is(o.(*erc.Collector).Resolve(), errA) }},
			{"Resolve+Error", func(_ context.Context, o any) {
				if err := o.(*erc.Collector).Resolve(); err != nil {
					_ = err.Error()
				}
			}},
			{"Len", func(_ context.Context, o any) { _ = o.(*erc.Collector).Len() }},
			{"HasErrors", func(_ context.Context, o any) { _ = o.(*erc.Collector).HasErrors() }},
			{"Ok", func(_ context.Context, o any) { _ = o.(*erc.Collector).Ok() }},
			{"Handler", func(_ context.Context, o any) { o.(*erc.Collector).Handler()(errA) }},
			{"Future+Unwrap", func(_ context.Context, o any) {
				if err := o.(*erc.Collector).Future()(); err != nil {
					_ = ers.Unwind(err)
				}
			}},
			{"Add(nil)", func(_ context.Context, o any) { o.(*erc.Collector).Add(nil) }},
			{"Iterator", func(ctx context.Context, o any) { readSome(ctx, o.(*erc.Collector).Iterator(), 3) }},
		}},
		{"adt.Map", []string{"empty", "one"}, func(pre string) any {
			m := &adt.Map[int, int]{}
			if pre == "one" {
				m.Store(1, 1)
			}
			return m
		}, []op{
			{"Store", func(_ context.Context, o any) { o.(*adt.Map[int, int]).Store(1, 2) }},
			{"Load", func(_ context.Context, o any) { _, _ = o.(*adt.Map[int, int]).Load(1) }},
			{"Delete", func(_ context.Context, o any) { o.(*adt.Map[int, int]).Delete(1) }},
			{"Ensure", func(_ context.Context, o any) { o.(*adt.Map[int, int]).Ensure(2) }},
			{"EnsureStore", func(_ context.Context, o any) { _ = o.(*adt.Map[int, int]).EnsureStore(3, 3) }},
			{"Get", func(_ context.Context, o any) { _ = o.(*adt.Map[int, int]).Get(1) }},
			{"Len", func(_ context.Context, o any) { _ = o.(*adt.Map[int, int]).Len() }},
			{"Keys", func(ctx context.Context, o any) { readSome(ctx, o.(*adt.Map[int, int]).Keys(), 3) }},
			{"Iterator", func(ctx context.Context, o any) { readSome(ctx, o.(*adt.Map[int, int]).Iterator(), 3) }},
			{"Check", func(_ context.Context, o any) { _ = o.(*adt.Map[int, int]).Check(1) }},
			{"Set", func(_ context.Context, o any) { o.(*adt.Map[int, int]).Set(dt.MakePair(4, 4)) }},
			{"EnsureSet", func(_ context.Context, o any) { _ = o.(*adt.Map[int, int]).EnsureSet(dt.MakePair(1, 5)) }},
			{"EnsureDefault", func(_ context.Context, o any) { _ = o.(*adt.Map[int, int]).EnsureDefault(6, func() int { return 6 }) }},
			{"Range", func(_ context.Context, o any) { o.(*adt.Map[int, int]).Range(func(int, int) bool { return true }) }},
			{"Values", func(ctx context.Context, o any) { readSome(ctx, o.(*adt.Map[int, int]).Values(), 3) }},
			{"MarshalJSON", func(_ context.Context, o any) { _, _ = o.(*adt.Map[int, int]).MarshalJSON() }},
			{"UnmarshalJSON", func(_ context.Context, o any) { _ = o.(*adt.Map[int, int]).UnmarshalJSON([]byte(`{"7":7}`)) }},
		}},
		{"adt.Atomic", []string{"zero", "set"}, func(pre string) any {
			a := &adt.Atomic[int]{}
			if pre == "set" {
				a.Set(1)
			}
			return a
		}, []op{
			{"Set", func(_ context.Context, o any) { o.(*adt.Atomic[int]).Set(2) }},
			{"Get", func(_ context.Context, o any) { _ = o.(*adt.Atomic[int]).Get() }},
			{"Swap", func(_ context.Context, o any) { _ = o.(*adt.Atomic[int]).Swap(3) }},
			{"CompareAndSwap", func(_ context.Context, o any) { _ = adt.CompareAndSwap[int](o.(*adt.Atomic[int]), 1, 4) }},
			// (Set first: Reset on a never-set Atomic spins for ever - atomic.Value's
			// CompareAndSwap never succeeds against the empty value; a liveness defect
			// outside the 20 properties, noted in DESIGN §9.3)
			{"adt.Set+Reset", func(_ context.Context, o any) { a := o.(*adt.Atomic[int]); a.Set(3); _ = adt.Reset[int](a) }},
			{"adt.SafeSet", func(_ context.Context, o any) { adt.SafeSet[int](o.(*adt.Atomic[int]), 6) }},
		}},
		{"adt.Synchronized", []string{"fresh"}, func(pre string) any { return adt.NewSynchronized(1) }, []op{
			{"Set", func(_ context.Context, o any) { o.(*adt.Synchronized[int]).Set(2) }},
			{"Get", func(_ context.Context, o any) { _ = o.(*adt.Synchronized[int]).Get() }},
			{"Swap", func(_ context.Context, o any) { _ = o.(*adt.Synchronized[int]).Swap(3) }},
			{"With", func(_ context.Context, o any) { o.(*adt.Synchronized[int]).With(func(int) {}) }},
			{"String", func(_ context.Context, o any) { _ = o.(*adt.Synchronized[int]).String() }},
			{"adt.CompareAndSwap(miss)", func(_ context.Context, o any) { _ = adt.CompareAndSwap[int](o.(*adt.Synchronized[int]), 7, 8) }},
			{"adt.CompareAndSwap(hit)", func(_ context.Context, o any) { _ = adt.CompareAndSwap[int](o.(*adt.Synchronized[int]), 1, 5) }},
			{"adt.Reset", func(_ context.Context, o any) { _ = adt.Reset[int](o.(*adt.Synchronized[int])) }},
			{"adt.SafeSet", func(_ context.Context, o any) { adt.SafeSet[int](o.(*adt.Synchronized[int]), 6) }},
		}},
		// the callback of With / Using runs under the object's lock: two callbacks that
		// mutate what the protected value refers to never overlap
		// (the protected value is a library type that is not safe by itself, so that its
		// accesses are visible to the oracle: harness code is not instrumented for accesses)
		{"adt.Synchronized(*dt.List)", []string{"fresh"}, func(pre string) any { return adt.NewSynchronized(&dt.List[int]{}) }, []op{
			{"With(PushBack)", func(_ context.Context, o any) {
				o.(*adt.Synchronized[*dt.List[int]]).With(func(l *dt.List[int]) { l.PushBack(1) })
			}},
			{"Using(PushFront)", func(_ context.Context, o any) {
				s := o.(*adt.Synchronized[*dt.List[int]])
				l := s.Get()
				s.Using(func() { l.PushFront(2) })
			}},
			{"With(Len)", func(_ context.Context, o any) {
				o.(*adt.Synchronized[*dt.List[int]]).With(func(l *dt.List[int]) { _ = l.Len() })
			}},
		}},
		{"adt.Once", []string{"fresh"}, func(pre string) any { return adt.NewOnce(func() int { return 1 }) }, []op{
			{"Resolve", func(_ context.Context, o any) { _ = o.(*adt.Once[int]).Resolve() }},
			{"Do", func(_ context.Context, o any) { o.(*adt.Once[int]).Do(func() int { return 2 }) }},
			{"Set", func(_ context.Context, o any) { o.(*adt.Once[int]).Set(func() int { return 3 }) }},
			{"Called", func(_ context.Context, o any) { _ = o.(*adt.Once[int]).Called() }},
			{"Defined", func(_ context.Context, o any) { _ = o.(*adt.Once[int]).Defined() }},
		}},
		{"adt.Pool", []string{"fresh"}, func(pre string) any {
			p := &adt.Pool[*int]{}
			p.SetConstructor(func() *int { return new(int) })
			p.FinalizeSetup()
			return p
		}, []op{
			{"Get+Put", func(_ context.Context, o any) { p := o.(*adt.Pool[*int]); v := p.Get(); *v = 1; p.Put(v) }},
			{"Make", func(_ context.Context, o any) { _ = o.(*adt.Pool[*int]).Make() }},
			{"Get", func(_ context.Context, o any) { _ = o.(*adt.Pool[*int]).Get() }},
		}},
		{"dt.Set(synchronized)", []string{"unordered", "ordered"}, func(pre string) any {
			s := &dt.Set[int]{}
			s.Synchronize()
			if pre == "ordered" {
				s.Order()
			}
			s.Add(1)
			return s
		}, []op{
			{"Add", func(_ context.Context, o any) { o.(*dt.Set[int]).Add(2) }},
			{"Delete", func(_ context.Context, o any) { o.(*dt.Set[int]).Delete(1) }},
			{"Check", func(_ context.Context, o any) { _ = o.(*dt.Set[int]).Check(1) }},
			{"Len", func(_ context.Context, o any) { _ = o.(*dt.Set[int]).Len() }},
			{"Iterator", func(ctx context.Context, o any) { readSome(ctx, o.(*dt.Set[int]).Iterator(), 3) }},
			{"Producer", func(ctx context.Context, o any) {
				p := o.(*dt.Set[int]).Producer()
				_, _ = p(ctx)
				_, _ = p(ctx)
			}},
			{"MarshalJSON", func(_ context.Context, o any) { _, _ = o.(*dt.Set[int]).MarshalJSON() }},
			{"AddCheck", func(_ context.Context, o any) { _ = o.(*dt.Set[int]).AddCheck(3) }},
			{"DeleteCheck", func(_ context.Context, o any) { _ = o.(*dt.Set[int]).DeleteCheck(1) }},
			{"SortQuick", func(_ context.Context, o any) { o.(*dt.Set[int]).SortQuick(func(a, b int) bool { return a < b }) }},
			{"SortMerge", func(_ context.Context, o any) { o.(*dt.Set[int]).SortMerge(func(a, b int) bool { return a > b }) }},
			{"Equal(other)", func(_ context.Context, o any) {
				other := &dt.Set[int]{}
				other.Add(1)
				_ = o.(*dt.Set[int]).Equal(other)
			}},
			{"other.Equal", func(_ context.Context, o any) {
				other := &dt.Set[int]{}
				other.Add(1)
				_ = other.Equal(o.(*dt.Set[int]))
			}},
			{"Extend(other)", func(_ context.Context, o any) {
				other := &dt.Set[int]{}
				other.Add(4)
				o.(*dt.Set[int]).Extend(other)
			}},
			{"other.Extend", func(_ context.Context, o any) {
				other := &dt.Set[int]{}
				other.Extend(o.(*dt.Set[int]))
			}},
			{"UnmarshalJSON", func(_ context.Context, o any) { _ = o.(*dt.Set[int]).UnmarshalJSON([]byte("[5]")) }},
		}},
	}
}

// setupSubjects: a Set that is not synchronized yet; every goroutine first makes
// it so (Synchronize is documented as safe to call more than once, WithLock
// with the same mutex likewise) and then uses it.
func setupSubjects() []subject {
	return []subject{
		{"dt.Set(Synchronize by every user)", []string{"unordered", "ordered"}, func(pre string) any {
			s := &dt.Set[int]{}
			if pre == "ordered" {
				s.Order()
			}
			return s
		}, []op{
			{"Synchronize+Add", func(_ context.Context, o any) { s := o.(*dt.Set[int]); s.Synchronize(); s.Add(1) }},
			{"Synchronize+Check", func(_ context.Context, o any) { s := o.(*dt.Set[int]); s.Synchronize(); _ = s.Check(1) }},
			{"Synchronize+Delete", func(_ context.Context, o any) { s := o.(*dt.Set[int]); s.Synchronize(); s.Delete(1) }},
			{"Synchronize+Sort", func(_ context.Context, o any) {
				s := o.(*dt.Set[int])
				s.Synchronize()
				s.SortQuick(func(a, b int) bool { return a < b })
			}},
			{"Synchronize+Len", func(_ context.Context, o any) { s := o.(*dt.Set[int]); s.Synchronize(); _ = s.Len() }},
		}},
	}
}

// brokerSubjects: one broker per back-end with one subscriber that keeps
// receiving; the operations are the broker's public API.
func brokerSubjects() []subject {
	type env struct {
		b      *pubsub.Broker[int]
		cancel context.CancelFunc
		sub    chan int
		fin    chan struct{}
	}
	mk := func(name string, build func(ctx context.Context) *pubsub.Broker[int]) subject {
		doneFns["pubsub.Broker("+name+")"] = func(o any) {
			e := o.(*env)
			e.b.Stop()
			e.cancel()
			e.b.Wait(context.Background())
			<-e.fin
		}
		return subject{name: "pubsub.Broker(" + name + ")", pres: []string{"running", "stopped"},
			fresh: func(pre string) any {
				ctx, cancel := context.WithCancel(context.Background())
				e := &env{b: build(ctx), cancel: cancel, fin: make(chan struct{}, 1)}
				e.sub = e.b.Subscribe(ctx)
				go func() {
					defer func() { e.fin <- struct{}{} }()
					for {
						select {
						case <-ctx.Done():
							return
						case <-e.sub:
						}
					}
				}()
				if pre == "stopped" {
					e.b.Stop()
					e.b.Wait(context.Background())
				}
				return e
			},
			ops: []op{
				{"Publish", func(ctx context.Context, o any) { o.(*env).b.Publish(ctx, 1) }},
				{"Subscribe", func(ctx context.Context, o any) { _ = o.(*env).b.Subscribe(ctx) }},
				{"Unsubscribe", func(ctx context.Context, o any) { o.(*env).b.Unsubscribe(ctx, o.(*env).sub) }},
				{"Stats", func(ctx context.Context, o any) { _ = o.(*env).b.Stats(ctx) }},
				{"Stop", func(_ context.Context, o any) { o.(*env).b.Stop() }},
				{"Wait", func(ctx context.Context, o any) { o.(*env).b.Wait(ctx) }},
				{"Populate", func(ctx context.Context, o any) {
					_ = o.(*env).b.Populate(fun.SliceIterator([]int{7, 8}))(ctx)
				}},
			}}
	}
	return []subject{
		mk("chan", func(ctx context.Context) *pubsub.Broker[int] {
			return pubsub.NewBroker[int](ctx, pubsub.BrokerOptions{})
		}),
		mk("chan,parallel", func(ctx context.Context) *pubsub.Broker[int] {
			return pubsub.NewBroker[int](ctx, pubsub.BrokerOptions{ParallelDispatch: true})
		}),
		mk("queue", func(ctx context.Context) *pubsub.Broker[int] {
			return pubsub.NewQueueBroker(ctx, pubsub.NewUnlimitedQueue[int](), pubsub.BrokerOptions{WorkerPoolSize: 2})
		}),
		mk("deque", func(ctx context.Context) *pubsub.Broker[int] {
			return pubsub.NewDequeBroker(ctx, pubsub.NewUnlimitedDeque[int](), pubsub.BrokerOptions{})
		}),
		mk("lifo", func(ctx context.Context) *pubsub.Broker[int] {
			return pubsub.NewLIFOBroker[int](ctx, pubsub.BrokerOptions{BufferSize: 1}, 2)
		}),
	}
}

// wrapper subjects: the shared state is inside the wrapper.
func wrapperSubjects() []subject {
	type shared struct {
		call func(ctx context.Context)
	}
	mk := func(name string, build func() func(ctx context.Context)) subject {
		return subject{"wrapper/" + name, []string{"fresh"}, func(string) any { return &shared{call: build()} }, []op{
			{"call", func(ctx context.Context, o any) { o.(*shared).call(ctx) }},
			{"call2", func(ctx context.Context, o any) { o.(*shared).call(ctx); o.(*shared).call(ctx) }},
		}}
	}
	return []subject{
		mk("Worker.Once", func() func(context.Context) {
			w := fun.Worker(func(context.Context) error { return io.EOF }).Once()
			return func(ctx context.Context) { _ = w(ctx) }
		}),
		mk("Worker.Limit", func() func(context.Context) {
			w := fun.Worker(func(context.Context) error { return io.EOF }).Limit(2)
			return func(ctx context.Context) { _ = w(ctx) }
		}),
		mk("Producer.Limit", func() func(context.Context) {
			w := fun.Producer[int](func(context.Context) (int, error) { return 1, nil }).Limit(2)
			return func(ctx context.Context) { _, _ = w(ctx) }
		}),
		mk("Producer.Once", func() func(context.Context) {
			w := fun.Producer[int](func(context.Context) (int, error) { return 1, nil }).Once()
			return func(ctx context.Context) { _, _ = w(ctx) }
		}),
		mk("Future.Limit", func() func(context.Context) {
			w := fun.Future[int](func() int { return 1 }).Limit(1)
			return func(ctx context.Context) { _ = w() }
		}),
		mk("Future.Once", func() func(context.Context) {
			w := fun.Future[int](func() int { return 1 }).Once()
			return func(ctx context.Context) { _ = w() }
		}),
		mk("Operation.Limit", func() func(context.Context) {
			w := fun.Operation(func(context.Context) {}).Limit(2)
			return func(ctx context.Context) { w(ctx) }
		}),
		mk("Worker.Lock", func() func(context.Context) {
			x := 0
			w := fun.Worker(func(context.Context) error { x++; return nil }).Lock()
			return func(ctx context.Context) { _ = w(ctx) }
		}),
		mk("Processor.Once", func() func(context.Context) {
			w := fun.Processor[int](func(context.Context, int) error { return io.EOF }).Once()
			return func(ctx context.Context) { _ = w(ctx, 1) }
		}),
		mk("Operation.Once", func() func(context.Context) {
			x := 0
			w := fun.Operation(func(context.Context) { x++ }).Once()
			return func(ctx context.Context) { w(ctx) }
		}),
		mk("Operation.Lock", func() func(context.Context) {
			x := 0
			w := fun.Operation(func(context.Context) { x++ }).Lock()
			return func(ctx context.Context) { w(ctx) }
		}),
		mk("Worker.WithLock", func() func(context.Context) {
			x := 0
			mu := &sync.Mutex{}
			w := fun.Worker(func(context.Context) error { x++; return nil }).WithLock(mu)
			return func(ctx context.Context) { _ = w(ctx) }
		}),
		mk("Producer.Lock", func() func(context.Context) {
			x := 0
			w := fun.Producer[int](func(context.Context) (int, error) { x++; return x, nil }).Lock()
			return func(ctx context.Context) { _, _ = w(ctx) }
		}),
		mk("Processor.Lock", func() func(context.Context) {
			x := 0
			w := fun.Processor[int](func(_ context.Context, v int) error { x += v; return nil }).Lock()
			return func(ctx context.Context) { _ = w(ctx, 1) }
		}),
		mk("Processor.Limit", func() func(context.Context) {
			x := 0
			w := fun.Processor[int](func(_ context.Context, v int) error { x += v; return nil }).Limit(2)
			return func(ctx context.Context) { _ = w(ctx, 1) }
		}),
		mk("Handler.Lock", func() func(context.Context) {
			x := 0
			w := fun.Handler[int](func(v int) { x += v }).Lock()
			return func(ctx context.Context) { w(1) }
		}),
		mk("Future.Lock", func() func(context.Context) {
			x := 0
			w := fun.Future[int](func() int { x++; return x }).Lock()
			return func(ctx context.Context) { _ = w() }
		}),
		mk("adt.Mnemonize", func() func(context.Context) {
			x := 0
			w := adt.Mnemonize(func() int { x++; return x })
			return func(ctx context.Context) { _ = w() }
		}),
		mk("ft.Once", func() func(context.Context) {
			x := 0
			w := ft.Once(func() { x++ })
			return func(ctx context.Context) { w() }
		}),
		mk("ft.OnceDo", func() func(context.Context) {
			x := 0
			w := ft.OnceDo(func() int { x++; return x })
			return func(ctx context.Context) { _ = w() }
		}),
		mk("Handler.Once", func() func(context.Context) {
			w := fun.Handler[int](func(int) {}).Once()
			return func(ctx context.Context) { w(1) }
		}),
	}
}

func pair(s subject, pre string, a, b op) vs.Scenario {
	return func() (func(), func(*vs.End) (string, string)) {
		body := func() {
			ctx, cancel := context.WithCancel(context.Background())
			obj := s.fresh(pre)
			fin := make(chan struct{}, 2)
			go func() { a.run(ctx, obj); fin <- struct{}{} }()
			go func() { b.run(ctx, obj); fin <- struct{}{} }()
			vs.Quiesce()
			cancel()
			<-fin
			<-fin
			if done := doneFns[s.name]; done != nil {
				done(obj)
			}
		}
		check := func(e *vs.End) (string, string) {
			if len(e.Races) > 0 {
				r := e.Races[0]
				return "race/" + r.Signature, fmt.Sprintf("%s [%s]: %s || %s: %s  <->  %s", s.name, pre, a.name, b.name, r.A, r.B)
			}
			return "", ""
		}
		return body, check
	}
}

func build(tier string) ([]runner.Instance, time.Duration) {
	bound, budget := 2, 100*time.Second
	if tier == "thorough" {
		bound, budget = 3, 14*time.Minute
	}
	var out []runner.Instance
	all := append(subjects(), wrapperSubjects()...)
	all = append(all, brokerSubjects()...)
	all = append(all, setupSubjects()...)
	for _, s := range all {
		for _, pre := range s.pres {
			for i, a := range s.ops {
				for j := i; j < len(s.ops); j++ {
					b := s.ops[j]
					bd := bound
					if strings.HasPrefix(s.name, "pubsub.Broker") {
						bd = bound - 1 // 7-9 threads per program
					}
					out = append(out, runner.Instance{Group: s.name, Name: fmt.Sprintf("%s/%s/%s||%s", s.name, pre, a.name, b.name), Bound: bd, Race: true, Scenario: pair(s, pre, a, b)})
				}
			}
		}
	}
	return out, budget
}

func main() {
	runner.Main(runner.Options{Property: "C13", Level: "exploration", Build: build,
		Rule:   "every unordered pair of public operations of each concurrency-safe type on a shared instance in each pre-state, two threads, every schedule up to the deviation bound; oracle: no two accesses to the same address, one a write, unordered by happens-before (vector clocks over mutex/cond/chan/once/waitgroup/atomic/context/go edges) in any explored execution; evaluations = executions; distinct_nontrivial = distinct visible-step sequences with real contention",
		Assume: []string{"access instrumentation covers addressable struct fields, captured locals, assigned package variables, slice/array elements, maps, pointer dereferences in the instrumented repo packages (vinstr)", "accesses inside uninstrumented std code are invisible", "model of sync/context/channels in verif/vs (DESIGN §2.2/§2.4)"}})
}
