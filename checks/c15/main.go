// C15: function wrappers keep their execution-count, exclusion and waiting contracts.
package main

import (
	"context"
	"errors"
	"fmt"
	"io"
	"strings"
	"sync"
	"time"

	"github.com/tychoish/fun"
	"github.com/tychoish/fun/adt"
	"github.com/tychoish/fun/ers"
	"github.com/tychoish/fun/ft"
	"verif/vs"
	"verif/vs/runner"
)

// probe is the instrumented user function shared by the wrappers.
type probe struct {
	execs    int
	inflight int
	maxIn    int
	starts   []int
	ends     []int
}

// run is one execution of the wrapped function; returns its 1-based index.
func (p *probe) run() int {
	p.execs++
	idx := p.execs
	p.inflight++
	if p.inflight > p.maxIn {
		p.maxIn = p.inflight
	}
	p.starts = append(p.starts, vs.Now())
	vs.Yield()
	p.ends = append(p.ends, vs.Now())
	p.inflight--
	return idx
}

type wrapped struct {
	name string
	// mk builds the wrapper over the probe; call invokes it once and returns the
	// observed result (0 if the wrapper has none).
	mk func(p *probe, n int) (call func(ctx context.Context) int)
}

func endTag(e *vs.End) (string, string) {
	if len(e.Panics) > 0 {
		return "panic/" + e.Panics[0].Site, e.Panics[0].Value
	}
	if e.Status != vs.Clean {
		return "stuck/" + e.Status.String() + "/" + e.LibSites(), fmt.Sprintf("%+v", e.Stuck)
	}
	return "", ""
}

var errOf = map[int]error{}

func errN(i int) error {
	if e, ok := errOf[i]; ok {
		return e
	}
	e := fmt.Errorf("result-%d", i)
	errOf[i] = e
	return e
}

func idxOf(err error) int {
	for i, e := range errOf {
		if errors.Is(err, e) {
			return i
		}
	}
	return 0
}

func init() {
	for i := 1; i <= 8; i++ {
		errN(i)
	}
}

func onceWrappers() []wrapped {
	return []wrapped{
		{"Worker.Once", func(p *probe, _ int) func(context.Context) int {
			w := fun.Worker(func(context.Context) error { return errN(p.run()) }).Once()
			return func(ctx context.Context) int { return idxOf(w(ctx)) }
		}},
		{"Operation.Once", func(p *probe, _ int) func(context.Context) int {
			w := fun.Operation(func(context.Context) { p.run() }).Once()
			return func(ctx context.Context) int { w(ctx); return 1 }
		}},
		{"Producer.Once", func(p *probe, _ int) func(context.Context) int {
			w := fun.Producer[int](func(context.Context) (int, error) { return p.run(), nil }).Once()
			return func(ctx context.Context) int { v, _ := w(ctx); return v }
		}},
		{"Processor.Once", func(p *probe, _ int) func(context.Context) int {
			w := fun.Processor[int](func(context.Context, int) error { return errN(p.run()) }).Once()
			return func(ctx context.Context) int { return idxOf(w(ctx, 7)) }
		}},
		{"Handler.Once", func(p *probe, _ int) func(context.Context) int {
			w := fun.Handler[int](func(int) { p.run() }).Once()
			return func(ctx context.Context) int { w(7); return 1 }
		}},
		{"Future.Once", func(p *probe, _ int) func(context.Context) int {
			w := fun.Future[int](func() int { return p.run() }).Once()
			return func(ctx context.Context) int { return w() }
		}},
		{"adt.Once.Resolve", func(p *probe, _ int) func(context.Context) int {
			o := adt.NewOnce(func() int { return p.run() })
			return func(ctx context.Context) int { return o.Resolve() }
		}},
		{"adt.Once.Do", func(p *probe, _ int) func(context.Context) int {
			o := &adt.Once[int]{}
			return func(ctx context.Context) int { o.Do(func() int { return p.run() }); return o.Resolve() }
		}},
		// Do alone (it has no result): a second Do may not return while the first is still running
		{"adt.Once.Do(only)", func(p *probe, _ int) func(context.Context) int {
			o := &adt.Once[int]{}
			return func(ctx context.Context) int { o.Do(func() int { return p.run() }); return 1 }
		}},
		{"adt.Mnemonize", func(p *probe, _ int) func(context.Context) int {
			w := adt.Mnemonize(func() int { return p.run() })
			return func(ctx context.Context) int { return w() }
		}},
		{"ft.Once", func(p *probe, _ int) func(context.Context) int {
			w := ft.Once(func() { p.run() })
			return func(ctx context.Context) int { w(); return 1 }
		}},
		{"ft.OnceDo", func(p *probe, _ int) func(context.Context) int {
			w := ft.OnceDo(func() int { return p.run() })
			return func(ctx context.Context) int { return w() }
		}},
	}
}

func limitWrappers() []wrapped {
	return []wrapped{
		{"Worker.Limit", func(p *probe, n int) func(context.Context) int {
			w := fun.Worker(func(context.Context) error { return errN(p.run()) }).Limit(n)
			return func(ctx context.Context) int { return idxOf(w(ctx)) }
		}},
		{"Processor.Limit", func(p *probe, n int) func(context.Context) int {
			w := fun.Processor[int](func(context.Context, int) error { return errN(p.run()) }).Limit(n)
			return func(ctx context.Context) int { return idxOf(w(ctx, 7)) }
		}},
		{"Producer.Limit", func(p *probe, n int) func(context.Context) int {
			w := fun.Producer[int](func(context.Context) (int, error) { return p.run(), nil }).Limit(n)
			return func(ctx context.Context) int { v, _ := w(ctx); return v }
		}},
		{"Future.Limit", func(p *probe, n int) func(context.Context) int {
			w := fun.Future[int](func() int { return p.run() }).Limit(n)
			return func(ctx context.Context) int { return w() }
		}},
		{"Operation.Limit", func(p *probe, n int) func(context.Context) int {
			w := fun.Operation(func(context.Context) { p.run() }).Limit(n)
			return func(ctx context.Context) int { w(ctx); return -1 }
		}},
	}
}

func lockWrappers() []wrapped {
	return []wrapped{
		{"Worker.Lock", func(p *probe, _ int) func(context.Context) int {
			w := fun.Worker(func(context.Context) error { p.run(); return nil }).Lock()
			return func(ctx context.Context) int { _ = w(ctx); return 0 }
		}},
		{"Operation.Lock", func(p *probe, _ int) func(context.Context) int {
			w := fun.Operation(func(context.Context) { p.run() }).Lock()
			return func(ctx context.Context) int { w(ctx); return 0 }
		}},
		{"Producer.Lock", func(p *probe, _ int) func(context.Context) int {
			w := fun.Producer[int](func(context.Context) (int, error) { return p.run(), nil }).Lock()
			return func(ctx context.Context) int { _, _ = w(ctx); return 0 }
		}},
		{"Processor.Lock", func(p *probe, _ int) func(context.Context) int {
			w := fun.Processor[int](func(context.Context, int) error { p.run(); return nil }).Lock()
			return func(ctx context.Context) int { _ = w(ctx, 1); return 0 }
		}},
		{"Handler.Lock", func(p *probe, _ int) func(context.Context) int {
			w := fun.Handler[int](func(int) { p.run() }).Lock()
			return func(ctx context.Context) int { w(1); return 0 }
		}},
		{"Future.Lock", func(p *probe, _ int) func(context.Context) int {
			w := fun.Future[int](func() int { return p.run() }).Lock()
			return func(ctx context.Context) int { return w() * 0 }
		}},
		{"Transform.Lock", func(p *probe, _ int) func(context.Context) int {
			w := fun.Transform[int, int](func(context.Context, int) (int, error) { return p.run(), nil }).Lock()
			return func(ctx context.Context) int { _, _ = w(ctx, 1); return 0 }
		}},
	}
}

// sharedLock: wrappers of DIFFERENT kinds built WithLock over one mutex never
// run two executions at once; the probe is shared so the gauge sees overlap
// across wrappers.
func sharedLock(pairName string, callers int) vs.Scenario {
	return func() (func(), func(*vs.End) (string, string)) {
		p := &probe{}
		body := func() {
			ctx := context.Background()
			mu := &sync.Mutex{}
			var calls []func()
			add := func(f func()) { calls = append(calls, f) }
			for _, k := range strings.Split(pairName, "+") {
				switch k {
				case "Worker":
					w := fun.Worker(func(context.Context) error { p.run(); return nil }).WithLock(mu)
					add(func() { _ = w(ctx) })
				case "Operation":
					w := fun.Operation(func(context.Context) { p.run() }).WithLock(mu)
					add(func() { w(ctx) })
				case "Producer":
					w := fun.Producer[int](func(context.Context) (int, error) { return p.run(), nil }).WithLock(mu)
					add(func() { _, _ = w(ctx) })
				case "Processor":
					w := fun.Processor[int](func(context.Context, int) error { p.run(); return nil }).WithLock(mu)
					add(func() { _ = w(ctx, 1) })
				case "Handler":
					w := fun.Handler[int](func(int) { p.run() }).WithLock(mu)
					add(func() { w(1) })
				case "Future":
					w := fun.Future[int](func() int { return p.run() }).WithLock(mu)
					add(func() { _ = w() })
				case "Transform":
					w := fun.Transform[int, int](func(context.Context, int) (int, error) { return p.run(), nil }).WithLock(mu)
					add(func() { _, _ = w(ctx, 1) })
				}
			}
			fin := make(chan struct{}, len(calls)*callers)
			for _, c := range calls {
				for i := 0; i < callers; i++ {
					c := c
					go func() { c(); fin <- struct{}{} }()
				}
			}
			for i := 0; i < len(calls)*callers; i++ {
				<-fin
			}
		}
		check := func(e *vs.End) (string, string) {
			if t, d := endTag(e); t != "" {
				return t, d
			}
			if p.maxIn > 1 {
				return "two-executions-at-once", fmt.Sprintf("WithLock(%s) over one mutex: %d executions in flight", pairName, p.maxIn)
			}
			return "", ""
		}
		return body, check
	}
}

type ret struct{ at, val int }

// concurrent: `callers` threads call the wrapper `per` times each.
func concurrent(w wrapped, kind string, n, callers, per int) vs.Scenario {
	return concurrentCtx(w, kind, n, callers, per, false)
}

// deadFirst: caller 0 passes a context that is already over (the wrapped
// function of the probe ignores its context, so the contract is unchanged:
// one execution, nobody returns before it ended, everybody sees its result).
func concurrentCtx(w wrapped, kind string, n, callers, per int, deadFirst bool) vs.Scenario {
	return func() (func(), func(*vs.End) (string, string)) {
		p := &probe{}
		var rets []ret
		final := -2
		body := func() {
			live := context.Background()
			dead, kill := context.WithCancel(context.Background())
			kill()
			call := w.mk(p, n)
			fin := make(chan struct{}, callers)
			for c := 0; c < callers; c++ {
				ctx := live
				if deadFirst && c == 0 {
					ctx = dead
				}
				go func() {
					for i := 0; i < per; i++ {
						v := call(ctx)
						rets = append(rets, ret{vs.Now(), v})
					}
					fin <- struct{}{}
				}()
			}
			for c := 0; c < callers; c++ {
				<-fin
			}
			if kind == "limit" {
				final = call(live)
			}
		}
		check := func(e *vs.End) (string, string) {
			if t, d := endTag(e); t != "" {
				return t, d
			}
			calls := callers * per
			switch kind {
			case "once":
				if p.execs != 1 {
					return "executed-not-once", fmt.Sprintf("%s: %d executions for %d calls", w.name, p.execs, calls)
				}
				for _, r := range rets {
					if r.at < p.ends[0] {
						return "returned-before-execution-finished", fmt.Sprintf("%s: a caller returned at %d, the execution ended at %d", w.name, r.at, p.ends[0])
					}
					if r.val != 1 {
						return "result-not-observed", fmt.Sprintf("%s: caller saw %d", w.name, r.val)
					}
				}
			case "limit":
				want := n
				if calls < n {
					want = calls
				}
				// the extra sequential call at the end counts as a call too
				wantFinal := want
				if calls < n {
					wantFinal = calls + 1
				}
				execsBeforeFinal := p.execs
				if calls < n {
					execsBeforeFinal = p.execs - 1
				}
				if execsBeforeFinal != want {
					return "wrong-execution-count", fmt.Sprintf("%s Limit(%d): %d executions for %d calls", w.name, n, execsBeforeFinal, calls)
				}
				if final >= 0 && final != wantFinal {
					return "last-result-not-returned", fmt.Sprintf("%s Limit(%d): call after %d calls returned result of execution %d, want %d", w.name, n, calls, final, wantFinal)
				}
				if w.name != "Operation.Limit" && p.maxIn > 1 {
					return "limit-executions-overlap", fmt.Sprintf("%s: %d executions in flight", w.name, p.maxIn)
				}
				if w.name != "Operation.Limit" {
					// every call either performs one of the `want` executions (and returns that
					// execution's result) or returns the LAST result, i.e. the result of execution
					// `want`, and in both cases only after that execution has finished
					seen := map[int]int{}
					for _, r := range rets {
						if r.val < 1 || r.val > want {
							return "stale-or-foreign-result", fmt.Sprintf("%s Limit(%d), %d calls: a call returned %d (results are 1..%d)", w.name, n, calls, r.val, want)
						}
						if r.val-1 < len(p.ends) && r.at < p.ends[r.val-1] {
							return "returned-before-execution-finished", fmt.Sprintf("%s Limit(%d): a caller returned result %d at %d, that execution ended at %d", w.name, n, r.val, r.at, p.ends[r.val-1])
						}
						seen[r.val]++
					}
					for k := 1; k < want; k++ {
						if seen[k] != 1 {
							return "non-final-result-returned-again", fmt.Sprintf("%s Limit(%d), %d calls: result of execution %d was returned by %d calls (returns %v)", w.name, n, calls, k, seen[k], rets)
						}
					}
				}
			case "lock":
				if p.maxIn > 1 {
					return "two-executions-at-once", fmt.Sprintf("%s: %d executions in flight", w.name, p.maxIn)
				}
				if p.execs != calls {
					return "wrong-execution-count", fmt.Sprintf("%s: %d executions for %d calls", w.name, p.execs, calls)
				}
			}
			return "", ""
		}
		return body, check
	}
}

// waiters: Launch / Signal / Background / StartGroup return waiters that do
// not complete before the background execution has.
func waiter(name string) vs.Scenario {
	return func() (func(), func(*vs.End) (string, string)) {
		finished, atReturn, want := 0, -1, 1
		body := func() {
			ctx, cancel := context.WithCancel(context.Background())
			defer cancel() // Producer.Launch keeps producing until its context ends
			op := fun.Operation(func(context.Context) { vs.Yield(); finished++ })
			wk := fun.Worker(func(context.Context) error { vs.Yield(); finished++; return nil })
			switch name {
			case "Operation.Launch":
				op.Launch(ctx)(ctx)
			case "Operation.Signal":
				<-op.Signal(ctx)
			case "Worker.Launch":
				_ = wk.Launch(ctx)(ctx)
			case "Worker.Signal":
				<-wk.Signal(ctx)
			case "Worker.Background":
				wk.Background(ctx, func(error) {})(ctx)
			case "Worker.StartGroup":
				want = 2
				_ = wk.StartGroup(ctx, 2)(ctx)
			case "Operation.StartGroup":
				want = 2
				wg := &fun.WaitGroup{}
				op.StartGroup(ctx, wg, 2)
				wg.Wait(ctx)
			case "Operation.Add":
				wg := &fun.WaitGroup{}
				op.Add(ctx, wg)
				wg.Wait(ctx)
			case "Producer.Launch":
				_, _ = fun.Producer[int](func(context.Context) (int, error) { vs.Yield(); finished++; return 1, nil }).Launch(ctx)(ctx)
			case "Processor.Background":
				_ = fun.Processor[int](func(context.Context, int) error { vs.Yield(); finished++; return nil }).Background(ctx, 1)(ctx)
			}
			atReturn = finished
		}
		check := func(e *vs.End) (string, string) {
			if atReturn >= 0 && atReturn < want {
				return "waiter-returned-before-completion", fmt.Sprintf("%s: waiter returned with %d of %d background executions finished", name, atReturn, want)
			}
			return endTag(e)
		}
		return body, check
	}
}

// retryTwice: ONE Retry(n) value is called twice; the first call fails once
// and then succeeds, the second call fails every attempt with its own errors.
// The second call makes at most n attempts and reports only failures of its
// own attempts (none of the first call, which succeeded).
func retryTwice(kind string, n int) vs.Scenario {
	return func() (func(), func(*vs.End) (string, string)) {
		call, attempts := 0, [2]int{}
		first := errors.New("first-call-attempt-failed")
		var r1, r2 error
		body := func() {
			ctx := context.Background()
			next := func() error {
				attempts[call]++
				if call == 0 {
					if attempts[0] == 1 {
						return first
					}
					return nil
				}
				return errN(attempts[1])
			}
			switch kind {
			case "Worker.Retry":
				w := fun.Worker(func(context.Context) error { return next() }).Retry(n)
				r1 = w(ctx)
				call = 1
				r2 = w(ctx)
			case "Producer.Retry":
				w := fun.Producer[int](func(context.Context) (int, error) { return 1, next() }).Retry(n)
				_, r1 = w(ctx)
				call = 1
				_, r2 = w(ctx)
			case "Processor.Retry":
				w := fun.Processor[int](func(context.Context, int) error { return next() }).Retry(n, 1)
				r1 = w(ctx)
				call = 1
				r2 = w(ctx)
			}
		}
		check := func(e *vs.End) (string, string) {
			if t, d := endTag(e); t != "" {
				return t, d
			}
			where := fmt.Sprintf("%s(%d) called twice", kind, n)
			if r1 != nil {
				return "failure-reported-although-an-attempt-succeeded", where + ": first call: " + r1.Error()
			}
			if attempts[1] > n {
				return "too-many-attempts", where + fmt.Sprintf(": second call made %d attempts", attempts[1])
			}
			if r2 == nil {
				return "retry/no-failure-reported", where + ": the second call failed every attempt but returned nil"
			}
			if errors.Is(r2, first) {
				return "retry/reports-failures-of-an-earlier-call", where + ": the second call's error contains a failure of the first call, which succeeded: " + r2.Error()
			}
			return "", ""
		}
		return body, check
	}
}

// rewait: the waiter is first called with a context that is already over (that
// call may return at once), then again with a live context: the second call
// may not complete before the background execution has, and reports its result.
func rewait(name string) vs.Scenario {
	return func() (func(), func(*vs.End) (string, string)) {
		finished, atReturn := 0, -1
		var first, second error
		sentinel := errN(1)
		body := func() {
			ctx, cancel := context.WithCancel(context.Background())
			defer cancel()
			dead, kill := context.WithCancel(context.Background())
			kill()
			wk := fun.Worker(func(context.Context) error { vs.Yield(); finished++; return sentinel })
			switch name {
			case "Worker.Launch":
				w := wk.Launch(ctx)
				first = w(dead)
				second = w(ctx)
			case "Worker.Background":
				var got error
				w := wk.Background(ctx, func(err error) {
					if errors.Is(err, sentinel) {
						got = err
					}
				})
				w(dead)
				w(ctx)
				second = got
			case "Operation.Launch":
				w := fun.Operation(func(context.Context) { vs.Yield(); finished++ }).Launch(ctx)
				w(dead)
				w(ctx)
				second = sentinel
			case "Processor.Background":
				w := fun.Processor[int](func(context.Context, int) error { vs.Yield(); finished++; return sentinel }).Background(ctx, 1)
				first = w(dead)
				second = w(ctx)
			case "Producer.Launch":
				w := fun.Producer[int](func(context.Context) (int, error) { vs.Yield(); finished++; return 1, nil }).Launch(ctx)
				_, _ = w(dead)
				_, _ = w(ctx)
				second = sentinel
			}
			atReturn = finished
		}
		check := func(e *vs.End) (string, string) {
			if atReturn >= 0 && atReturn < 1 {
				return "waiter-returned-before-completion/after-abandoned-wait", fmt.Sprintf("%s: the second call of the waiter (live context) returned before the background execution finished (err=%v)", name, second)
			}
			// the result is delivered once: to the first call if it was already there
			// when that call looked (its context was over, either answer is fine),
			// otherwise to the second
			if atReturn >= 1 && !errors.Is(second, sentinel) && !errors.Is(first, sentinel) {
				return "waiter-lost-result/after-abandoned-wait", fmt.Sprintf("%s: neither call of the waiter returned the execution's result (first=%v, second=%v)", name, first, second)
			}
			return endTag(e)
		}
		return body, check
	}
}

// siblingWait: two callers wait on the same waiter / wait group at once; the
// context of one of them ends. The other one (live context) may not complete
// before the background executions have.
func siblingWait(name string) vs.Scenario {
	return func() (func(), func(*vs.End) (string, string)) {
		finished, want := 0, 2
		liveAt := -1
		body := func() {
			ctx, cancel := context.WithCancel(context.Background())
			defer cancel()
			dying, kill := context.WithCancel(context.Background())
			gate := make(chan struct{})
			op := fun.Operation(func(context.Context) { <-gate; finished++ })
			wk := fun.Worker(func(context.Context) error { <-gate; finished++; return nil })
			var wait func(context.Context)
			switch name {
			case "Operation.StartGroup":
				wg := &fun.WaitGroup{}
				op.StartGroup(ctx, wg, 2)
				wait = wg.Wait
			case "Worker.StartGroup":
				w := wk.StartGroup(ctx, 2)
				wait = func(c context.Context) { _ = w(c) }
			case "Operation.Add":
				wg := &fun.WaitGroup{}
				op.Add(ctx, wg)
				op.Add(ctx, wg)
				wait = wg.Operation()
			case "wg.Worker":
				wg := &fun.WaitGroup{}
				wg.DoTimes(ctx, 2, op)
				w := wg.Worker()
				wait = func(c context.Context) { _ = w(c) }
			}
			fin := make(chan struct{}, 2)
			go func() { wait(dying); fin <- struct{}{} }()
			go func() { wait(ctx); liveAt = finished; fin <- struct{}{} }()
			kill()
			vs.Quiesce()
			close(gate)
			<-fin
			<-fin
		}
		check := func(e *vs.End) (string, string) {
			if liveAt >= 0 && liveAt < want {
				return "waiter-returned-before-completion/sibling-context-ended", fmt.Sprintf("%s: the caller with a live context returned with %d of %d background executions finished after another caller's context ended", name, liveAt, want)
			}
			return endTag(e)
		}
		return body, check
	}
}

// retry: every result script; sequential.
var outcomes = []string{"ok", "err", "skip", "eof", "abort", "ctx"}

func outcomeErr(o string, i int) error {
	switch o {
	case "ok":
		return nil
	case "err":
		return errN(i + 1)
	case "skip":
		return fun.ErrIteratorSkip
	case "eof":
		return io.EOF
	case "abort":
		return ers.ErrCurrentOpAbort
	case "ctx":
		return context.Canceled
	}
	return nil
}

func retry(kind string, n int, script []string) vs.Scenario {
	return func() (func(), func(*vs.End) (string, string)) {
		attempts := 0
		var result error
		body := func() {
			ctx := context.Background()
			next := func() error {
				i := attempts
				attempts++
				if i < len(script) {
					return outcomeErr(script[i], i)
				}
				return outcomeErr("err", i)
			}
			switch kind {
			case "Worker.Retry":
				result = fun.Worker(func(context.Context) error { return next() }).Retry(n)(ctx)
			case "Producer.Retry":
				_, result = fun.Producer[int](func(context.Context) (int, error) { return 1, next() }).Retry(n)(ctx)
			case "Processor.Retry":
				result = fun.Processor[int](func(context.Context, int) error { return next() }).Retry(n, 1)(ctx)
			}
		}
		check := func(e *vs.End) (string, string) {
			if t, d := endTag(e); t != "" {
				return t, d
			}
			where := fmt.Sprintf("%s(%d) script=%s", kind, n, strings.Join(script, ","))
			if attempts > n {
				return "too-many-attempts", where + fmt.Sprintf(": %d attempts", attempts)
			}
			// expected number of attempts: up to the first success or terminating error
			want := 0
			success := false
			for i := 0; i < n; i++ {
				o := "err"
				if i < len(script) {
					o = script[i]
				}
				want++
				if o == "ok" {
					success = true
					break
				}
				if o == "eof" || o == "abort" || o == "ctx" {
					break
				}
			}
			if attempts != want {
				return "did-not-stop-at-first-success-or-terminating", where + fmt.Sprintf(": %d attempts, want %d", attempts, want)
			}
			if success && result != nil {
				return "failure-reported-although-an-attempt-succeeded", where + ": " + result.Error()
			}
			return "", ""
		}
		return body, check
	}
}

// order: Join / PreHook / PostHook run their parts in the documented order.
func order(name string) vs.Scenario {
	return func() (func(), func(*vs.End) (string, string)) {
		var log []string
		want := ""
		body := func() {
			ctx := context.Background()
			l := func(s string) func() { return func() { log = append(log, s) } }
			lop := func(s string) fun.Operation { return func(context.Context) { log = append(log, s) } }
			lw := func(s string) fun.Worker { return func(context.Context) error { log = append(log, s); return nil } }
			switch name {
			case "Operation.Join":
				lop("a").Join(lop("b"), lop("c"))(ctx)
				want = "a b c"
			case "Operation.PreHook":
				lop("main").PreHook(lop("pre"))(ctx)
				want = "pre main"
			case "Operation.PostHook":
				lop("main").PostHook(l("post"))(ctx)
				want = "main post"
			case "Worker.Join":
				_ = lw("a").Join(lw("b"), lw("c"))(ctx)
				want = "a b c"
			case "Worker.Join(slice reused by the caller)":
				parts := []fun.Worker{lw("b"), lw("c")}
				w := lw("a").Join(parts...)
				parts[0], parts[1] = lw("x"), lw("y") // the caller's slice is the caller's
				_ = w(ctx)
				want = "a b c"
			case "Operation.Join(slice reused by the caller)":
				parts := []fun.Operation{lop("b"), lop("c")}
				w := lop("a").Join(parts...)
				parts[0], parts[1] = lop("x"), lop("y")
				w(ctx)
				want = "a b c"
			case "Worker.PreHook":
				_ = lw("main").PreHook(lop("pre"))(ctx)
				want = "pre main"
			case "Worker.PostHook":
				_ = lw("main").PostHook(l("post"))(ctx)
				want = "main post"
			case "Producer.PreHook":
				_, _ = fun.Producer[int](func(context.Context) (int, error) { log = append(log, "main"); return 1, nil }).PreHook(lop("pre"))(ctx)
				want = "pre main"
			case "Producer.PostHook":
				_, _ = fun.Producer[int](func(context.Context) (int, error) { log = append(log, "main"); return 1, nil }).PostHook(l("post"))(ctx)
				want = "main post"
			case "Processor.Join":
				mk := func(s string) fun.Processor[int] {
					return func(context.Context, int) error { log = append(log, s); return nil }
				}
				_ = mk("a").Join(mk("b"), mk("c"))(ctx, 1)
				want = "a b c"
			case "Processor.PreHook":
				_ = fun.Processor[int](func(context.Context, int) error { log = append(log, "main"); return nil }).PreHook(lop("pre"))(ctx, 1)
				want = "pre main"
			case "Processor.PostHook":
				_ = fun.Processor[int](func(context.Context, int) error { log = append(log, "main"); return nil }).PostHook(l("post"))(ctx, 1)
				want = "main post"
			case "Handler.Join":
				fun.Handler[int](func(int) { log = append(log, "a") }).Join(func(int) { log = append(log, "b") })(1)
				want = "a b"
			case "Handler.PreHook":
				fun.Handler[int](func(int) { log = append(log, "main") }).PreHook(func(int) { log = append(log, "pre") })(1)
				want = "pre main"
			case "Future.PreHook":
				fun.Future[int](func() int { log = append(log, "main"); return 1 }).PreHook(l("pre"))()
				want = "pre main"
			case "Future.PostHook":
				fun.Future[int](func() int { log = append(log, "main"); return 1 }).PostHook(l("post"))()
				want = "main post"
			}
		}
		check := func(e *vs.End) (string, string) {
			if t, d := endTag(e); t != "" {
				return t, d
			}
			if got := strings.Join(log, " "); got != want {
				return "wrong-order", fmt.Sprintf("%s: ran %q, documented order %q", name, got, want)
			}
			return "", ""
		}
		return body, check
	}
}

func scripts(n int) [][]string {
	var out [][]string
	var rec func(cur []string)
	rec = func(cur []string) {
		if len(cur) == n+1 {
			out = append(out, append([]string(nil), cur...))
			return
		}
		for _, o := range outcomes {
			rec(append(cur, o))
		}
	}
	rec(nil)
	return out
}

func build(tier string) ([]runner.Instance, time.Duration) {
	bound, budget := 3, 80*time.Second
	maxCallers := 3
	if tier == "thorough" {
		bound, budget, maxCallers = 5, 14*time.Minute, 4
	}
	var out []runner.Instance
	add := func(group, name string, b int, sc vs.Scenario) {
		out = append(out, runner.Instance{Group: group, Name: name, Bound: b, Scenario: sc})
	}
	for _, w := range onceWrappers() {
		for c := 2; c <= maxCallers+1; c++ {
			add("once/"+w.name, fmt.Sprintf("once/%s/callers=%d", w.name, c), bound, concurrent(w, "once", 0, c, 1))
		}
	}
	for _, w := range limitWrappers() {
		for n := 1; n <= 2; n++ {
			for c := 1; c <= maxCallers; c++ {
				for per := 1; per <= 2; per++ {
					add("limit/"+w.name, fmt.Sprintf("limit/%s/n=%d,callers=%d,per=%d", w.name, n, c, per), bound, concurrent(w, "limit", n, c, per))
				}
			}
		}
	}
	for _, w := range lockWrappers() {
		for c := 2; c <= maxCallers+1; c++ {
			add("lock/"+w.name, fmt.Sprintf("lock/%s/callers=%d", w.name, c), bound, concurrent(w, "lock", 0, c, 1))
		}
	}
	for _, pn := range []string{"Worker+Operation", "Producer+Processor", "Handler+Future", "Transform+Worker", "Operation+Future", "Processor+Handler"} {
		for c := 1; c <= 2; c++ {
			if c == 2 && tier != "thorough" && pn != "Worker+Operation" {
				continue
			}
			add("shared-lock/"+pn, fmt.Sprintf("shared-lock/%s/callers=%d", pn, c), bound, sharedLock(pn, c))
		}
	}
	for _, name := range []string{"Operation.Launch", "Operation.Signal", "Worker.Launch", "Worker.Signal", "Worker.Background", "Worker.StartGroup", "Operation.StartGroup", "Operation.Add", "Producer.Launch", "Processor.Background"} {
		add("waiter/"+name, "waiter/"+name, bound+1, waiter(name))
	}
	for _, name := range []string{"Operation.StartGroup", "Worker.StartGroup", "Operation.Add", "wg.Worker"} {
		add("sibling-wait/"+name, "sibling-wait/"+name, bound, siblingWait(name))
	}
	for _, w := range onceWrappers() {
		for c := 1; c <= 2; c++ {
			add("once/"+w.name, fmt.Sprintf("once/%s/callers=%d,first-context-over", w.name, c), bound, concurrentCtx(w, "once", 0, c, 1, true))
		}
	}
	for _, name := range []string{"Worker.Launch", "Worker.Background", "Operation.Launch", "Processor.Background", "Producer.Launch"} {
		add("rewait/"+name, "rewait/"+name, bound, rewait(name))
	}
	for _, kind := range []string{"Worker.Retry", "Producer.Retry", "Processor.Retry"} {
		for n := 2; n <= 3; n++ {
			add("retry/"+kind, fmt.Sprintf("retry-twice/%s/n=%d", kind, n), 0, retryTwice(kind, n))
		}
	}
	for _, kind := range []string{"Worker.Retry", "Producer.Retry", "Processor.Retry"} {
		for n := 1; n <= 3; n++ {
			if n == 3 && tier != "thorough" {
				continue
			}
			for _, s := range scripts(n) {
				add("retry/"+kind, fmt.Sprintf("retry/%s/n=%d/%s", kind, n, strings.Join(s, ",")), 0, retry(kind, n, s))
			}
		}
	}
	for _, name := range []string{"Operation.Join", "Operation.Join(slice reused by the caller)", "Operation.PreHook", "Operation.PostHook", "Worker.Join", "Worker.Join(slice reused by the caller)", "Worker.PreHook", "Worker.PostHook", "Producer.PreHook", "Producer.PostHook", "Processor.Join", "Processor.PreHook", "Processor.PostHook", "Handler.Join", "Handler.PreHook", "Future.PreHook", "Future.PostHook"} {
		add("order/"+name, "order/"+name, 0, order(name))
	}
	return out, budget
}

func main() {
	runner.Main(runner.Options{Property: "C15", Level: "exploration", Build: build, RacePoints: true,
		Assume: []string{"model of sync/context/channels in verif/vs (DESIGN §2.2)", "small scope: <=3 concurrent callers, Limit(n<=2), Retry(n<=3)"}})
}
