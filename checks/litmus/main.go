// Litmus conformance suite: binds the model of Go's concurrency primitives
// (verif/vs) to the real runtime. This one source file is compiled twice:
//
//   - plainly: every litmus runs many times on the real Go runtime and the set of
//     observed outcomes is written to a file;
//   - through vinstr: every litmus is explored exhaustively (deviation bound 8,
//     far above what these tiny programs need) and the set of reachable
//     outcomes under the model is computed.
//
// Required: observed(real) ⊆ reachable(model) for every litmus, and for the
// litmuses whose outcome set is fixed by the language specification / package
// documentation, reachable(model) == the hand-listed set.
package main

import (
	"context"
	"encoding/json"
	"flag"
	"fmt"
	"os"
	"runtime"
	"sort"
	"strings"
	"sync"
	"sync/atomic"
	"time"

	"verif/vs"
)

type litmus struct {
	name string
	body func() string
	// exact, when non-nil, is the complete outcome set fixed by the specification.
	exact []string
}

func recoverStr(f func()) (out string) {
	defer func() {
		if r := recover(); r != nil {
			out = fmt.Sprint("panic:", r)
		}
	}()
	f()
	return "ok"
}

// settle gives the other goroutines time to park: on the real runtime by
// yielding and sleeping, under the model by waiting for quiescence.
func settle() {
	if vs.Managed() {
		vs.Quiesce()
		return
	}
	for i := 0; i < 50; i++ {
		runtime.Gosched()
	}
	time.Sleep(200 * time.Microsecond)
}

func litmuses() []litmus {
	return []litmus{
		{"unbuffered-rendezvous", func() string {
			ch := make(chan int)
			x := 0
			go func() { x = 1; ch <- 1 }()
			<-ch
			return fmt.Sprint(x)
		}, []string{"1"}},
		{"buffered-fifo", func() string {
			ch := make(chan int, 2)
			ch <- 1
			ch <- 2
			return fmt.Sprint(<-ch, <-ch)
		}, []string{"1 2"}},
		{"close-then-recv", func() string {
			ch := make(chan int, 1)
			ch <- 7
			close(ch)
			a, ok1 := <-ch
			b, ok2 := <-ch
			return fmt.Sprint(a, ok1, b, ok2)
		}, []string{"7 true 0 false"}},
		{"send-on-closed-panics", func() string {
			ch := make(chan int, 1)
			close(ch)
			return recoverStr(func() { ch <- 1 })
		}, []string{"panic:send on closed channel"}},
		{"double-close-panics", func() string {
			ch := make(chan int)
			close(ch)
			return recoverStr(func() { close(ch) })
		}, []string{"panic:close of closed channel"}},
		{"close-nil-panics", func() string {
			var ch chan int
			return recoverStr(func() { close(ch) })
		}, []string{"panic:close of nil channel"}},
		{"select-default", func() string {
			ch := make(chan int)
			select {
			case <-ch:
				return "recv"
			default:
				return "default"
			}
		}, []string{"default"}},
		{"select-two-ready", func() string {
			a, b := make(chan int, 1), make(chan int, 1)
			a <- 1
			b <- 2
			select {
			case <-a:
				return "a"
			case <-b:
				return "b"
			}
		}, []string{"a", "b"}},
		{"select-nil-case-never", func() string {
			var n chan int
			b := make(chan int, 1)
			b <- 2
			select {
			case <-n:
				return "nil"
			case <-b:
				return "b"
			}
		}, []string{"b"}},
		{"blocked-sender-panics-on-close", func() string {
			ch := make(chan int)
			res := make(chan string, 1)
			go func() { res <- recoverStr(func() { ch <- 1 }) }()
			settle() // the sender is parked
			close(ch)
			return <-res
		}, nil},
		{"mutex-exclusion", func() string {
			var mu sync.Mutex
			x := 0
			var wg sync.WaitGroup
			for i := 0; i < 2; i++ {
				wg.Add(1)
				go func() {
					defer wg.Done()
					mu.Lock()
					v := x
					runtime.Gosched()
					x = v + 1
					mu.Unlock()
				}()
			}
			wg.Wait()
			return fmt.Sprint(x)
		}, []string{"2"}},
		{"atomic-lost-update", func() string {
			var a atomic.Int64
			var wg sync.WaitGroup
			for i := 0; i < 2; i++ {
				wg.Add(1)
				go func() { defer wg.Done(); v := a.Load(); runtime.Gosched(); a.Store(v + 1) }()
			}
			wg.Wait()
			return fmt.Sprint(a.Load())
		}, []string{"1", "2"}},
		{"once-runs-once-and-blocks", func() string {
			var once sync.Once
			n := 0
			done := false
			var wg sync.WaitGroup
			bad := atomic.Bool{}
			for i := 0; i < 2; i++ {
				wg.Add(1)
				go func() {
					defer wg.Done()
					once.Do(func() { n++; runtime.Gosched(); done = true })
					if !done {
						bad.Store(true)
					}
				}()
			}
			wg.Wait()
			return fmt.Sprint(n, bad.Load())
		}, []string{"1 false"}},
		{"cond-broadcast-before-wait-is-lost", func() string {
			// Broadcast without a waiter does nothing: a later Wait needs another wake-up
			var mu sync.Mutex
			c := sync.NewCond(&mu)
			c.Broadcast()
			woke := make(chan struct{})
			go func() { mu.Lock(); c.Wait(); mu.Unlock(); close(woke) }()
			settle()
			select {
			case <-woke:
				return "woke-by-earlier-broadcast"
			default:
			}
			mu.Lock()
			c.Broadcast()
			mu.Unlock()
			<-woke
			return "needed-second-broadcast"
		}, []string{"needed-second-broadcast"}},
		{"cond-signal-wakes-one", func() string {
			var mu sync.Mutex
			c := sync.NewCond(&mu)
			var woke atomic.Int64
			ready := make(chan struct{}, 2)
			for i := 0; i < 2; i++ {
				go func() { mu.Lock(); ready <- struct{}{}; c.Wait(); woke.Add(1); mu.Unlock() }()
			}
			<-ready
			<-ready
			mu.Lock() // both are inside Wait once we can lock after both signalled ready
			c.Signal()
			mu.Unlock()
			settle()
			n := woke.Load()
			mu.Lock()
			c.Broadcast()
			mu.Unlock()
			return fmt.Sprint(n)
		}, []string{"1"}},
		{"waitgroup-wait-after-done", func() string {
			var wg sync.WaitGroup
			x := 0
			wg.Add(1)
			go func() { x = 5; wg.Done() }()
			wg.Wait()
			return fmt.Sprint(x)
		}, []string{"5"}},
		{"rwmutex-readers-share", func() string {
			var mu sync.RWMutex
			mu.RLock()
			ok := make(chan bool, 1)
			go func() { mu.RLock(); ok <- true; mu.RUnlock() }()
			r := <-ok
			mu.RUnlock()
			return fmt.Sprint(r)
		}, []string{"true"}},
		{"ctx-cancel-parent-before-child", func() string {
			parent, cancel := context.WithCancel(context.Background())
			child, cancel2 := context.WithCancel(parent)
			defer cancel2()
			bad := atomic.Bool{}
			var wg sync.WaitGroup
			wg.Add(1)
			go func() {
				defer wg.Done()
				<-child.Done()
				if parent.Err() == nil {
					bad.Store(true)
				}
			}()
			cancel()
			wg.Wait()
			return fmt.Sprint(bad.Load(), child.Err() == context.Canceled)
		}, []string{"false true"}},
		{"ctx-child-of-cancelled-is-cancelled", func() string {
			parent, cancel := context.WithCancel(context.Background())
			cancel()
			child, cancel2 := context.WithCancel(parent)
			defer cancel2()
			select {
			case <-child.Done():
				return fmt.Sprint(child.Err())
			default:
				return "not-cancelled"
			}
		}, []string{"context canceled"}},
		{"ctx-background-never-done", func() string {
			select {
			case <-context.Background().Done():
				return "done"
			default:
				return "live"
			}
		}, []string{"live"}},
		{"ctx-value-lookup", func() string {
			type k struct{}
			ctx := context.WithValue(context.Background(), k{}, 3)
			ctx2, cancel := context.WithCancel(ctx)
			defer cancel()
			return fmt.Sprint(ctx2.Value(k{}))
		}, []string{"3"}},
		{"timer-stop-prevents-fire", func() string {
			t := time.NewTimer(time.Hour)
			stopped := t.Stop()
			select {
			case <-t.C:
				return "fired"
			default:
				return fmt.Sprint("stopped=", stopped)
			}
		}, []string{"stopped=true"}},
		{"timeout-ctx-expires", func() string {
			ctx, cancel := context.WithTimeout(context.Background(), time.Millisecond)
			defer cancel()
			<-ctx.Done()
			return fmt.Sprint(ctx.Err())
		}, []string{"context deadline exceeded"}},
		{"pool-new", func() string {
			p := sync.Pool{New: func() any { return 9 }}
			return fmt.Sprint(p.Get())
		}, []string{"9"}},
		{"syncmap-loadorstore", func() string {
			var m sync.Map
			var wg sync.WaitGroup
			var loaded atomic.Int64
			for i := 0; i < 2; i++ {
				i := i
				wg.Add(1)
				go func() {
					defer wg.Done()
					if _, l := m.LoadOrStore("k", i); l {
						loaded.Add(1)
					}
				}()
			}
			wg.Wait()
			return fmt.Sprint(loaded.Load())
		}, []string{"1"}},
		{"message-passing-two-senders", func() string {
			ch := make(chan int)
			go func() { ch <- 1 }()
			go func() { ch <- 2 }()
			a := <-ch
			b := <-ch
			return fmt.Sprint(a, b)
		}, []string{"1 2", "2 1"}},
		{"len-cap-of-chan", func() string {
			ch := make(chan int, 3)
			ch <- 1
			return fmt.Sprint(len(ch), cap(ch))
		}, []string{"1 3"}},
		{"range-over-chan", func() string {
			ch := make(chan int, 2)
			ch <- 1
			ch <- 2
			close(ch)
			s := 0
			for v := range ch {
				s += v
			}
			return fmt.Sprint(s)
		}, []string{"3"}},
		// two plain (unsynchronised) read-modify-writes: the update of one goroutine can be
		// lost. Reachable in the model only because racy plain accesses become scheduling
		// points (race-directed preemption, DESIGN §9.4).
		{"plain-lost-update", func() string {
			x := 0
			done := make(chan struct{}, 2)
			for i := 0; i < 2; i++ {
				go func() { v := x; runtime.Gosched(); x = v + 1; done <- struct{}{} }()
			}
			<-done
			<-done
			return fmt.Sprint(x)
		}, []string{"1", "2"}},
		{"goexit-runs-defers", func() string {
			done := make(chan string, 1)
			go func() {
				defer func() { done <- "deferred" }()
				runtime.Goexit()
			}()
			return <-done
		}, []string{"deferred"}},
	}
}

func sorted(m map[string]bool) []string {
	var out []string
	for k := range m {
		out = append(out, k)
	}
	sort.Strings(out)
	return out
}

// explore runs one litmus under the model and collects the reachable outcomes.
func explore(cfg vs.Config, l litmus, reach map[string]bool) vs.Stats {
	return vs.Explore(cfg, func() (func(), func(*vs.End) (string, string)) {
		res := "(did not finish)"
		return func() { res = l.body() }, func(e *vs.End) (string, string) {
			if len(e.Panics) > 0 {
				reach["escaped-panic:"+e.Panics[0].Value] = true
			} else {
				reach[res] = true
			}
			return "", ""
		}
	})
}

func main() {
	out := flag.String("out", "", "write observed outcome sets (real runtime run)")
	in := flag.String("real", "", "observed outcome sets from the real runtime run")
	iters := flag.Int("iters", 2000, "iterations per litmus on the real runtime")
	flag.Parse()
	ls := litmuses()
	if *out != "" {
		// real runtime
		res := map[string][]string{}
		for _, l := range ls {
			seen := map[string]bool{}
			for i := 0; i < *iters; i++ {
				seen[l.body()] = true
			}
			res[l.name] = sorted(seen)
		}
		b, _ := json.MarshalIndent(res, "", " ")
		if err := os.WriteFile(*out, b, 0o644); err != nil {
			fmt.Fprintln(os.Stderr, err)
			os.Exit(2)
		}
		fmt.Printf("litmus(real): %d litmuses x %d iterations\n", len(ls), *iters)
		return
	}
	real := map[string][]string{}
	if *in != "" {
		b, err := os.ReadFile(*in)
		if err != nil || json.Unmarshal(b, &real) != nil {
			fmt.Fprintln(os.Stderr, "cannot read", *in)
			os.Exit(2)
		}
	}
	fail := 0
	total := 0
	for _, l := range ls {
		reach := map[string]bool{}
		l := l
		cfg := vs.Config{Name: l.name, Bound: 4, Race: true, RacePoints: true, RaceAllSites: true}
		var st vs.Stats
		for restart := 0; ; restart++ {
			st = explore(cfg, l, reach)
			if len(st.NewRacy) == 0 || restart > 8 {
				break
			}
			cfg.RacySites = append(cfg.RacySites, st.NewRacy...)
			for k := range reach {
				delete(reach, k)
			}
		}
		total += st.Executions
		model := sorted(reach)
		status := "ok"
		for _, r := range real[l.name] {
			if !reach[r] {
				status = fmt.Sprintf("FAIL: real runtime produced %q which the model cannot reach", r)
			}
		}
		if l.exact != nil && strings.Join(model, "|") != strings.Join(l.exact, "|") {
			status = fmt.Sprintf("FAIL: model reaches %v, specification fixes %v", model, l.exact)
		}
		if st.Infra != "" {
			status = "FAIL: " + st.Infra
		}
		if status != "ok" {
			fail++
		}
		fmt.Printf("litmus %-40s executions=%-6d model=%v real=%v %s\n", l.name, st.Executions, model, real[l.name], status)
	}
	fmt.Printf("litmus: %d litmuses, %d model executions, %d failures\n", len(ls), total, fail)
	if fail > 0 {
		os.Exit(1)
	}
}
