// C07: blocking queue/deque operations never miss a wake-up.
// Closed programs over the real pubsub.Queue / pubsub.Deque: parked consumers
// or producers, a burst of enabling operations, quiescence oracle, then
// release through Close / cancel. Every schedule up to the deviation bound.
package main

import (
	"context"
	"errors"
	"fmt"
	"time"

	"github.com/tychoish/fun/pubsub"
	"verif/vs"
	"verif/vs/runner"
)

// box adapts one blocking API of one container.
type box struct {
	name     string
	consumer bool
	// fresh returns the blocking call, the enabling call, close, and prefill.
	fresh func() (block func(ctx context.Context, v int) (int, error), enable func(v int) bool, closeFn func(), length func() int)
}

func must[T any](v T, err error) T {
	if err != nil {
		panic(err)
	}
	return v
}

func boxes() []box {
	return []box{
		{"queue.Wait", true, func() (func(context.Context, int) (int, error), func(int) bool, func(), func() int) {
			q := pubsub.NewUnlimitedQueue[int]()
			return func(ctx context.Context, _ int) (int, error) { return q.Wait(ctx) },
				func(v int) bool { return q.Add(v) == nil }, func() { _ = q.Close() }, q.Len
		}},
		{"queue.Distributor.Receive", true, func() (func(context.Context, int) (int, error), func(int) bool, func(), func() int) {
			q := pubsub.NewUnlimitedQueue[int]()
			d := q.Distributor()
			return func(ctx context.Context, _ int) (int, error) { return d.Receive(ctx) },
				func(v int) bool { return d.Send(context.Background(), v) == nil }, func() { _ = q.Close() }, q.Len
		}},
		{"deque.WaitFront", true, func() (func(context.Context, int) (int, error), func(int) bool, func(), func() int) {
			q := pubsub.NewUnlimitedDeque[int]()
			return func(ctx context.Context, _ int) (int, error) { return q.WaitFront(ctx) },
				func(v int) bool { return q.PushBack(v) == nil }, func() { _ = q.Close() }, q.Len
		}},
		{"deque.WaitBack", true, func() (func(context.Context, int) (int, error), func(int) bool, func(), func() int) {
			q := pubsub.NewUnlimitedDeque[int]()
			return func(ctx context.Context, _ int) (int, error) { return q.WaitBack(ctx) },
				func(v int) bool { return q.PushFront(v) == nil }, func() { _ = q.Close() }, q.Len
		}},
		{"deque.WaitFront+PushFront", true, func() (func(context.Context, int) (int, error), func(int) bool, func(), func() int) {
			q := pubsub.NewUnlimitedDeque[int]()
			return func(ctx context.Context, _ int) (int, error) { return q.WaitFront(ctx) },
				func(v int) bool { return q.PushFront(v) == nil }, func() { _ = q.Close() }, q.Len
		}},
		{"deque.Distributor.Receive", true, func() (func(context.Context, int) (int, error), func(int) bool, func(), func() int) {
			q := pubsub.NewUnlimitedDeque[int]()
			d := q.Distributor()
			return func(ctx context.Context, _ int) (int, error) { return d.Receive(ctx) },
				func(v int) bool { return d.Send(context.Background(), v) == nil }, func() { _ = q.Close() }, q.Len
		}},
		// producers: container of capacity 1, pre-filled by the scenario
		{"queue.BlockingAdd", false, func() (func(context.Context, int) (int, error), func(int) bool, func(), func() int) {
			q := must(pubsub.NewQueue[int](pubsub.QueueOptions{HardLimit: 1, SoftQuota: 1}))
			_ = q.Add(100)
			return func(ctx context.Context, v int) (int, error) { return v, q.BlockingAdd(ctx, v) },
				func(int) bool { _, ok := q.Remove(); return ok }, func() { _ = q.Close() }, q.Len
		}},
		{"deque.WaitPushBack", false, func() (func(context.Context, int) (int, error), func(int) bool, func(), func() int) {
			q := must(pubsub.NewDeque[int](pubsub.DequeOptions{Capacity: 1}))
			_ = q.PushBack(100)
			return func(ctx context.Context, v int) (int, error) { return v, q.WaitPushBack(ctx, v) },
				func(int) bool { _, ok := q.PopFront(); return ok }, func() { _ = q.Close() }, q.Len
		}},
		{"deque.WaitPushFront", false, func() (func(context.Context, int) (int, error), func(int) bool, func(), func() int) {
			q := must(pubsub.NewDeque[int](pubsub.DequeOptions{Capacity: 1}))
			_ = q.PushBack(100)
			return func(ctx context.Context, v int) (int, error) { return v, q.WaitPushFront(ctx, v) },
				func(int) bool { _, ok := q.PopBack(); return ok }, func() { _ = q.Close() }, q.Len
		}},
	}
}

func endTag(e *vs.End) (string, string) {
	if len(e.Panics) > 0 {
		return "panic/" + e.Panics[0].Site, e.Panics[0].Value
	}
	if e.NonTerminating() {
		return "livelock/" + e.LibSites(), fmt.Sprintf("%+v", e.Stuck)
	}
	if e.Status != vs.Clean {
		return "stuck/" + e.LibSites(), fmt.Sprintf("threads never returned: %+v", e.Stuck)
	}
	return "", ""
}

// burst: k parked callers, m enabling operations issued by `enablers` threads.
// At quiescence exactly min(k, m) callers must have returned successfully;
// then the container is closed and every remaining caller must return.
func burst(b box, k, m, enablers int, release string) vs.Scenario {
	return func() (func(), func(*vs.End) (string, string)) {
		okAtQuiet, errAtQuiet, okTotal, enabledOK := -1, -1, 0, 0
		retOK, retErr := 0, 0
		var relErrs []error
		body := func() {
			block, enable, closeFn, _ := b.fresh()
			fin := make(chan struct{}, k+enablers)
			cancels := make([]context.CancelFunc, k)
			for i := 0; i < k; i++ {
				i := i
				ctx, cancel := context.WithCancel(context.Background())
				cancels[i] = cancel
				go func() {
					_, err := block(ctx, i+1)
					if err == nil {
						retOK++
					} else {
						retErr++
						relErrs = append(relErrs, err)
					}
					fin <- struct{}{}
				}()
			}
			per := make([]int, enablers)
			for j := 0; j < m; j++ {
				per[j%enablers]++
			}
			for j := 0; j < enablers; j++ {
				n := per[j]
				go func() {
					for x := 0; x < n; x++ {
						if enable(10 + x) {
							enabledOK++
						}
					}
					fin <- struct{}{}
				}()
			}
			vs.Quiesce()
			okAtQuiet, errAtQuiet = retOK, retErr
			switch release {
			case "close":
				closeFn()
			case "cancel":
				for _, c := range cancels {
					c()
				}
			}
			for i := 0; i < k+enablers; i++ {
				<-fin
			}
			okTotal = retOK
			for _, c := range cancels {
				c()
			}
		}
		check := func(e *vs.End) (string, string) {
			// every successful enabling operation satisfies one parked caller
			want := k
			if enabledOK < k {
				want = enabledOK
			}
			if okAtQuiet >= 0 && okAtQuiet+errAtQuiet < want {
				return "blocked-although-satisfied", fmt.Sprintf("%s: at quiescence %d of %d callers had returned although %d enabling operations completed (enablers succeeded: %d)", b.name, okAtQuiet, k, m, enabledOK)
			}
			if okAtQuiet >= 0 && errAtQuiet > 0 {
				return "spurious-error-before-release", fmt.Sprintf("%s: %d callers failed before close/cancel: %v", b.name, errAtQuiet, relErrs)
			}
			if okAtQuiet > want {
				return "too-many-completions", fmt.Sprintf("%d > %d", okAtQuiet, want)
			}
			if t, d := endTag(e); t != "" {
				return "not-released-by-" + release + "/" + t, d
			}
			_ = okTotal
			return "", ""
		}
		return body, check
	}
}

// satisfied: the condition already holds at invocation: the call must complete
// without any other thread moving.
func satisfied(b box) vs.Scenario {
	return func() (func(), func(*vs.End) (string, string)) {
		var err error
		done := false
		body := func() {
			block, enable, _, _ := b.fresh()
			enable(7) // consumer: one item available; producer: one slot free
			_, err = block(context.Background(), 1)
			done = true
		}
		check := func(e *vs.End) (string, string) {
			if !done {
				return "blocked-although-satisfied", fmt.Sprintf("%s blocked although its condition held at invocation; %s %+v", b.name, e.Status, e.Stuck)
			}
			if err != nil {
				return "error-although-satisfied", err.Error()
			}
			return endTag(e)
		}
		return body, check
	}
}

// race: k parked callers and a concurrent Close or cancel (no quiescence in
// between): every caller must return.
func race(b box, k int, how string) vs.Scenario {
	return func() (func(), func(*vs.End) (string, string)) {
		var errs []error
		body := func() {
			block, _, closeFn, _ := b.fresh()
			fin := make(chan struct{}, k)
			cancels := make([]context.CancelFunc, k)
			for i := 0; i < k; i++ {
				ctx, cancel := context.WithCancel(context.Background())
				cancels[i] = cancel
				go func() {
					_, err := block(ctx, 1)
					errs = append(errs, err)
					fin <- struct{}{}
				}()
			}
			if how == "close" {
				closeFn()
			} else {
				for _, c := range cancels {
					c()
				}
			}
			for i := 0; i < k; i++ {
				<-fin
			}
			for _, c := range cancels {
				c()
			}
		}
		check := func(e *vs.End) (string, string) {
			if t, d := endTag(e); t != "" {
				return "not-released-by-" + how + "/" + t, d
			}
			for _, err := range errs {
				if err == nil {
					return "returned-ok-on-" + how, "a blocked call on a container that never satisfied it returned nil"
				}
				if how == "close" && !errors.Is(err, pubsub.ErrQueueClosed) {
					return "wrong-error-on-close", err.Error()
				}
				if how == "cancel" && !errors.Is(err, context.Canceled) {
					return "wrong-error-on-cancel", err.Error()
				}
			}
			return "", ""
		}
		return body, check
	}
}

func build(tier string) ([]runner.Instance, time.Duration) {
	bound, budget := 2, 70*time.Second
	maxK, maxM := 2, 2
	if tier == "thorough" {
		bound, budget, maxM = 3, 14*time.Minute, 3
	}
	var out []runner.Instance
	for _, b := range boxes() {
		out = append(out, runner.Instance{Group: "satisfied/" + b.name, Name: "satisfied/" + b.name, Bound: bound, Scenario: satisfied(b)})
		for k := 1; k <= maxK; k++ {
			for m := 0; m <= maxM; m++ {
				for en := 1; en <= 2; en++ {
					if en > m && en > 1 {
						continue
					}
					for _, rel := range []string{"close", "cancel"} {
						out = append(out, runner.Instance{Group: "burst/" + b.name, Name: fmt.Sprintf("burst/%s/k=%d,m=%d,enablers=%d,release=%s", b.name, k, m, en, rel), Bound: bound, Scenario: burst(b, k, m, en, rel)})
					}
				}
			}
			for _, how := range []string{"close", "cancel"} {
				out = append(out, runner.Instance{Group: "race/" + b.name, Name: fmt.Sprintf("race/%s/k=%d,%s", b.name, k, how), Bound: bound + 1, Scenario: race(b, k, how)})
			}
		}
	}
	return out, budget
}

func main() {
	runner.Main(runner.Options{Property: "C07", Level: "exploration", Build: build,
		Assume: []string{"model of sync/context/channels in verif/vs (DESIGN §2.2)", "quiescence = no other thread enabled, or only threads spinning in a cycle that changes no visible state and performs no plain write", "small scope: <=2 parked callers, <=3 enabling operations"}})
}
