// C07: blocking queue/deque operations never miss a wake-up.
// Closed programs over the real pubsub.Queue / pubsub.Deque: parked consumers
// or producers, a burst of enabling operations, quiescence oracle, then
// release through Close / cancel. Every schedule up to the deviation bound.
package main

import (
	"context"
	"errors"
	"fmt"
	"time"

	"github.com/tychoish/fun"
	"github.com/tychoish/fun/pubsub"
	"verif/vs"
	"verif/vs/runner"
)

// box adapts one blocking API of one container.
type box struct {
	name     string
	consumer bool
	// fresh returns the blocking call, the enabling call, close, and prefill.
	fresh func() (block func(ctx context.Context, v int) (int, error), enable func(v int) bool, closeFn func(), length func() int)
}

func must[T any](v T, err error) T {
	if err != nil {
		panic(err)
	}
	return v
}

func boxes() []box {
	return []box{
		{"queue.Wait", true, func() (func(context.Context, int) (int, error), func(int) bool, func(), func() int) {
			q := pubsub.NewUnlimitedQueue[int]()
			return func(ctx context.Context, _ int) (int, error) { return q.Wait(ctx) },
				func(v int) bool { return q.Add(v) == nil }, func() { _ = q.Close() }, q.Len
		}},
		{"queue.Distributor.Receive", true, func() (func(context.Context, int) (int, error), func(int) bool, func(), func() int) {
			q := pubsub.NewUnlimitedQueue[int]()
			d := q.Distributor()
			return func(ctx context.Context, _ int) (int, error) { return d.Receive(ctx) },
				func(v int) bool { return d.Send(context.Background(), v) == nil }, func() { _ = q.Close() }, q.Len
		}},
		{"deque.WaitFront", true, func() (func(context.Context, int) (int, error), func(int) bool, func(), func() int) {
			q := pubsub.NewUnlimitedDeque[int]()
			return func(ctx context.Context, _ int) (int, error) { return q.WaitFront(ctx) },
				func(v int) bool { return q.PushBack(v) == nil }, func() { _ = q.Close() }, q.Len
		}},
		{"deque.WaitBack", true, func() (func(context.Context, int) (int, error), func(int) bool, func(), func() int) {
			q := pubsub.NewUnlimitedDeque[int]()
			return func(ctx context.Context, _ int) (int, error) { return q.WaitBack(ctx) },
				func(v int) bool { return q.PushFront(v) == nil }, func() { _ = q.Close() }, q.Len
		}},
		{"deque.WaitFront+PushFront", true, func() (func(context.Context, int) (int, error), func(int) bool, func(), func() int) {
			q := pubsub.NewUnlimitedDeque[int]()
			return func(ctx context.Context, _ int) (int, error) { return q.WaitFront(ctx) },
				func(v int) bool { return q.PushFront(v) == nil }, func() { _ = q.Close() }, q.Len
		}},
		{"deque.Distributor.Receive", true, func() (func(context.Context, int) (int, error), func(int) bool, func(), func() int) {
			q := pubsub.NewUnlimitedDeque[int]()
			d := q.Distributor()
			return func(ctx context.Context, _ int) (int, error) { return d.Receive(ctx) },
				func(v int) bool { return d.Send(context.Background(), v) == nil }, func() { _ = q.Close() }, q.Len
		}},
		// producers: container of capacity 1, pre-filled by the scenario
		{"queue.BlockingAdd", false, func() (func(context.Context, int) (int, error), func(int) bool, func(), func() int) {
			q := must(pubsub.NewQueue[int](pubsub.QueueOptions{HardLimit: 1, SoftQuota: 1}))
			_ = q.Add(100)
			return func(ctx context.Context, v int) (int, error) { return v, q.BlockingAdd(ctx, v) },
				func(int) bool { _, ok := q.Remove(); return ok }, func() { _ = q.Close() }, q.Len
		}},
		{"deque.WaitPushBack", false, func() (func(context.Context, int) (int, error), func(int) bool, func(), func() int) {
			q := must(pubsub.NewDeque[int](pubsub.DequeOptions{Capacity: 1}))
			_ = q.PushBack(100)
			return func(ctx context.Context, v int) (int, error) { return v, q.WaitPushBack(ctx, v) },
				func(int) bool { _, ok := q.PopFront(); return ok }, func() { _ = q.Close() }, q.Len
		}},
		{"deque.WaitPushFront", false, func() (func(context.Context, int) (int, error), func(int) bool, func(), func() int) {
			q := must(pubsub.NewDeque[int](pubsub.DequeOptions{Capacity: 1}))
			_ = q.PushBack(100)
			return func(ctx context.Context, v int) (int, error) { return v, q.WaitPushFront(ctx, v) },
				func(int) bool { _, ok := q.PopBack(); return ok }, func() { _ = q.Close() }, q.Len
		}},
	}
}

func endTag(e *vs.End) (string, string) {
	if len(e.Panics) > 0 {
		return "panic/" + e.Panics[0].Site, e.Panics[0].Value
	}
	if e.NonTerminating() {
		return "livelock/" + e.LibSites(), fmt.Sprintf("%+v", e.Stuck)
	}
	if e.Status != vs.Clean {
		return "stuck/" + e.LibSites(), fmt.Sprintf("threads never returned: %+v", e.Stuck)
	}
	return "", ""
}

// burst: k parked callers, m enabling operations issued by `enablers` threads.
// At quiescence exactly min(k, m) callers must have returned successfully;
// then the container is closed and every remaining caller must return.
func burst(b box, k, m, enablers int, release string) vs.Scenario {
	return func() (func(), func(*vs.End) (string, string)) {
		okAtQuiet, errAtQuiet, okTotal, enabledOK := -1, -1, 0, 0
		retOK, retErr := 0, 0
		var relErrs []error
		body := func() {
			block, enable, closeFn, _ := b.fresh()
			fin := make(chan struct{}, k+enablers)
			cancels := make([]context.CancelFunc, k)
			for i := 0; i < k; i++ {
				i := i
				ctx, cancel := context.WithCancel(context.Background())
				cancels[i] = cancel
				go func() {
					_, err := block(ctx, i+1)
					if err == nil {
						retOK++
					} else {
						retErr++
						relErrs = append(relErrs, err)
					}
					fin <- struct{}{}
				}()
			}
			per := make([]int, enablers)
			for j := 0; j < m; j++ {
				per[j%enablers]++
			}
			for j := 0; j < enablers; j++ {
				n := per[j]
				go func() {
					for x := 0; x < n; x++ {
						if enable(10 + x) {
							enabledOK++
						}
					}
					fin <- struct{}{}
				}()
			}
			vs.Quiesce()
			okAtQuiet, errAtQuiet = retOK, retErr
			switch release {
			case "close":
				closeFn()
			case "cancel":
				for _, c := range cancels {
					c()
				}
			}
			for i := 0; i < k+enablers; i++ {
				<-fin
			}
			okTotal = retOK
			for _, c := range cancels {
				c()
			}
		}
		check := func(e *vs.End) (string, string) {
			// every successful enabling operation satisfies one parked caller
			want := k
			if enabledOK < k {
				want = enabledOK
			}
			if okAtQuiet >= 0 && okAtQuiet+errAtQuiet < want {
				return "blocked-although-satisfied", fmt.Sprintf("%s: at quiescence %d of %d callers had returned although %d enabling operations completed (enablers succeeded: %d)", b.name, okAtQuiet, k, m, enabledOK)
			}
			if okAtQuiet >= 0 && errAtQuiet > 0 {
				return "spurious-error-before-release", fmt.Sprintf("%s: %d callers failed before close/cancel: %v", b.name, errAtQuiet, relErrs)
			}
			if okAtQuiet > want {
				return "too-many-completions", fmt.Sprintf("%d > %d", okAtQuiet, want)
			}
			if t, d := endTag(e); t != "" {
				return "not-released-by-" + release + "/" + t, d
			}
			_ = okTotal
			return "", ""
		}
		return body, check
	}
}

// satisfied: the condition already holds at invocation: the call must complete
// without any other thread moving.
func satisfied(b box) vs.Scenario {
	return func() (func(), func(*vs.End) (string, string)) {
		var err error
		done := false
		body := func() {
			block, enable, _, _ := b.fresh()
			enable(7) // consumer: one item available; producer: one slot free
			_, err = block(context.Background(), 1)
			done = true
		}
		check := func(e *vs.End) (string, string) {
			if !done {
				return "blocked-although-satisfied", fmt.Sprintf("%s blocked although its condition held at invocation; %s %+v", b.name, e.Status, e.Stuck)
			}
			if err != nil {
				return "error-although-satisfied", err.Error()
			}
			return endTag(e)
		}
		return body, check
	}
}

// race: k parked callers and a concurrent Close or cancel (no quiescence in
// between): every caller must return.
func race(b box, k int, how string) vs.Scenario {
	return func() (func(), func(*vs.End) (string, string)) {
		var errs []error
		body := func() {
			block, _, closeFn, _ := b.fresh()
			fin := make(chan struct{}, k)
			cancels := make([]context.CancelFunc, k)
			for i := 0; i < k; i++ {
				ctx, cancel := context.WithCancel(context.Background())
				cancels[i] = cancel
				go func() {
					_, err := block(ctx, 1)
					errs = append(errs, err)
					fin <- struct{}{}
				}()
			}
			if how == "close" {
				closeFn()
			} else {
				for _, c := range cancels {
					c()
				}
			}
			for i := 0; i < k; i++ {
				<-fin
			}
			for _, c := range cancels {
				c()
			}
		}
		check := func(e *vs.End) (string, string) {
			if t, d := endTag(e); t != "" {
				return "not-released-by-" + how + "/" + t, d
			}
			for _, err := range errs {
				if err == nil {
					return "returned-ok-on-" + how, "a blocked call on a container that never satisfied it returned nil"
				}
				if how == "close" && !errors.Is(err, pubsub.ErrQueueClosed) {
					return "wrong-error-on-close", err.Error()
				}
				if how == "cancel" && !errors.Is(err, context.Canceled) {
					return "wrong-error-on-cancel", err.Error()
				}
			}
			return "", ""
		}
		return body, check
	}
}

// ---------------------------------------------------------------------------
// mixed: heterogeneous parked callers (consumers, producers and parked
// non-destructive iterators, which share condition variables with them) on one
// bounded container, a burst of operations from one or two threads, then the
// quiescence oracle of the statement: no consumer parked while the container is
// non-empty, no producer parked while it has free capacity. Len() is exact at
// quiescence because nothing else is running. Finally Close releases everyone.

type mixCont struct {
	name string
	cap  int
	// calls by name; every call takes a context (ignored by non-blocking ops)
	call    func(name string) func(ctx context.Context, v int) error
	length  func() int
	closeFn func()
}

func isConsumer(n string) bool {
	return n == "Wait" || n == "WaitFront" || n == "WaitBack" || n == "Receive"
}
func isProducer(n string) bool {
	return n == "BlockingAdd" || n == "WaitPushFront" || n == "WaitPushBack"
}

func mixQueue(capacity, prefill int) func() mixCont {
	return func() mixCont {
		var q *pubsub.Queue[int]
		if capacity == 0 {
			q = pubsub.NewUnlimitedQueue[int]()
		} else {
			q = must(pubsub.NewQueue[int](pubsub.QueueOptions{HardLimit: capacity, SoftQuota: capacity}))
		}
		for i := 0; i < prefill; i++ {
			_ = q.Add(100 + i)
		}
		d := q.Distributor()
		return mixCont{name: fmt.Sprintf("queue(cap=%d,pre=%d)", capacity, prefill), cap: capacity, length: q.Len, closeFn: func() { _ = q.Close() },
			call: func(name string) func(context.Context, int) error {
				switch name {
				case "Wait":
					return func(ctx context.Context, _ int) error { _, err := q.Wait(ctx); return err }
				case "Receive":
					return func(ctx context.Context, _ int) error { _, err := d.Receive(ctx); return err }
				case "BlockingAdd":
					return func(ctx context.Context, v int) error { return q.BlockingAdd(ctx, v) }
				case "IterToEnd":
					// a non-destructive iterator that reads everything present and
					// then parks at the tail waiting for later additions
					return func(ctx context.Context, _ int) error {
						it := q.Iterator()
						for it.Next(ctx) {
						}
						return it.Close()
					}
				case "Add":
					return func(_ context.Context, v int) error { return q.Add(v) }
				case "Remove":
					return func(context.Context, int) error {
						if _, ok := q.Remove(); !ok {
							return errors.New("empty")
						}
						return nil
					}
				}
				panic(name)
			}}
	}
}

func mixDeque(capacity, prefill int) func() mixCont { return mixDequeOpt(capacity, prefill, nil) }

// mixDequeQuota: a deque with a soft quota / hard limit / burst credit tracker.
// Its "capacity" is not defined by the statement (cap = -1: the Len-vs-capacity
// oracle is off); only the fresh-call probe judges its blocked producers.
func mixDequeQuota(soft, hard, prefill int) func() mixCont {
	return mixDequeOpt(-1, prefill, &pubsub.QueueOptions{SoftQuota: soft, HardLimit: hard})
}

func mixDequeOpt(capacity, prefill int, qo *pubsub.QueueOptions) func() mixCont {
	return func() mixCont {
		var q *pubsub.Deque[int]
		if qo != nil {
			q = must(pubsub.NewDeque[int](pubsub.DequeOptions{QueueOptions: qo}))
		} else if capacity == 0 {
			q = pubsub.NewUnlimitedDeque[int]()
		} else {
			q = must(pubsub.NewDeque[int](pubsub.DequeOptions{Capacity: capacity}))
		}
		for i := 0; i < prefill; i++ {
			_ = q.PushBack(100 + i)
		}
		pop := func(f func() (int, bool)) func(context.Context, int) error {
			return func(context.Context, int) error {
				if _, ok := f(); !ok {
					return errors.New("empty")
				}
				return nil
			}
		}
		iter := func(p fun.Producer[int]) func(context.Context, int) error {
			return func(ctx context.Context, _ int) error {
				it := p.Iterator()
				for it.Next(ctx) {
				}
				return it.Close()
			}
		}
		return mixCont{name: fmt.Sprintf("deque(cap=%d,pre=%d)", capacity, prefill), cap: capacity, length: q.Len, closeFn: func() { _ = q.Close() },
			call: func(name string) func(context.Context, int) error {
				switch name {
				case "WaitFront":
					return func(ctx context.Context, _ int) error { _, err := q.WaitFront(ctx); return err }
				case "WaitBack":
					return func(ctx context.Context, _ int) error { _, err := q.WaitBack(ctx); return err }
				case "WaitPushFront":
					return func(ctx context.Context, v int) error { return q.WaitPushFront(ctx, v) }
				case "WaitPushBack":
					return func(ctx context.Context, v int) error { return q.WaitPushBack(ctx, v) }
				case "IterToEnd":
					return iter(q.ProducerBlocking())
				case "IterToEndReverse":
					return iter(q.ProducerReverseBlocking())
				case "PushFront":
					return func(_ context.Context, v int) error { return q.PushFront(v) }
				case "PushBack":
					return func(_ context.Context, v int) error { return q.PushBack(v) }
				case "ForcePushFront":
					return func(_ context.Context, v int) error { return q.ForcePushFront(v) }
				case "ForcePushBack":
					return func(_ context.Context, v int) error { return q.ForcePushBack(v) }
				case "PopFront":
					return pop(q.PopFront)
				case "PopBack":
					return pop(q.PopBack)
				}
				panic(name)
			}}
	}
}

// mixed: `parked` callers are started first (each on its own thread); the
// threads in `ops` then run their operation lists concurrently.
func mixed(mk func() mixCont, parked []string, ops [][]string) vs.Scenario {
	return func() (func(), func(*vs.End) (string, string)) {
		returned := make([]bool, len(parked))
		errs := make([]error, len(parked))
		lenAtQuiet, capacity := -1, 0
		parkedAtQuiet := make([]bool, len(parked))
		name, probeBeat := "", ""
		body := func() {
			c := mk()
			name, capacity = c.name, c.cap
			fin := make(chan struct{}, 2*len(parked)+len(ops))
			ctx, cancel := context.WithCancel(context.Background())
			for i, p := range parked {
				i, f := i, c.call(p)
				go func() {
					errs[i] = f(ctx, i+1)
					returned[i] = true
					vs.Progress()
					fin <- struct{}{}
				}()
			}
			for _, list := range ops {
				list := list
				go func() {
					for x, o := range list {
						_ = c.call(o)(ctx, 10+x)
					}
					fin <- struct{}{}
				}()
			}
			vs.Quiesce()
			lenAtQuiet = c.length()
			for i := range parked {
				parkedAtQuiet[i] = !returned[i]
			}
			// probe: a FRESH call of the same blocking operation is made in this very
			// state. If it completes while the old call stays parked, the old call's
			// condition was satisfied at quiescence (this needs no notion of capacity).
			probes := 0
			probed := map[string]bool{}
			for i, p := range parked {
				if returned[i] || probed[p] || !(isConsumer(p) || isProducer(p)) {
					continue
				}
				probed[p] = true
				probes++
				i, f := i, c.call(p)
				go func() {
					err := f(ctx, 90+i)
					if err == nil && !returned[i] {
						probeBeat = p
					}
					vs.Progress()
					fin <- struct{}{}
				}()
				vs.Quiesce()
				if probeBeat != "" {
					break
				}
			}
			c.closeFn()
			for i := 0; i < len(parked)+len(ops)+probes; i++ {
				<-fin
			}
			cancel()
		}
		check := func(e *vs.End) (string, string) {
			where := fmt.Sprintf("%s parked=%v ops=%v", name, parked, ops)
			if lenAtQuiet >= 0 {
				for i, p := range parked {
					if !parkedAtQuiet[i] {
						if errs[i] != nil && (isConsumer(p) || isProducer(p)) {
							return "spurious-error-before-release/" + p, where + ": " + errs[i].Error()
						}
						continue
					}
					if isConsumer(p) && lenAtQuiet > 0 {
						return "consumer-parked-while-nonempty/" + p, where + fmt.Sprintf(": at quiescence %s is still blocked although the container holds %d item(s)", p, lenAtQuiet)
					}
					if isProducer(p) && capacity >= 0 && (capacity == 0 || lenAtQuiet < capacity) {
						return "producer-parked-with-free-capacity/" + p, where + fmt.Sprintf(": at quiescence %s is still blocked although the container holds %d of %d item(s)", p, lenAtQuiet, capacity)
					}
				}
			}
			if probeBeat != "" {
				return "parked-while-a-fresh-call-completes/" + probeBeat, where + fmt.Sprintf(": at quiescence a fresh %s completed at once while the earlier %s stayed blocked", probeBeat, probeBeat)
			}
			if t, d := endTag(e); t != "" {
				return "not-released-by-close/" + t, where + ": " + d
			}
			return "", ""
		}
		return body, check
	}
}

type mixCase struct {
	mk     func() mixCont
	label  string
	parked []string
	ops    [][]string
	deep   bool // thorough only
}

// Queue capacities: HardLimit == SoftQuota == c. The queue's tracker lowers its
// soft quota once the length falls below half of it, and BlockingAdd waits at
// the (current) soft quota without spending burst credit; whether a queue in
// that state "has free capacity" is not settled by the statement, so queue
// cases never take a capacity-2 queue below length 1 (capacity 1 never adapts).
func mixCases() []mixCase {
	q, d := mixQueue, mixDeque
	return []mixCase{
		// producers sharing their condition variable with parked iterators
		{q(2, 2), "q22", []string{"IterToEnd", "BlockingAdd"}, [][]string{{"Remove"}}, false},
		{q(2, 2), "q22", []string{"BlockingAdd", "IterToEnd"}, [][]string{{"Remove"}}, false},
		{q(1, 1), "q11", []string{"IterToEnd", "BlockingAdd"}, [][]string{{"Remove"}}, false},
		{q(2, 2), "q22", []string{"IterToEnd", "BlockingAdd", "BlockingAdd"}, [][]string{{"Remove"}}, false},
		{q(1, 1), "q11", []string{"IterToEnd", "BlockingAdd", "BlockingAdd"}, [][]string{{"Remove", "Remove"}}, false},
		{q(2, 2), "q22", []string{"IterToEnd", "IterToEnd", "BlockingAdd"}, [][]string{{"Remove"}}, false},
		{q(1, 1), "q11", []string{"IterToEnd", "BlockingAdd", "BlockingAdd"}, [][]string{{"Remove"}, {"Remove"}}, true},
		// consumers next to parked iterators
		{q(0, 0), "q00", []string{"IterToEnd", "Wait"}, [][]string{{"Add"}}, false},
		{q(0, 0), "q00", []string{"IterToEnd", "Wait", "Receive"}, [][]string{{"Add", "Add"}}, false},
		{q(0, 1), "q01", []string{"IterToEnd", "Wait", "Wait"}, [][]string{{"Add"}}, false},
		// consumers and producers on the same bounded queue (hand-over chains)
		{q(1, 1), "q11", []string{"BlockingAdd", "Wait"}, nil, false},
		{q(1, 1), "q11", []string{"BlockingAdd", "BlockingAdd", "Wait", "Wait"}, nil, false},
		{q(1, 0), "q10", []string{"Wait", "Wait", "BlockingAdd", "BlockingAdd"}, nil, false},
		{q(1, 0), "q10", []string{"Wait", "Wait"}, [][]string{{"Add"}, {"Add"}}, false},
		{q(1, 1), "q11", []string{"BlockingAdd", "BlockingAdd", "Wait"}, [][]string{{"Remove"}}, true},
		{q(1, 1), "q11", []string{"BlockingAdd", "Receive", "IterToEnd"}, [][]string{{"Remove", "Add"}}, true},
		// deque: both ends, producers and consumers, iterators
		{d(1, 1), "d11", []string{"WaitPushBack", "WaitPushFront"}, [][]string{{"PopFront"}}, false},
		{d(1, 1), "d11", []string{"WaitPushFront", "WaitPushBack"}, [][]string{{"PopBack"}}, false},
		{d(2, 2), "d22", []string{"WaitPushBack", "WaitPushFront"}, [][]string{{"PopFront", "PopBack"}}, false},
		{d(1, 0), "d10", []string{"WaitFront", "WaitBack"}, [][]string{{"PushBack"}}, false},
		{d(0, 0), "d00", []string{"WaitFront", "WaitBack"}, [][]string{{"PushBack", "PushFront"}}, false},
		{d(0, 0), "d00", []string{"WaitFront", "WaitBack"}, [][]string{{"PushBack"}, {"PushFront"}}, false},
		{d(1, 1), "d11", []string{"IterToEnd", "WaitPushBack"}, [][]string{{"PopFront"}}, false},
		{d(1, 1), "d11", []string{"IterToEndReverse", "WaitPushFront"}, [][]string{{"PopBack"}}, false},
		{d(2, 2), "d22", []string{"IterToEnd", "IterToEndReverse", "WaitPushBack"}, [][]string{{"PopFront"}}, false},
		{d(0, 0), "d00", []string{"IterToEnd", "WaitFront"}, [][]string{{"PushBack"}}, false},
		{d(0, 0), "d00", []string{"IterToEndReverse", "WaitBack", "WaitFront"}, [][]string{{"PushFront", "PushBack"}}, false},
		{d(1, 1), "d11", []string{"WaitPushBack", "WaitFront"}, nil, false},
		{d(1, 1), "d11", []string{"WaitPushBack", "WaitPushFront", "WaitFront", "WaitBack"}, nil, false},
		{d(1, 0), "d10", []string{"WaitFront", "WaitBack", "WaitPushBack", "WaitPushFront"}, nil, false},
		// a Force push on a full deque replaces an item: producers stay parked
		// (legitimately), consumers must be served
		{d(1, 1), "d11", []string{"WaitPushBack"}, [][]string{{"ForcePushBack", "PopFront"}}, false},
		{d(1, 0), "d10", []string{"WaitFront", "WaitBack"}, [][]string{{"ForcePushBack", "ForcePushFront"}}, false},
		// quota deques: the soft quota moves while a producer is parked
		{mixDequeQuota(2, 4, 2), "dq24", []string{"WaitPushBack"}, [][]string{{"PushBack", "PopFront"}}, false},
		{mixDequeQuota(2, 4, 2), "dq24", []string{"WaitPushFront"}, [][]string{{"PushFront", "PopBack"}}, false},
		{mixDequeQuota(1, 3, 1), "dq13", []string{"WaitPushBack", "WaitFront"}, [][]string{{"PushBack"}}, false},
		{mixDequeQuota(2, 3, 2), "dq23", []string{"WaitPushBack", "WaitPushFront"}, [][]string{{"PushBack", "PopFront", "PopFront"}}, false},
		{d(2, 2), "d22", []string{"WaitPushBack", "WaitPushBack", "WaitFront"}, [][]string{{"PopBack"}}, true},
		{d(2, 0), "d20", []string{"WaitFront", "WaitBack", "IterToEnd"}, [][]string{{"PushBack"}, {"PushFront"}}, true},
	}
}

func build(tier string) ([]runner.Instance, time.Duration) {
	bound, budget := 2, 70*time.Second
	maxK, maxM := 2, 2
	if tier == "thorough" {
		bound, budget, maxM = 3, 14*time.Minute, 3
	}
	var out []runner.Instance
	for _, b := range boxes() {
		out = append(out, runner.Instance{Group: "satisfied/" + b.name, Name: "satisfied/" + b.name, Bound: bound, Scenario: satisfied(b)})
		for k := 1; k <= maxK; k++ {
			for m := 0; m <= maxM; m++ {
				for en := 1; en <= 2; en++ {
					if en > m && en > 1 {
						continue
					}
					for _, rel := range []string{"close", "cancel"} {
						out = append(out, runner.Instance{Group: "burst/" + b.name, Name: fmt.Sprintf("burst/%s/k=%d,m=%d,enablers=%d,release=%s", b.name, k, m, en, rel), Bound: bound, Scenario: burst(b, k, m, en, rel)})
					}
				}
			}
			for _, how := range []string{"close", "cancel"} {
				out = append(out, runner.Instance{Group: "race/" + b.name, Name: fmt.Sprintf("race/%s/k=%d,%s", b.name, k, how), Bound: bound + 1, Scenario: race(b, k, how)})
			}
		}
	}
	for i, mc := range mixCases() {
		if mc.deep && tier != "thorough" {
			continue
		}
		b := bound
		if len(mc.parked)+len(mc.ops) >= 4 && tier != "thorough" {
			b = bound - 1
		}
		out = append(out, runner.Instance{Group: "mixed/" + mc.label, Name: fmt.Sprintf("mixed/%02d/%s/parked=%v,ops=%v", i, mc.label, mc.parked, mc.ops), Bound: b, Scenario: mixed(mc.mk, mc.parked, mc.ops)})
	}
	return out, budget
}

func main() {
	runner.Main(runner.Options{Property: "C07", Level: "exploration", Build: build, RacePoints: true,
		Assume: []string{"model of sync/context/channels in verif/vs (DESIGN §2.2)", "quiescence = no other thread enabled, or only threads spinning in a cycle that changes no visible state and performs no plain write", "small scope: <=2 parked callers of one kind and <=3 enabling operations (burst/race), <=4 heterogeneous parked callers incl. parked iterators and <=2 operation threads (mixed)"}})
}
