// Package model is the sequential reference model of pubsub.Deque (property
// C06): a double-ended queue with a capacity.
//
// Written from the C06 statement and the method comments of pubsub.Deque, not
// from the implementation:
//
//   - pops return the item currently at the requested end; "the second value
//     being false if the queue is empty or closed";
//   - a plain push on a full deque fails without effect (ErrQueueFull);
//   - a Force push on a full deque evicts exactly one item from the OPPOSITE
//     end and then succeeds ("ForcePushFront ... removes one item from the
//     back of the deque");
//   - after Close every push (plain, Force, WaitPush) fails with
//     ErrQueueClosed and every pop reports not-ok (Wait pops report
//     ErrQueueClosed: "returning an error if the context canceled or the queue
//     is closed");
//   - WaitFront/WaitBack on a non-empty open deque are PopFront/PopBack, on an
//     empty open deque they wait; WaitPushFront/WaitPushBack with free
//     capacity are PushFront/PushBack, on a full open deque they wait;
//   - operations that return a context error have no effect.
//
// Capacity is defined for a fixed capacity (>= 1; a capacity <= 0 without
// Unlimited means 1, as documented by DequeOptions.Validate) and for the
// unlimited deque. With a QueueOptions tracker (Options.Queue) only plain
// pushes and pops are defined, by the queue's quota/credit rules of
// verif/checks/c05/model; Force and WaitPush operations are Undefined there
// (DESIGN.md, interpretation note "C06 quota tracker").
//
// API: pure functions Apply (sequential semantics, reports "would block") and
// Step (porcupine-style legality of an observed output) over a State value
// with Clone/Equal/Key, plus the mutable wrapper Deque.
package model

import (
	"fmt"
	"math"
	"strings"

	qm "verif/checks/c05/model"
)

// ErrKind classifies returned errors; shared with the queue model.
type ErrKind = qm.ErrKind

const (
	OK          = qm.OK
	ErrFull     = qm.ErrFull
	ErrNoCredit = qm.ErrNoCredit
	ErrClosed   = qm.ErrClosed
	ErrCtx      = qm.ErrCtx
	ErrOther    = qm.ErrOther
)

// Options mirror pubsub.DequeOptions.
type Options struct {
	Unlimited bool
	Capacity  int
	Queue     *qm.Options // quota tracker; excludes the other two
}

// Normalize validates the options and applies the documented default.
func (o Options) Normalize() (Options, error) {
	if o.Queue != nil {
		if o.Unlimited || o.Capacity > 0 || o.Queue.Unlimited {
			return o, fmt.Errorf("queue options exclude capacity and unlimited")
		}
		n, err := o.Queue.Normalize()
		if err != nil {
			return o, err
		}
		o.Queue = &n
		return o, nil
	}
	if o.Unlimited {
		if o.Capacity > 0 {
			return o, fmt.Errorf("unlimited excludes a capacity")
		}
		o.Capacity = 0
		return o, nil
	}
	if o.Capacity <= 0 {
		o.Capacity = 1
	}
	return o, nil
}

func (o Options) String() string {
	switch {
	case o.Queue != nil:
		return "quota{" + o.Queue.String() + "}"
	case o.Unlimited:
		return "unlimited"
	}
	return fmt.Sprintf("capacity=%d", o.Capacity)
}

// State is the complete abstract state. Treat it as a value.
type State struct {
	Opt    Options // normalized
	Items  []int   // front first
	Closed bool
	Quota  qm.Quota // only with Opt.Queue
}

// New returns the initial state.
func New(o Options) (State, error) {
	n, err := o.Normalize()
	if err != nil {
		return State{}, err
	}
	s := State{Opt: n}
	if n.Queue != nil {
		s.Quota = qm.Quota{Soft: n.Queue.SoftQuota, Credit: n.Queue.BurstCredit}
	}
	return s, nil
}

// MustNew is New for valid options.
func MustNew(o Options) State {
	s, err := New(o)
	if err != nil {
		panic(err)
	}
	return s
}

func (s State) Len() int { return len(s.Items) }

// Clone returns a deep copy.
func (s State) Clone() State {
	c := s
	c.Items = append([]int(nil), s.Items...)
	return c
}

// Equal reports whether two states of the same deque are indistinguishable.
func (s State) Equal(t State) bool {
	if s.Closed != t.Closed || len(s.Items) != len(t.Items) || s.Quota.Soft != t.Quota.Soft ||
		math.Abs(s.Quota.Credit-t.Quota.Credit) > 1e-9 {
		return false
	}
	for i := range s.Items {
		if s.Items[i] != t.Items[i] {
			return false
		}
	}
	return true
}

// Key is a canonical string of the state.
func (s State) Key() string {
	var b strings.Builder
	b.WriteByte('[')
	for i, v := range s.Items {
		if i > 0 {
			b.WriteByte(' ')
		}
		fmt.Fprint(&b, v)
	}
	b.WriteByte(']')
	if s.Closed {
		b.WriteString(" closed")
	}
	if s.Opt.Queue != nil {
		fmt.Fprintf(&b, " soft=%d credit=%.6f", s.Quota.Soft, s.Quota.Credit+0)
	}
	return b.String()
}

func (s State) String() string { return s.Key() }

// Full reports whether the deque is at capacity (fixed capacity only; an
// unlimited deque is never full; undefined - false - for a quota tracker).
func (s State) Full() bool {
	return s.Opt.Queue == nil && !s.Opt.Unlimited && len(s.Items) >= s.Opt.Capacity
}

// admit is what a plain push returns in this state.
func (s State) admit() ErrKind {
	switch {
	case s.Closed:
		return ErrClosed
	case s.Opt.Queue != nil:
		return s.Opt.Queue.AdmitAt(len(s.Items), s.Quota)
	case s.Full():
		return ErrFull
	}
	return OK
}

func (s State) insert(v int, front bool) State {
	n := s.Clone()
	if n.Opt.Queue != nil {
		n.Quota = n.Opt.Queue.AfterAdd(len(n.Items), n.Quota)
	}
	if front {
		n.Items = append([]int{v}, n.Items...)
	} else {
		n.Items = append(n.Items, v)
	}
	return n
}

func (s State) take(front bool) (State, int) {
	n := s.Clone()
	var v int
	if front {
		v = n.Items[0]
		n.Items = n.Items[1:]
	} else {
		v = n.Items[len(n.Items)-1]
		n.Items = n.Items[:len(n.Items)-1]
	}
	if n.Opt.Queue != nil {
		n.Quota = n.Opt.Queue.AfterRemove(len(n.Items), n.Quota)
	}
	return n, v
}

// Kind names an operation of the Deque API.
type Kind int

const (
	PushFront Kind = iota
	PushBack
	PopFront
	PopBack
	ForcePushFront
	ForcePushBack
	WaitFront
	WaitBack
	WaitPushFront
	WaitPushBack
	Len
	Close
)

var kindNames = [...]string{"PushFront", "PushBack", "PopFront", "PopBack", "ForcePushFront", "ForcePushBack",
	"WaitFront", "WaitBack", "WaitPushFront", "WaitPushBack", "Len", "Close"}

func (k Kind) String() string { return kindNames[k] }

// TakesContext reports whether the operation may return a context error.
func (k Kind) TakesContext() bool { return k >= WaitFront && k <= WaitPushBack }

// Front reports whether the operation works on the front end.
func (k Kind) Front() bool {
	return k == PushFront || k == PopFront || k == ForcePushFront || k == WaitFront || k == WaitPushFront
}

func (k Kind) isPush() bool {
	return k == PushFront || k == PushBack || k == ForcePushFront || k == ForcePushBack || k == WaitPushFront || k == WaitPushBack
}

// Input is one invocation.
type Input struct {
	Kind Kind
	Val  int // pushes
}

func (in Input) String() string {
	if in.Kind.isPush() {
		return fmt.Sprintf("%v(%d)", in.Kind, in.Val)
	}
	return in.Kind.String()
}

// Output is one response: Err for pushes; Val+OK for PopFront/PopBack;
// Val+Err for WaitFront/WaitBack; N for Len; nothing for Close.
type Output struct {
	Val int
	OK  bool
	Err ErrKind
	N   int
}

func OutErr(e ErrKind) Output         { return Output{Err: e} }
func OutPop(v int, ok bool) Output    { return norm(PopFront, Output{Val: v, OK: ok}) }
func OutWait(v int, e ErrKind) Output { return norm(WaitFront, Output{Val: v, Err: e}) }
func OutLen(n int) Output             { return Output{N: n} }

func norm(k Kind, o Output) Output {
	switch {
	case k.isPush():
		return Output{Err: o.Err}
	case k == PopFront || k == PopBack:
		if !o.OK {
			return Output{}
		}
		return Output{Val: o.Val, OK: true}
	case k == WaitFront || k == WaitBack:
		if o.Err != OK {
			return Output{Err: o.Err}
		}
		return Output{Val: o.Val}
	case k == Len:
		return Output{N: o.N}
	}
	return Output{}
}

// Format renders an output of the given kind.
func (o Output) Format(k Kind) string {
	switch {
	case k.isPush():
		return o.Err.String()
	case k == PopFront || k == PopBack:
		if !o.OK {
			return "(_, false)"
		}
		return fmt.Sprintf("(%d, true)", o.Val)
	case k == WaitFront || k == WaitBack:
		if o.Err != OK {
			return fmt.Sprintf("(_, %v)", o.Err)
		}
		return fmt.Sprintf("(%d, nil)", o.Val)
	case k == Len:
		return fmt.Sprint(o.N)
	}
	return "-"
}

// Defined reports whether the statement defines the operation for these
// options (Force and WaitPush are undefined with a quota tracker).
func (o Options) Defined(k Kind) bool {
	if o.Queue == nil {
		return true
	}
	switch k {
	case ForcePushFront, ForcePushBack, WaitPushFront, WaitPushBack:
		return false
	}
	return true
}

// Apply is the sequential specification for a caller whose context never
// ends. blocks=true (state unchanged): the call has to wait in s. It panics
// for an operation that is not Defined for the options.
func Apply(s State, in Input) (next State, out Output, blocks bool) {
	if !s.Opt.Defined(in.Kind) {
		panic("model: " + in.Kind.String() + " is not defined with a quota tracker")
	}
	front := in.Kind.Front()
	switch in.Kind {
	case PushFront, PushBack:
		if e := s.admit(); e != OK {
			return s, OutErr(e), false // "a plain push on a full deque fails without effect"
		}
		return s.insert(in.Val, front), OutErr(OK), false

	case ForcePushFront, ForcePushBack:
		if s.Closed {
			return s, OutErr(ErrClosed), false // "after Close every push fails with ErrQueueClosed"
		}
		n := s
		if s.Full() {
			n, _ = s.take(!front) // evict exactly one from the opposite end
		}
		return n.insert(in.Val, front), OutErr(OK), false

	case WaitPushFront, WaitPushBack:
		if s.Closed {
			return s, OutErr(ErrClosed), false
		}
		if s.Full() {
			return s, Output{}, true
		}
		return s.insert(in.Val, front), OutErr(OK), false

	case PopFront, PopBack:
		if s.Closed || len(s.Items) == 0 { // "after Close ... every pop reports not-ok"
			return s, OutPop(0, false), false
		}
		n, v := s.take(front)
		return n, OutPop(v, true), false

	case WaitFront, WaitBack:
		if s.Closed {
			return s, OutWait(0, ErrClosed), false
		}
		if len(s.Items) == 0 {
			return s, Output{}, true
		}
		n, v := s.take(front)
		return n, OutWait(v, OK), false

	case Len:
		return s, OutLen(len(s.Items)), false

	case Close:
		n := s.Clone()
		n.Closed = true
		return n, Output{}, false
	}
	panic("model: unknown operation")
}

// Step is the porcupine step function: is observing out for in legal in s,
// and what is the state afterwards. A context error is legal in every state
// for context-taking operations and has no effect; an operation that would
// block in s cannot take effect in s.
func Step(s State, in Input, out Output) (bool, State) {
	out = norm(in.Kind, out)
	if out.Err == ErrCtx {
		return in.Kind.TakesContext(), s
	}
	next, want, blocks := Apply(s, in)
	if blocks || want != out {
		return false, s
	}
	return true, next
}

// Deque is a mutable wrapper around State.
type Deque struct{ S State }

// NewDeque builds the model deque.
func NewDeque(o Options) (*Deque, error) {
	s, err := New(o)
	if err != nil {
		return nil, err
	}
	return &Deque{S: s}, nil
}

func (d *Deque) do(k Kind, v int) (Output, bool) {
	n, out, blocks := Apply(d.S, Input{Kind: k, Val: v})
	d.S = n
	return out, blocks
}

func (d *Deque) PushFront(v int) ErrKind      { o, _ := d.do(PushFront, v); return o.Err }
func (d *Deque) PushBack(v int) ErrKind       { o, _ := d.do(PushBack, v); return o.Err }
func (d *Deque) ForcePushFront(v int) ErrKind { o, _ := d.do(ForcePushFront, v); return o.Err }
func (d *Deque) ForcePushBack(v int) ErrKind  { o, _ := d.do(ForcePushBack, v); return o.Err }
func (d *Deque) PopFront() (int, bool)        { o, _ := d.do(PopFront, 0); return o.Val, o.OK }
func (d *Deque) PopBack() (int, bool)         { o, _ := d.do(PopBack, 0); return o.Val, o.OK }

// WaitFront / WaitBack: blocks=true where the real call has to wait.
func (d *Deque) WaitFront() (v int, err ErrKind, blocks bool) {
	o, b := d.do(WaitFront, 0)
	return o.Val, o.Err, b
}
func (d *Deque) WaitBack() (v int, err ErrKind, blocks bool) {
	o, b := d.do(WaitBack, 0)
	return o.Val, o.Err, b
}

// WaitPushFront / WaitPushBack: blocks=true where the real call has to wait.
func (d *Deque) WaitPushFront(v int) (err ErrKind, blocks bool) {
	o, b := d.do(WaitPushFront, v)
	return o.Err, b
}
func (d *Deque) WaitPushBack(v int) (err ErrKind, blocks bool) {
	o, b := d.do(WaitPushBack, v)
	return o.Err, b
}

func (d *Deque) Len() int            { return d.S.Len() }
func (d *Deque) Close()              { d.do(Close, 0) }
func (d *Deque) Clone() *Deque       { return &Deque{S: d.S.Clone()} }
func (d *Deque) Equal(o *Deque) bool { return d.S.Equal(o.S) }
func (d *Deque) Key() string         { return d.S.Key() }
func (d *Deque) String() string      { return d.S.Key() }
func (d *Deque) Contents() []int     { return append([]int(nil), d.S.Items...) }
