package model

import (
	"fmt"
	"testing"

	qm "verif/checks/c05/model"
)

// Hand-checkable traces following the C06 statement; they pin the model.
func TestStatementTraces(t *testing.T) {
	d, err := NewDeque(Options{Capacity: 2})
	if err != nil {
		t.Fatal(err)
	}
	must := func(ok bool, what ...any) {
		t.Helper()
		if !ok {
			t.Fatal(append(what, d.Key())...)
		}
	}
	must(d.PushBack(1) == OK && d.PushFront(2) == OK, "pushes")
	must(fmt.Sprint(d.Contents()) == "[2 1]")
	must(d.PushBack(3) == ErrFull && d.PushFront(3) == ErrFull && d.Len() == 2, "plain push on full fails without effect")
	must(d.ForcePushFront(3) == OK && fmt.Sprint(d.Contents()) == "[3 2]", "force front evicts the back")
	must(d.ForcePushBack(4) == OK && fmt.Sprint(d.Contents()) == "[2 4]", "force back evicts the front")
	if _, b := d.WaitPushBack(5); !b {
		t.Fatal("WaitPushBack on a full deque must wait")
	}
	v, e, b := d.WaitFront()
	must(v == 2 && e == OK && !b, "WaitFront on non-empty = PopFront")
	v, e, b = d.WaitBack()
	must(v == 4 && e == OK && !b, "WaitBack on non-empty = PopBack")
	if _, _, b := d.WaitFront(); !b {
		t.Fatal("WaitFront on an empty open deque must wait")
	}
	_, ok := d.PopFront()
	must(!ok, "pop on empty")
	must(d.PushBack(7) == OK)
	d.Close()
	_, ok = d.PopBack()
	must(!ok && d.Len() == 1, "after Close every pop reports not-ok")
	must(d.PushFront(1) == ErrClosed && d.ForcePushBack(1) == ErrClosed && d.Len() == 1, "after Close every push fails")
	_, e, b = d.WaitFront()
	must(e == ErrClosed && !b)
	e, b = d.WaitPushFront(1)
	must(e == ErrClosed && !b)

	// defaults and validation
	s := MustNew(Options{})
	if s.Opt.Capacity != 1 {
		t.Fatal("capacity <= 0 means 1")
	}
	if _, err := New(Options{Unlimited: true, Capacity: 2}); err == nil {
		t.Fatal("unlimited with capacity accepted")
	}
	if _, err := New(Options{Capacity: 2, Queue: &qm.Options{HardLimit: 2}}); err == nil {
		t.Fatal("capacity with queue options accepted")
	}
	// quota tracker: same verdicts as the queue model for the same add/remove sequence
	q := qm.MustNew(qm.Options{HardLimit: 3, SoftQuota: 1, BurstCredit: 2})
	dq := MustNew(Options{Queue: &qm.Options{HardLimit: 3, SoftQuota: 1, BurstCredit: 2}})
	for i, add := range []bool{true, true, true, true, false, false, true, true, false, false, false, true, true} {
		var qo qm.Output
		var do Output
		if add {
			q, qo, _ = qm.Apply(q, qm.Input{Kind: qm.Add, Val: 1})
			dq, do, _ = Apply(dq, Input{Kind: PushFront, Val: 1})
		} else {
			q, qo, _ = qm.Apply(q, qm.Input{Kind: qm.Remove})
			dq, do, _ = Apply(dq, Input{Kind: PopBack})
		}
		if qo.Err != do.Err || qo.OK != do.OK || q.Soft != dq.Quota.Soft || q.Credit != dq.Quota.Credit {
			t.Fatal("quota deque and queue disagree at step", i, qo, do)
		}
	}
	if dq.Opt.Defined(ForcePushBack) || !dq.Opt.Defined(PopBack) {
		t.Fatal("Defined")
	}
}

func TestStepAgreesWithApply(t *testing.T) {
	s := MustNew(Options{Capacity: 2})
	for _, in := range []Input{{PushBack, 1}, {WaitPushFront, 2}, {Len, 0}, {PushBack, 3}, {ForcePushBack, 3}, {WaitBack, 0}, {PopFront, 0}, {Close, 0}, {WaitFront, 0}} {
		n, out, blocks := Apply(s, in)
		if blocks {
			t.Fatal("unexpected block", in)
		}
		ok, n2 := Step(s, in, out)
		if !ok || !n.Equal(n2) || n.Key() != n2.Key() {
			t.Fatal("step/apply disagree", in, out)
		}
		if in.Kind.isPush() || in.Kind == WaitFront || in.Kind == WaitBack {
			if ok, same := Step(s, in, Output{Err: ErrCtx}); ok != in.Kind.TakesContext() || !same.Equal(s) {
				t.Fatal("ctx error must be a legal no-op exactly for context-taking operations", in)
			}
		}
		s = n
	}
}
