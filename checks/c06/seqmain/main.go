// Command c06 decides property C06 (pubsub.Deque is a linearizable bounded
// double-ended queue). Sequential conformance against the reference model
// lives in seqpart; the concurrent (schedule-exploring, porcupine-checked)
// part is added here.
package main

import (
	"flag"
	"os"

	"verif/checks/c06/seqpart"
	"verif/rep"
)

func main() {
	tier := flag.String("tier", "quick", "quick|thorough")
	flag.Parse()
	r := rep.New("C06", *tier, "model_checking")
	seqpart.Run(r, *tier)
	os.Exit(r.Finish())
}
