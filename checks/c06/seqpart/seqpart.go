// Package seqpart is the sequential-conformance half of C06: bounded
// exhaustive exploration (verif/seq, BFS over operation histories) of the real
// pubsub.Deque against the reference model in verif/checks/c06/model.
//
// Oracle (letter of the C06 statement, sequential case): pops return the item
// at the requested end; Len never exceeds the capacity; a plain push on a full
// deque fails without effect; a Force push on a full deque evicts exactly one
// item from the opposite end and then succeeds; after Close every push fails
// with ErrQueueClosed and every pop reports not-ok; an operation that returns
// a context error has no effect. WaitFront/WaitBack are used only where the
// model says they need not wait (non-empty, or closed) or with an already
// cancelled context; likewise WaitPushFront/WaitPushBack (free capacity, or
// closed, or cancelled context). A deque built from QueueOptions is checked
// with plain pushes and pops only, against the queue's quota/credit rules.
//
// Hang safety: every context-taking call runs under verif/checks/c05/guard. A
// call that the model says completes but that does not return is cancelled by
// the guard and reported as deque/blocked-although-satisfied/<op>; the state
// is not expanded. Nothing asserted depends on time.
//
// Canonical key = model state (contents front..back, closed, quota/credit for
// the quota tracker; a closed deque is reduced to its length, because after
// Close only Len is observable) + the real tracker state read by reflection.
// The real deque's state is its linked list (compared after every history by
// draining the object with PopFront), the closed flag, the tracker and
// condition variables without waiters (sequential harness): later behaviour
// depends on nothing else, and the hidden tracker is part of the key so that
// merging cannot hide a divergence that is not yet observable.
package seqpart

import (
	"context"
	"encoding/json"
	"errors"
	"fmt"
	"os"
	"sort"
	"sync/atomic"
	"time"

	"github.com/tychoish/fun/pubsub"

	"verif/checks/c05/guard"
	qm "verif/checks/c05/model"
	"verif/checks/c06/model"
	"verif/rep"
	"verif/seq"
)

// ---------------------------------------------------------------- alphabet

type ctxMode int

const (
	noCtx        ctxMode = iota
	ctxAuto              // live context when the model says the call completes, cancelled one when it must wait
	ctxCancelled         // always an already-cancelled context
)

type opDef struct {
	name string
	in   model.Input
	ctx  ctxMode
}

func (o opDef) tag() string { return o.in.Kind.String() }

var fullAlphabet = []opDef{
	{"PushFront(1)", model.Input{Kind: model.PushFront, Val: 1}, noCtx},
	{"PushFront(2)", model.Input{Kind: model.PushFront, Val: 2}, noCtx},
	{"PushBack(1)", model.Input{Kind: model.PushBack, Val: 1}, noCtx},
	{"PushBack(2)", model.Input{Kind: model.PushBack, Val: 2}, noCtx},
	{"PopFront", model.Input{Kind: model.PopFront}, noCtx},
	{"PopBack", model.Input{Kind: model.PopBack}, noCtx},
	{"Len", model.Input{Kind: model.Len}, noCtx},
	{"Close", model.Input{Kind: model.Close}, noCtx},
	{"ForcePushFront(1)", model.Input{Kind: model.ForcePushFront, Val: 1}, noCtx},
	{"ForcePushFront(2)", model.Input{Kind: model.ForcePushFront, Val: 2}, noCtx},
	{"ForcePushBack(1)", model.Input{Kind: model.ForcePushBack, Val: 1}, noCtx},
	{"ForcePushBack(2)", model.Input{Kind: model.ForcePushBack, Val: 2}, noCtx},
	{"WaitFront", model.Input{Kind: model.WaitFront}, ctxAuto},
	{"WaitBack", model.Input{Kind: model.WaitBack}, ctxAuto},
	{"WaitFront[cancelled-ctx]", model.Input{Kind: model.WaitFront}, ctxCancelled},
	{"WaitBack[cancelled-ctx]", model.Input{Kind: model.WaitBack}, ctxCancelled},
	{"WaitPushFront(1)", model.Input{Kind: model.WaitPushFront, Val: 1}, ctxAuto},
	{"WaitPushBack(2)", model.Input{Kind: model.WaitPushBack, Val: 2}, ctxAuto},
	{"WaitPushFront(2)[cancelled-ctx]", model.Input{Kind: model.WaitPushFront, Val: 2}, ctxCancelled},
	{"WaitPushBack(1)[cancelled-ctx]", model.Input{Kind: model.WaitPushBack, Val: 1}, ctxCancelled},
}

// quotaAlphabet: plain pushes and pops, Len, Close ("capacity" of a soft quota
// is not defined by the statement, so Force/Wait/WaitPush are left out).
var quotaAlphabet = fullAlphabet[:8]

type optionSet struct {
	opt   model.Options
	ops   []opDef
	depth [2]int // quick, thorough; 0 = until the state space is closed
	tier  string // "thorough": only in the thorough tier
}

// boundedDepth stops the exploration of a bounded deque that has not closed
// its state space by then.
const boundedDepth = 30

func quota(h, s int, c float64) *qm.Options {
	return &qm.Options{HardLimit: h, SoftQuota: s, BurstCredit: c}
}

var optionSets = []optionSet{
	{model.Options{Capacity: 1}, fullAlphabet, [2]int{0, 0}, ""},
	{model.Options{Capacity: 2}, fullAlphabet, [2]int{0, 0}, ""},
	{model.Options{Capacity: 3}, fullAlphabet, [2]int{0, 0}, ""},
	{model.Options{Unlimited: true}, fullAlphabet, [2]int{7, 9}, ""},
	{model.Options{Queue: quota(2, 1, 1)}, quotaAlphabet, [2]int{0, 0}, ""},
	{model.Options{Queue: quota(3, 2, 0.5)}, quotaAlphabet, [2]int{0, 0}, ""},
	{model.Options{Queue: quota(4, 2, 1)}, quotaAlphabet, [2]int{0, 0}, ""},
	{model.Options{Capacity: 4}, fullAlphabet, [2]int{0, 0}, "thorough"},
	{model.Options{Capacity: 5}, fullAlphabet, [2]int{0, 0}, "thorough"},
	{model.Options{Queue: quota(1, 1, 0)}, quotaAlphabet, [2]int{0, 0}, "thorough"},
	{model.Options{Queue: quota(3, 1, 2)}, quotaAlphabet, [2]int{0, 0}, "thorough"},
	{model.Options{Queue: quota(5, 2, 1.5)}, quotaAlphabet, [2]int{0, 0}, "thorough"},
}

// ---------------------------------------------------------------- real side

func newReal(o model.Options) (*pubsub.Deque[int], error) {
	do := pubsub.DequeOptions{Unlimited: o.Unlimited, Capacity: o.Capacity}
	if o.Queue != nil {
		do.QueueOptions = &pubsub.QueueOptions{HardLimit: o.Queue.HardLimit, SoftQuota: o.Queue.SoftQuota, BurstCredit: o.Queue.BurstCredit}
	}
	return pubsub.NewDeque[int](do)
}

func classify(err error) model.ErrKind {
	switch {
	case err == nil:
		return model.OK
	case errors.Is(err, context.Canceled), errors.Is(err, context.DeadlineExceeded):
		return model.ErrCtx
	case errors.Is(err, pubsub.ErrQueueFull):
		return model.ErrFull
	case errors.Is(err, pubsub.ErrQueueNoCredit):
		return model.ErrNoCredit
	case errors.Is(err, pubsub.ErrQueueClosed):
		return model.ErrClosed
	}
	return model.ErrOther
}

var cancelledCtx = func() context.Context {
	c, cancel := context.WithCancel(context.Background())
	cancel()
	return c
}()

func call(dq *pubsub.Deque[int], ctx context.Context, in model.Input) model.Output {
	switch in.Kind {
	case model.PushFront:
		return model.OutErr(classify(dq.PushFront(in.Val)))
	case model.PushBack:
		return model.OutErr(classify(dq.PushBack(in.Val)))
	case model.ForcePushFront:
		return model.OutErr(classify(dq.ForcePushFront(in.Val)))
	case model.ForcePushBack:
		return model.OutErr(classify(dq.ForcePushBack(in.Val)))
	case model.WaitPushFront:
		return model.OutErr(classify(dq.WaitPushFront(ctx, in.Val)))
	case model.WaitPushBack:
		return model.OutErr(classify(dq.WaitPushBack(ctx, in.Val)))
	case model.PopFront:
		return model.OutPop(dq.PopFront())
	case model.PopBack:
		return model.OutPop(dq.PopBack())
	case model.WaitFront:
		v, err := dq.WaitFront(ctx)
		return model.OutWait(v, classify(err))
	case model.WaitBack:
		v, err := dq.WaitBack(ctx)
		return model.OutWait(v, classify(err))
	case model.Len:
		return model.OutLen(dq.Len())
	case model.Close:
		_ = dq.Close()
		return model.Output{}
	}
	panic("unknown op")
}

// ---------------------------------------------------------------- one history

type detail struct {
	Step     int    `json:"failing_step"`
	Op       string `json:"op"`
	Ctx      string `json:"ctx,omitempty"`
	Expected string `json:"expected"`
	Got      string `json:"got"`
	Before   string `json:"model_state_before"`
	Note     string `json:"note,omitempty"`
}

func (d detail) json() string { b, _ := json.Marshal(d); return string(b) }

type spec struct {
	set      optionSet
	evals    atomic.Int64
	hiddenOK atomic.Bool
	mon      *guard.Monitor
}

func (sp *spec) run(hist []int) seq.Result {
	id := sp.mon.Begin(sp.set.opt.String(), hist)
	defer sp.mon.End(id)

	dq, err := newReal(sp.set.opt)
	m, merr := model.New(sp.set.opt)
	if err != nil || merr != nil {
		return seq.Result{Fail: "constructor-mismatch", Info: detail{Op: "NewDeque", Expected: "valid options accepted", Got: fmt.Sprint(err, merr)}.json()}
	}
	var last opDef
	var lastBefore model.State
	lastCtxErr := false
	for i, op := range hist {
		od := sp.set.ops[op]
		before := m
		fail, d, ctxErr := sp.step(dq, &m, od)
		if fail != "" {
			d.Step = i
			return seq.Result{Fail: fail, Info: d.json()}
		}
		last, lastBefore, lastCtxErr = od, before, ctxErr
	}

	var key string
	if m.Closed {
		key = fmt.Sprintf("closed len=%d", m.Len()) // after Close only Len is observable
	} else {
		key = m.Key()
	}
	if h := guard.TrackerState(dq); h != "" {
		sp.hiddenOK.Store(true)
		key += " | real " + h
	}
	if m.Closed {
		return seq.Result{Key: key} // pops report not-ok: nothing to drain, Len was compared
	}

	// Contents: drain the real object front to back (it is discarded afterwards).
	var got []int
	for i := 0; i <= len(m.Items)+2; i++ {
		v, ok := dq.PopFront()
		if !ok {
			break
		}
		got = append(got, v)
	}
	if want := append([]int{}, m.Items...); fmt.Sprint(got) != fmt.Sprint(want) {
		d := detail{Step: len(hist) - 1, Op: "drain by PopFront after the history (front..back)", Expected: fmt.Sprint(want), Got: fmt.Sprint(got), Before: lastBefore.Key()}
		tag := "init"
		if len(hist) > 0 {
			tag = last.tag()
		}
		switch k := last.in.Kind; {
		case lastCtxErr:
			return seq.Result{Fail: "effect-after-ctx-error/" + tag, Info: d.json()}
		case len(hist) > 0 && (k == model.ForcePushFront || k == model.ForcePushBack) && lastBefore.Full():
			// what would evicting from the same end as the push look like?
			wrong := lastBefore.Clone()
			if k.Front() {
				wrong.Items = append([]int{last.in.Val}, wrong.Items[1:]...)
			} else {
				wrong.Items = append(wrong.Items[:len(wrong.Items)-1], last.in.Val)
			}
			if fmt.Sprint(got) == fmt.Sprint(wrong.Items) {
				d.Note = "the evicted item was taken from the end the new item was pushed to"
				return seq.Result{Fail: "evict-wrong-end/" + tag, Info: d.json()}
			}
			if len(got) != len(want) {
				return seq.Result{Fail: "evict-count/" + tag, Info: d.json()}
			}
		}
		return seq.Result{Fail: "contents-mismatch/" + tag, Info: d.json()}
	}
	return seq.Result{Key: key}
}

func (sp *spec) step(dq *pubsub.Deque[int], m *model.State, od opDef) (fail string, d detail, ctxErr bool) {
	sp.evals.Add(1)
	tag := od.tag()
	_, want, blocks := model.Apply(*m, od.in)
	d = detail{Op: od.name, Before: m.Key(), Expected: want.Format(od.in.Kind)}
	if blocks {
		d.Expected = "must wait (so: context error with the cancelled ctx, no effect)"
	}
	cancelled := od.ctx == ctxCancelled || (od.ctx == ctxAuto && blocks)

	var got model.Output
	if od.ctx == noCtx {
		var p any
		func() {
			defer func() { p = recover() }()
			got = call(dq, context.Background(), od.in)
		}()
		if p != nil {
			d.Got = fmt.Sprint("panic: ", p)
			return "panic/" + tag, d, false
		}
	} else {
		d.Ctx = "live"
		if cancelled {
			d.Ctx = "already cancelled"
		}
		out := guard.Call("deque/blocked-although-satisfied/"+tag, func(ctx context.Context) {
			if cancelled {
				ctx = cancelledCtx
			}
			got = call(dq, ctx, od.in)
		})
		switch {
		case out.Panic != nil:
			d.Got = fmt.Sprint("panic: ", out.Panic)
			return "panic/" + tag, d, false
		case out.Verdict == guard.Stuck:
			d.Got = fmt.Sprintf("did not return within %v after its context was cancelled", guard.StuckTimeout)
			return "stuck-after-cancel/" + tag, d, false
		case out.Verdict == guard.Blocked && cancelled:
			d.Got = fmt.Sprintf("did not return for %v although its context was already cancelled", out.Waited.Round(time.Millisecond))
			return "blocked-with-cancelled-ctx/" + tag, d, false
		case out.Verdict == guard.Blocked:
			d.Got = fmt.Sprintf("blocked (no return for %v, parked in sync.Cond.Wait=%v); returned %s only after the harness cancelled the context",
				out.Waited.Round(time.Millisecond), out.Parked, got.Format(od.in.Kind))
			return "blocked-although-satisfied/" + tag, d, false
		}
	}
	d.Got = got.Format(od.in.Kind)
	ctxErr = got.Err == model.ErrCtx

	if ctxErr && !cancelled {
		d.Note = "context error although the context was never cancelled"
		return "result-mismatch/" + tag, d, ctxErr
	}
	if cancelled && !blocks {
		d.Expected += " or a context error without effect"
	}
	legal, after := model.Step(*m, od.in, got)
	if !legal {
		return "result-mismatch/" + tag, d, ctxErr
	}
	wasFull := m.Full()
	*m = after

	n := dq.Len()
	if n != m.Len() {
		d.Note = fmt.Sprintf("Len()=%d after the operation, model holds %d items", n, m.Len())
		switch {
		case ctxErr:
			return "effect-after-ctx-error/" + tag, d, ctxErr
		case wasFull && (od.in.Kind == model.ForcePushFront || od.in.Kind == model.ForcePushBack):
			return "evict-count/" + tag, d, ctxErr
		}
		return "len-mismatch", d, ctxErr
	}
	if c := sp.set.opt.Capacity; c > 0 && n > c {
		d.Note = fmt.Sprintf("Len()=%d exceeds the capacity %d", n, c)
		return "len-exceeds-capacity", d, ctxErr
	}
	if q := sp.set.opt.Queue; q != nil && n > q.HardLimit {
		d.Note = fmt.Sprintf("Len()=%d exceeds the hard limit %d", n, q.HardLimit)
		return "len-exceeds-capacity", d, ctxErr
	}
	return "", d, ctxErr
}

// ---------------------------------------------------------------- driver

// Run explores every option set.
func Run(r *rep.Report, tier string) {
	ti, budget := 0, 45*time.Second
	if tier == "thorough" {
		ti, budget = 1, 8*time.Minute
	}
	deadline := time.Now().Add(budget)

	var cur atomic.Pointer[spec]
	mon := guard.NewMonitor(func(label string, hist []int) {
		h := make([]string, len(hist))
		if sp := cur.Load(); sp != nil {
			for i, op := range hist {
				h[i] = sp.set.ops[op].name
			}
		}
		r.Violation("deque/hang", map[string]any{"options": label, "history": h,
			"note": fmt.Sprintf("replaying this history did not finish within %v (a lock-only operation never returned)", guard.HangLimit)})
		os.Exit(r.Finish())
	})
	defer mon.Stop()

	type found struct {
		f   seq.Failure
		opt model.Options
	}
	best := map[string]found{}
	exhaustive := true
	hiddenInKey := true
	shortfalls := []string{}
	var perOpt []string

	for _, set := range optionSets {
		if set.tier != "" && set.tier != tier {
			continue
		}
		sp := &spec{set: set, mon: mon}
		cur.Store(sp)
		maxDepth := set.depth[ti]
		if maxDepth == 0 {
			maxDepth = boundedDepth
		}
		st := seq.Explore(seq.Spec{
			Name:     "deque{" + set.opt.String() + "}",
			NumOps:   len(set.ops),
			OpName:   func(op int) string { return set.ops[op].name },
			Run:      sp.run,
			MaxDepth: maxDepth,
			Deadline: deadline,
		})
		r.Add("states", st.States)
		r.Add("transitions", st.Transitions)
		r.Add("traces_validated_against_impl", st.Transitions)
		r.Add("distinct_nontrivial", st.States)
		r.Add("evaluations", int(sp.evals.Load()))
		if !st.Exhaustive {
			exhaustive = false
			shortfalls = append(shortfalls, fmt.Sprintf("%s: deadline hit, depth %d completed", set.opt, st.Depth))
		}
		if !sp.hiddenOK.Load() {
			hiddenInKey = false
		}
		closed := st.Exhaustive && st.Depth < maxDepth
		perOpt = append(perOpt, fmt.Sprintf("%s: ops=%d states=%d transitions=%d depth=%d/%d exhaustive=%v state_space_closed=%v",
			set.opt, len(set.ops), st.States, st.Transitions, st.Depth, maxDepth, st.Exhaustive, closed))
		for i, s := range st.Sample {
			if i < 1 || i == len(st.Sample)-1 {
				r.Sample(set.opt.String() + ": " + s)
			}
		}
		for _, f := range st.Failures {
			if c, ok := best[f.Fail]; !ok || len(f.History) < len(c.f.History) {
				best[f.Fail] = found{f, set.opt}
			}
		}
	}

	sigs := make([]string, 0, len(best))
	for s := range best {
		sigs = append(sigs, s)
	}
	sort.Strings(sigs)
	for _, s := range sigs {
		b := best[s]
		var d any
		var dd detail
		if json.Unmarshal([]byte(b.f.Info), &dd) == nil {
			d = dd
		} else {
			d = b.f.Info
		}
		r.Violation("deque/"+s, map[string]any{
			"object":  "pubsub.Deque[int]",
			"options": b.opt.String(),
			"history": b.f.History,
			"detail":  d,
		})
	}

	slow, fast := guard.Counts()
	r.Set("exhaustive", exhaustive)
	r.Set("seq_exhaustive", exhaustive)
	r.Set("seq_deadline_shortfalls", shortfalls)
	r.Set("seq_option_sets", perOpt)
	r.Set("hidden_state_in_key", hiddenInKey)
	r.Set("blocked_verdicts_2s_rule", int(slow))
	r.Set("blocked_verdicts_parked_rule", int(fast))
	r.Set("rule", "sequential conformance: BFS over all operation histories (fixed capacity and quota deques: until no new state appears; unlimited deque: to the depth in seq_option_sets) from {PushFront/PushBack 1|2, PopFront/PopBack, ForcePushFront/ForcePushBack 1|2, WaitFront/WaitBack (live when the model says non-blocking, cancelled ctx otherwise, and always-cancelled variants), WaitPushFront/WaitPushBack (same), Len, Close}; quota-tracker deques with plain pushes/pops, Len, Close only; states merged by (model state, real tracker state); each history replayed on a fresh real deque and compared with the reference model operation by operation, then drained front to back and compared item by item")
}
