// Package seq is the explicit-state breadth-first explorer for sequential
// properties. A state is identified by the shortest operation history that
// reaches it; because live Go objects cannot be cloned, the successor of a
// state is computed by replaying that history on a fresh real object (and a
// fresh reference model) and applying one more operation. The implementation
// is the transition function; the reference model is compared after every
// transition. States are merged by a canonical key supplied by the check.
package seq

import (
	"fmt"
	"runtime"
	"sync"
	"time"
)

// Result of replaying one history.
type Result struct {
	Key  string // canonical state after the last operation ("" = do not expand, e.g. terminal)
	Fail string // non-empty: oracle failure description (short, stable: used as signature tail)
	Info string // optional longer explanation for the replay file
}

// Spec describes one state space.
type Spec struct {
	Name     string
	NumOps   int
	OpName   func(op int) string
	Run      func(hist []int) Result // must be deterministic and safe to call concurrently
	MaxDepth int
	Deadline time.Time // zero = none; when hit, Stats.Exhaustive=false
	Workers  int
}

// Failure is one violating history.
type Failure struct {
	Spec    string
	History []string
	Fail    string
	Info    string
}

// Stats of an exploration.
type Stats struct {
	States      int
	Transitions int
	Depth       int  // deepest level completely expanded
	Exhaustive  bool // whole space up to MaxDepth covered (no deadline hit)
	Failures    []Failure
	Sample      []string
}

// Explore runs the BFS. All failures of minimal depth for each distinct Fail
// string are reported (one per Fail string).
func Explore(sp Spec) Stats {
	if sp.Workers <= 0 {
		sp.Workers = runtime.NumCPU()
	}
	st := Stats{Exhaustive: true}
	seen := map[string]bool{}
	failSeen := map[string]bool{}
	root := sp.Run(nil)
	if root.Fail != "" {
		st.Failures = append(st.Failures, Failure{Spec: sp.Name, Fail: root.Fail, Info: root.Info})
		st.States = 1
		return st
	}
	seen[root.Key] = true
	frontier := [][]int{{}}
	type out struct {
		hist []int
		res  Result
	}
	for depth := 0; depth < sp.MaxDepth && len(frontier) > 0; depth++ {
		if !sp.Deadline.IsZero() && time.Now().After(sp.Deadline) {
			st.Exhaustive = false
			break
		}
		results := make([][]out, len(frontier))
		var wg sync.WaitGroup
		idx := make(chan int, len(frontier))
		for i := range frontier {
			idx <- i
		}
		close(idx)
		var timedOut bool
		var tmu sync.Mutex
		for w := 0; w < sp.Workers; w++ {
			wg.Add(1)
			go func() {
				defer wg.Done()
				for i := range idx {
					if !sp.Deadline.IsZero() && time.Now().After(sp.Deadline) {
						tmu.Lock()
						timedOut = true
						tmu.Unlock()
						return
					}
					h := frontier[i]
					outs := make([]out, 0, sp.NumOps)
					for op := 0; op < sp.NumOps; op++ {
						nh := make([]int, len(h)+1)
						copy(nh, h)
						nh[len(h)] = op
						outs = append(outs, out{nh, sp.Run(nh)})
					}
					results[i] = outs
				}
			}()
		}
		wg.Wait()
		if timedOut {
			st.Exhaustive = false
		}
		var next [][]int
		for _, outs := range results {
			for _, o := range outs {
				st.Transitions++
				if o.res.Fail != "" {
					if !failSeen[o.res.Fail] {
						failSeen[o.res.Fail] = true
						st.Failures = append(st.Failures, Failure{Spec: sp.Name, History: names(sp, o.hist), Fail: o.res.Fail, Info: o.res.Info})
					}
					continue
				}
				if o.res.Key == "" || seen[o.res.Key] {
					continue
				}
				seen[o.res.Key] = true
				next = append(next, o.hist)
				if len(st.Sample) < 3 || (len(o.hist) == sp.MaxDepth && len(st.Sample) < 6) {
					st.Sample = append(st.Sample, fmt.Sprint(names(sp, o.hist), " => ", o.res.Key))
				}
			}
		}
		if timedOut {
			break
		}
		st.Depth = depth + 1
		frontier = next
	}
	st.States = len(seen)
	return st
}

func names(sp Spec, h []int) []string {
	out := make([]string, len(h))
	for i, op := range h {
		out[i] = sp.OpName(op)
	}
	return out
}
