#!/usr/bin/env python3
# prints the markdown table of seeded changes from seeded/*/meta.json (for DESIGN.md §9.5)
import json,glob,os,re
rows=[]
for d in sorted(glob.glob('/verif/seeded/*/')):
    n=os.path.basename(d.rstrip('/'))
    try: m=json.load(open(d+'meta.json'))
    except Exception: continue
    sm=(m.get('summary') or '').replace('\n',' ').replace('|','/')
    sm=re.sub(r'\s+',' ',sm)[:170]
    runs=', '.join(m.get('checks_run',[]))
    sigs=[]
    for f in sorted(glob.glob(d+'detected.*.txt')):
        for l in open(f):
            if 'signature:' in l:
                s=l.split('signature:')[1].strip()
                if s not in sigs: sigs.append(s)
    note=m.get('note','')
    rows.append(f"| {n} | {sm}… | {runs} | {'; '.join(sigs[:2])}{' — '+note if note else ''} |")
print("| seed | change | checks run | first signatures |")
print("|---|---|---|---|")
print("\n".join(rows))
