#!/bin/bash
# Keeps the go build cache from filling the disk: instrumented builds of changed sources add a few
# hundred MB each. Empties the cache when it exceeds ${1:-40} GB (the next builds are just slower).
cap=${1:-40}
c=$(GOFLAGS= go env GOCACHE 2>/dev/null); [ -d "$c" ] || exit 0
sz=$(du -sm "$c" 2>/dev/null | cut -f1)
if [ "${sz:-0}" -gt $((cap*1024)) ]; then
  echo "go build cache is ${sz} MB (> ${cap} GB): emptying it" >&2
  rm -rf "$c"/* 2>/dev/null
fi
exit 0
