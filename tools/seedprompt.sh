#!/bin/bash
# usage: tools/seedprompt.sh <ID> <letters e.g. "a b">   — prints the prompt given to an independent
# sub-agent (property text + scratch worktree only; nothing from /verif).
id=$1; letters=${2:-a b}; dir=${3:-/tmp/seed-$1}; avoid=${4:-}
first=${letters%% *}; second=${letters##* }
title=$(jq -r "select(.id==\"$id\")|.title" /verif/properties.jsonl)
stmt=$(jq -r "select(.id==\"$id\")|.statement" /verif/properties.jsonl)
cat <<P
You are helping to evaluate a verification effort for the Go library tychoish/fun (module github.com/tychoish/fun, a zero-dependency generics utility library: iterators and worker pipelines, pubsub queue/deque/broker, linked lists, HDR histogram, service orchestration).

You have your own scratch git worktree of the library at $dir (detached HEAD). Work ONLY inside $dir. Do NOT read, list or touch /verif or /repo or any other /tmp/seed* directory. There is no network. Every shell command that runs go needs: export GOFLAGS=-mod=mod GOPROXY=off GOSUMDB=off GOTOOLCHAIN=local

Here is a semantic property of the library that is supposed to hold:

  $id — $title
  $stmt

Your task: produce TWO different, independent, realistic changes to the library's non-test source code (call them "$first" and "$second"), each of which
  1. still compiles (go build ./...),
  2. still passes the library's ENTIRE existing test suite, unedited:  go test -vet=off -count=1 -timeout 25m ./...   (known flaky on the unchanged tree in this sandbox, ignore only these: srv TestCmd/.../ForceSigKILL; timing tests such as Interval/TTL/Jitter when the machine is busy — re-run a failing package alone up to 3 times before concluding the change broke it),
  3. BREAKS the property above — really, as stated, for some input / schedule / sequence of calls,
  4. looks like something a maintainer could plausibly commit (a refactor, an "optimisation", a reordering, a lock narrowed, a fast path, a condition simplified, a cleanup), not an obvious sabotage,
  5. needs something SPECIFIC to manifest: a particular interleaving of goroutines, a fault or cancellation at a particular point, a multi-step sequence of operations, an unusual input or configuration, or two cooperating sites that each look fine alone. NOT something that ordinary use would expose at once. The two changes should be in different functions/mechanisms and break different clauses of the property if possible.

For each change also write a demonstration: a Go test file (package of the directory it goes in, functions named TestSeed${id}${first}... / TestSeed${id}${second}...) that PASSES on the unchanged tree and FAILS with the change. For schedule-dependent changes the demonstration may loop many rounds or use runtime.Gosched / small sleeps to provoke the interleaving, but it must fail reliably with the change (at least 3 out of 3 runs), pass reliably without it (3 out of 3), and finish in under 60 seconds; use timeouts so that it cannot hang.

$avoid

Verify all of this yourself by actually running the commands (unchanged tree: demo passes; with the change: build ok, full suite passes, demo fails). Use git apply / git checkout -- . to switch between the two trees. The machine is shared with other jobs: prefix go commands with GOMAXPROCS=4.

Deliver, for each change X in {$first, $second}, the directory $dir/_seed/X/ containing:
  patch.diff    — output of 'git diff' for the change to non-test library files only (must apply with 'git apply' at the worktree root on the unchanged tree)
  demo_test.go  — the demonstration test file
  meta.json     — {"property":"$id","summary":"what was changed and which clause it breaks","needs_to_manifest":"what specific interleaving/sequence/input is needed","demo_dir":"directory (relative to the repo root) the demo test file must be copied into, e.g. pubsub","how_verified":"the exact commands you ran and what they printed"}
Leave the worktree's tracked files unchanged at the end (git checkout -- . ; the _seed directory is untracked and stays). Your final message should be a short summary of the two changes and the verification results.
P
