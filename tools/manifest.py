#!/usr/bin/env python3
"""Generates /verif/MANIFEST.json from the table below (single source of truth)."""
import json

PROPS = [json.loads(l)["id"] for l in open("/verif/properties.jsonl")]

SCHED_NOTE = ("Trusted base: the model of Go's sync/atomic/context/time/channel primitives in verif/vs (DESIGN §2.2), "
              "sequential consistency for instrumented operations, the source-to-source instrumenter vinstr; small scope "
              "(2-3 threads per role, <=3 items) and a deviation bound (every departure from the fair default schedule "
              "costs one); results are a coverage statement for the bound completed, not a proof.")
SEQ_NOTE = ("Trusted base: the reference model written in the check (slices/maps), the canonical state key used to merge "
            "histories (argument in the check's package comment), bounded depth / input domain as reported in evidence.")

CHECKS = {
 "C05": dict(cat="model_checking", tech="explicit-state BFS over operation histories of the real Queue vs a reference model (sequential conformance)", ref="§4 C05",
             text="Every operation history up to the reported depth (bounded option sets: until the state space closes) of the real pubsub.Queue and its Distributor agrees step by step with an independent FIFO + limit/credit model.", note=SEQ_NOTE),
 "C06": dict(cat="model_checking", tech="explicit-state BFS over operation histories of the real Deque vs a reference model (sequential conformance)", ref="§4 C06",
             text="Every operation history up to the reported depth of the real pubsub.Deque (capacity 1, 2, unlimited, quota tracker) agrees step by step with an independent deque model (force-push eviction, close semantics).", note=SEQ_NOTE),
 "C07": dict(cat="exploration", tech="stateless model checking: controlled scheduler + deviation-bounded DFS over the instrumented real code", ref="§4 C07",
             text="All schedules (up to the deviation bound) of closed programs with 1-2 parked consumers/producers, bursts of enabling operations, Close and cancel; quiescence oracle: no caller parked while its condition holds, everyone released by Close/cancel.", note=SCHED_NOTE),
 "C12": dict(cat="model_checking", tech="exhaustive enumeration of error-expression trees vs an independent constituent model", ref="§4 C12",
             text="All error trees up to the reported depth over the leaf/constructor alphabet: nil-iff, single identity, errors.Is/As for every constituent, Unwind multiset and order.", note=SEQ_NOTE),
 "C14": dict(cat="exploration", tech="stateless model checking: controlled scheduler + deviation-bounded DFS over the instrumented real code", ref="§4 C14",
             text="All schedules (up to the deviation bound) of waiters x workers x cancellation x reuse x Launch/DoTimes programs over the real fun.WaitGroup: Wait never returns early, always returns at zero / on cancel, counter conservation, negative Add panics.", note=SCHED_NOTE),
 "C16": dict(cat="model_checking", tech="explicit-state BFS over operation histories of the real List/Stack vs a sequence model", ref="§4 C16",
             text="Every operation history up to depth 5 (quick) / 7 (thorough) over two lists / stacks with element handles: all traversals, Len, In/Ok, rejected operations, against a slice model.", note=SEQ_NOTE),
 "C17": dict(cat="model_checking", tech="exhaustive input enumeration of sort/IsSorted/Heap vs independent oracle", ref="§4 C17",
             text="Every sequence over {-1,0,1,2} up to length 6/8 x three orderings: permutation, sortedness, stability, usability after sort, IsSorted iff, Heap order.", note=SEQ_NOTE),
 "C19": dict(cat="model_checking", tech="exhaustive enumeration of histogram shapes x value multisets vs a sorted-slice oracle", ref="§4 C19",
             text="All (shape, multiset) cases of the reported grid: record in range succeeds, TotalCount, quantile precision bound, Min/Max, Export/Import/Merge equality, no invariant panic.", note=SEQ_NOTE),
}

NA_REASON = "check under construction (not yet registered)"

def main():
    checks = []
    for pid in PROPS:
        if pid not in CHECKS:
            continue
        c = CHECKS[pid]
        checks.append({
            "property_id": pid,
            "quick_cmd": f"./check {pid} quick",
            "thorough_cmd": f"./check {pid} thorough",
            "evidence_file": f"/verif/evidence/{pid}.json",
            "replay_cmd_template": f"./check {pid} quick -replay {{path}}",
            "engine": "vs" if c["cat"] == "exploration" else "seq",
            "level_claimed": {"category": c["cat"], "text": c["text"], "design_ref": c["ref"]},
            "level_note": c["note"],
            "technique": c["tech"],
        })
    m = {
        "version": 1,
        "setup_cmd": "cd /verif && ./setup.sh",
        "hooks": {
            "guard": "verif",
            "enable": "no hook code is committed in /repo: `./check` runs cmd/vinstr on /repo's working tree and builds with `go build -tags verif -overlay <generated>`",
            "baseline_off_cmd": "cd /repo && go test -vet=off -count=1 -timeout 25m ./...",
            "source_commits": [],
            "add_only": True,
        },
        "engines": [
            {"name": "vs", "path": "/verif/vs", "serves_properties": [p for p in PROPS if p in CHECKS and CHECKS[p]["cat"] == "exploration"],
             "kind_free_text": "hand-written stateless model checker for Go: source instrumenter (cmd/vinstr) + runtime model of sync/atomic/context/time/chan + controlled scheduler + iterative deviation-bounded DFS + vector-clock race oracle"},
            {"name": "seq", "path": "/verif/seq", "serves_properties": [p for p in PROPS if p in CHECKS and CHECKS[p]["cat"] != "exploration"],
             "kind_free_text": "explicit-state BFS over operation histories of the real objects against reference models (replay on fresh objects, canonical state keys)"},
        ],
        "checks": checks,
        "not_applicable": [{"property_id": p, "reason": NA_REASON} for p in PROPS if p not in CHECKS],
        "notes": "Defects found and repaired are `fix:` commits in /repo, listed with the known findings in /verif/known_findings.txt.",
    }
    json.dump(m, open("/verif/MANIFEST.json", "w"), indent=1)
    print("checks:", [c["property_id"] for c in checks])

main()
