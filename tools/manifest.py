#!/usr/bin/env python3
"""Generates /verif/MANIFEST.json from the table below (single source of truth)."""
import json

PROPS = [json.loads(l)["id"] for l in open("/verif/properties.jsonl")]

SCHED_NOTE = ("Trusted base: the model of Go's sync/atomic/context/time/channel primitives in verif/vs (DESIGN §2.2), "
              "sequential consistency for instrumented operations, the source-to-source instrumenter vinstr; small scope "
              "(2-3 threads per role, <=3 items) and a deviation bound (every departure from the fair default schedule "
              "costs one: running another thread, freezing the default thread until nothing else can run, or a non-first ready select case); results are a coverage statement for the bound completed, not a proof.")
SEQ_NOTE = ("Trusted base: the reference model written in the check (slices/maps), the canonical state key used to merge "
            "histories (argument in the check's package comment), bounded depth / input domain as reported in evidence.")

SCHED = "stateless model checking: source-instrumented real code under a controlled scheduler, deviation-bounded exhaustive DFS over schedules (bounds iterated)"
CHECKS = {
 "C01": dict(cat="exploration", tech=SCHED, ref="§4 C01",
             text="All schedules up to the deviation bound of 23 fan-out/fan-in constructs (incl. merges with an input that carries a recorded error, Split+Merge, two Splits of one channel iterator, worker counts below one, Split consumed with Next/Value) x input length x width, with race-directed preemption: output multiset equals input, order where required, no deadlock.", note=SCHED_NOTE),
 "C02": dict(cat="model_checking", tech="exhaustive enumeration of operator trees x inputs x injected skip/error/EOF positions vs a pure functional evaluator", ref="§4 C02",
             text="Every pipeline of the enumerated families (sources x unary chains x n-ary merges x sinks) on every input over {0,1,2} with every single (thorough: double) injection yields exactly the sequence of the functional specification.", note=SEQ_NOTE),
 "C03": dict(cat="fault_enumeration", tech=SCHED + "; fault matrix construct x configuration x fault position x failure kind", ref="§4 C03",
             text="Every cell of the fault matrix (5 constructs x 2^5 configurations x workers x positions x 10 failure kinds) under every schedule up to the bound: reported iff reportable, no escaped panic, exactly-once in continue modes, bounded overrun in abort modes.", note=SCHED_NOTE),
 "C04": dict(cat="exploration", tech=SCHED, ref="§4 C04",
             text="All schedules up to the bound of construct x n x cut point x stop script (exhaust, Close, cancel, both orders, Close/cancel from another thread, Close racing the first advance, abandoned Split output): every goroutine exits, the consumer returns, finite input ends in EOF.", note=SCHED_NOTE),
 "C05": dict(cat="model_checking", tech="explicit-state BFS of operation histories vs a reference model (sequential half) + " + SCHED + " with every history checked for linearizability by porcupine (concurrent half)", ref="§4 C05",
             text="(a) Every operation history up to the reported depth of the real Queue/Distributor agrees with an independent FIFO + limit/credit model; (b) every recorded call/return history of 2-3 thread programs under every schedule up to the bound is linearizable w.r.t. that model.", note=SEQ_NOTE + " " + SCHED_NOTE),
 "C06": dict(cat="model_checking", tech="explicit-state BFS of operation histories vs a reference model (sequential half) + " + SCHED + " with every history checked for linearizability by porcupine (concurrent half)", ref="§4 C06",
             text="(a) Every operation history up to the reported depth of the real Deque agrees with an independent deque model; (b) every recorded history of 2-3 thread programs under every schedule up to the bound is linearizable w.r.t. that model.", note=SEQ_NOTE + " " + SCHED_NOTE),
 "C07": dict(cat="exploration", tech=SCHED, ref="§4 C07",
             text="All schedules up to the bound of closed programs with 1-2 parked consumers/producers, bursts of enabling operations, Close and cancel, plus mixed programs (up to 4 heterogeneous parked callers incl. parked iterators, both deque ends, hand-over chains, Force pushes); quiescence oracle: no caller parked while its condition holds, everyone released by Close/cancel.", note=SCHED_NOTE),
 "C08": dict(cat="exploration", tech=SCHED, ref="§4 C08",
             text="All schedules up to the bound of broker programs (5 back-ends x dispatch options x 1-2 publishers x 1-2 messages x 2 subscribers, static/late subscribe/unsubscribe; churn family with 3 subscribers, unsubscribe during dispatch, redundant/foreign/nil Unsubscribe): window delivery exactly once, common order with one worker, never invented or duplicated.", note=SCHED_NOTE),
 "C09": dict(cat="exploration", tech=SCHED, ref="§4 C09",
             text="All schedules up to the bound of bursts, Stop/cancel/deadline-expiry races, concurrent Wait, client calls with cancelled contexts, and wedged brokers (subscriber never reads, backlog, 2 dispatch workers with buffers), load-shedding single-slot LIFO and hard-limit Queue brokers, and back-ends closed by their owner, on 4 back-ends: no stall at quiescence, Wait returns, every goroutine exits, broker survives cancelled client calls.", note=SCHED_NOTE),
 "C10": dict(cat="fault_enumeration", tech=SCHED + "; fault matrix {absent,ok,error,panic}^3 x handler x end", ref="§4 C10",
             text="Every cell of the 4x4x4x4x3 lifecycle matrix (handler incl. one that calls Wait itself) and 1-3 concurrent Start/Close/Wait callers followed by two concurrent late Starts under every schedule up to the bound: phase counts and order, exactly one successful Start, Wait completeness, Running() false after Wait.", note=SCHED_NOTE),
 "C11": dict(cat="exploration", tech=SCHED, ref="§4 C11",
             text="All schedules up to the bound of orchestrator (service state at Add x add time x outcome incl. context-error-plus-failing-hook services), Group (incl. members started or finished elsewhere), WorkerPool/HandlerWorkerPool and Cleanup programs: start at most once, await all, errors collected, accepted jobs/cleanups run exactly once.", note=SCHED_NOTE),
 "C12": dict(cat="model_checking", tech="exhaustive enumeration of error-expression trees vs an independent constituent model + " + SCHED + " for the Collector", ref="§4 C12",
             text="All error trees up to the reported depth over 24 constructors (incl. collector helper entry points, user aggregates with an empty slot, Unwind-only aggregates, the inner layer of an aggregate): nil-iff, single identity, errors.Is/As for every constituent, Unwind multiset/order; plus every schedule up to the bound of concurrent Collector Add/Resolve/Len/Iterator programs (contents, nil-iff, race oracle).", note=SEQ_NOTE + " " + SCHED_NOTE),
 "C13": dict(cat="exploration", tech=SCHED + " with a vector-clock happens-before race oracle over instrumented plain accesses", ref="§2.4, §4 C13",
             text="Every unordered pair of public operations of each concurrency-safe type (Queue, Deque, their distributors/iterators, Broker in 5 configurations, WaitGroup, Collector, adt.Map/Atomic/Synchronized/Once/Pool, synchronized Set incl. Equal/Extend/Sort with a second set, 21 function wrappers) in each pre-state, two threads, every schedule up to the bound: no two conflicting accesses unordered by happens-before.", note=SCHED_NOTE + " Access instrumentation covers addressable fields, captured locals, assigned package variables, slice/array elements, maps and pointer dereferences of the instrumented packages."),
 "C14": dict(cat="exploration", tech=SCHED, ref="§4 C14",
             text="All schedules up to the bound of waiters x workers x cancellation (own and sibling contexts) x reuse x Launch/DoTimes/StartGroup/Operation.Add/Processor.Add accounting (outstanding work, n in -2..2) x observer programs over the real fun.WaitGroup.", note=SCHED_NOTE),
 "C15": dict(cat="exploration", tech=SCHED + "; Retry scripts and hook orders enumerated exhaustively", ref="§4 C15",
             text="All schedules up to the bound of 2-4 concurrent callers of every Once/Limit/Lock wrapper (incl. callers whose context is over), WithLock over one mutex shared by wrappers of different kinds, re-waits and sibling waiters, a Retry value used twice, Join with a reused slice, waiter-vs-completion for Launch/Signal/Background/StartGroup, all Retry result scripts up to n+1, hook orders.", note=SCHED_NOTE),
 "C16": dict(cat="model_checking", tech="explicit-state BFS over operation histories of the real List/Stack vs a sequence model", ref="§4 C16",
             text="Every operation history up to depth 5 (quick) / 7 (thorough) over two lists / stacks with element handles (incl. Element.UnmarshalJSON on members and on the root sentinel): all traversals, Len, In/Ok, rejected operations, against a slice model.", note=SEQ_NOTE),
 "C17": dict(cat="model_checking", tech="exhaustive input enumeration of sort/IsSorted/Heap vs independent oracle + " + SCHED + " for goroutines working on private lists", ref="§4 C17",
             text="Every sequence over {-1,0,1,2} up to length 6/8 x three orderings: permutation, sortedness, stability, usability after sort (also through the root, drained and refilled), IsSorted iff, Heap order; plus every schedule up to the bound of two goroutines that each sort / test / heap-order a list of their own (answers must be the sequential ones).", note=SEQ_NOTE + " " + SCHED_NOTE),
 "C18": dict(cat="model_checking", tech="explicit-state BFS over Set operation histories vs a reference set + " + SCHED + " with a brute-force sequential-witness check of every history", ref="§4 C18",
             text="Every operation history up to depth 6/8 on 4 set kinds agrees with a reference set; every history of 2-3 thread programs on a synchronized set under every schedule up to the bound has a sequential witness; race oracle on.", note=SEQ_NOTE + " " + SCHED_NOTE),
 "C19": dict(cat="model_checking", tech="exhaustive enumeration of histogram shapes x value multisets vs a sorted-slice oracle", ref="§4 C19",
             text="All (shape, multiset) cases of the reported grid: record in range succeeds, TotalCount, quantile precision bound, Min/Max, Export/Import/Merge equality (and equal answers from Equal histograms), Merge twice, Reset and reuse, RecordCorrectedValue against one-by-one recording, no invariant panic.", note=SEQ_NOTE),
 "C20": dict(cat="exploration", tech=SCHED, ref="§4 C20",
             text="All schedules up to the bound of 1-2 iterators x additions / removals / Close (also immediately after the last addition) / cancel on Queue and Deque iterator flavours: in-order, nothing skipped, not parked with an unseen item, EOF after Close and never while open, no foreign value and no panic under churn.", note=SCHED_NOTE),
}

NA_REASON = "check under construction (not yet registered)"

def main():
    checks = []
    for pid in PROPS:
        if pid not in CHECKS:
            continue
        c = CHECKS[pid]
        checks.append({
            "property_id": pid,
            "quick_cmd": f"./check {pid} quick",
            "thorough_cmd": f"./check {pid} thorough",
            "evidence_file": f"/verif/evidence/{pid}.json",
            "replay_cmd_template": f"./check {pid} quick -replay {{path}}",
            "engine": "vs" if ("controlled scheduler" in c["tech"]) else "seq",
            "level_claimed": {"category": c["cat"], "text": c["text"], "design_ref": c["ref"]},
            "level_note": c["note"],
            "technique": c["tech"],
        })
    m = {
        "version": 1,
        "setup_cmd": "cd /verif && ./setup.sh",
        "hooks": {
            "guard": "verif",
            "enable": "no hook code is committed in /repo: `./check` runs cmd/vinstr on /repo's working tree and builds with `go build -tags verif -overlay <generated>`",
            "baseline_off_cmd": "cd /repo && go test -vet=off -count=1 -timeout 25m ./...",
            "source_commits": [],
            "add_only": True,
        },
        "engines": [
            {"name": "vs", "path": "/verif/vs", "serves_properties": [p for p in PROPS if p in CHECKS and "controlled scheduler" in CHECKS[p]["tech"]],
             "kind_free_text": "hand-written stateless model checker for Go: source instrumenter (cmd/vinstr) + runtime model of sync/atomic/context/time/chan + controlled scheduler + iterative deviation-bounded DFS + vector-clock race oracle"},
            {"name": "seq", "path": "/verif/seq", "serves_properties": [p for p in PROPS if p in CHECKS and ("BFS" in CHECKS[p]["tech"] or "enumeration of" in CHECKS[p]["tech"])],
             "kind_free_text": "explicit-state BFS over operation histories of the real objects against reference models (replay on fresh objects, canonical state keys)"},
        ],
        "checks": checks,
        "not_applicable": [{"property_id": p, "reason": NA_REASON} for p in PROPS if p not in CHECKS],
        "notes": "Defects found and repaired are `fix:` commits in /repo, listed with the known findings in /verif/known_findings.txt.",
    }
    json.dump(m, open("/verif/MANIFEST.json", "w"), indent=1)
    print("checks:", [c["property_id"] for c in checks])

main()
