#!/bin/bash
# usage: tools/seedtest.sh <seed-dir> <name> <tier> <check ids...>
# Confirms a seeded change in a scratch worktree of /repo (demo passes on the unchanged tree, fails
# with the change; the change builds and the repository's own suite still passes), stores it under
# /verif/seeded/<name>/ and runs the given checks against the scratch worktree with the change
# applied (VERIF_REPO; /repo itself is not touched, so several seeds can be tried in parallel).
# SEED_IN_REPO=1 applies the patch to /repo itself instead (git apply / git checkout -- .), the way
# a registered command meets it. Prints one line per check: DETECTED / MISSED / INFRA.
set -u
export GOFLAGS=-mod=mod GOPROXY=off GOSUMDB=off GOTOOLCHAIN=local
src="$1"; name="$2"; tier="$3"; shift 3
[ -f "$src/patch.diff" ] || { echo "no patch in $src"; exit 2; }
demo=$(ls "$src"/demo_test.go 2>/dev/null | head -1)
out=/verif/seeded/$name
mkdir -p "$out"
[ "$src" -ef "$out" ] || {
  cp "$src/patch.diff" "$out/patch.diff"
  [ -n "$demo" ] && cp "$demo" "$out/demo_test.go"
  [ -f "$src/meta.json" ] && cp "$src/meta.json" "$out/meta.agent.json"
}
L=/verif/.work/seedlogs/$name; mkdir -p "$L"
V=/tmp/seedverify-$name; git -C /repo worktree remove --force "$V" >/dev/null 2>&1; /verif/tools/cachecap.sh
git -C /repo worktree add -q --detach "$V" HEAD || exit 2
cleanup() { git -C /repo worktree remove --force "$V" >/dev/null 2>&1; [ "${SEED_IN_REPO:-0}" = 1 ] && git -C /repo checkout -- . 2>/dev/null; }
trap cleanup EXIT
res_without=skip; res_with=skip; build_with=skip; suite_with=skip
d=""
[ "${SEED_SKIP_DEMO:-0}" = 1 ] && demo=""
if [ -n "$demo" ]; then
  d=$(python3 -c "import json,sys;print(json.load(open('$out/meta.agent.json')).get('demo_dir',''))" 2>/dev/null)
  if [ -z "$d" ]; then
    pkg=$(grep -m1 '^package ' "$demo" | awk '{print $2}' | sed 's/_test$//')
    case "$pkg" in fun) d=. ;; cmp) d=dt/cmp ;; hdrhist) d=dt/hdrhist ;; *) d=$pkg ;; esac
  fi
  d=${d%/}; [ -z "$d" ] && d=.
  cp "$demo" "$V/$d/zz_seed_demo_test.go"
  run=$(grep -o 'func Test[A-Za-z0-9_]*' "$demo" | sed 's/func //' | paste -sd'|')
  (cd "$V" && timeout 900 go test -vet=off -count=1 -run "^($run)\$" "./$d/" > "$L/demo.without.log" 2>&1) && res_without=pass || res_without=FAIL
fi
(cd "$V" && git apply "$out/patch.diff") || { echo "seed $name: patch does not apply"; exit 2; }
(cd "$V" && go build ./... > "$L/build.with.log" 2>&1) && build_with=ok || build_with=FAIL
if [ -n "$demo" ]; then
  (cd "$V" && timeout 900 go test -vet=off -count=1 -run "^($run)\$" "./$d/" > "$L/demo.with.log" 2>&1) && res_with=PASS || res_with=fail
  rm -f "$V/$d/zz_seed_demo_test.go"
fi
if [ "${SEED_SKIP_SUITE:-0}" != 1 ]; then
  (cd "$V" && timeout 1500 go test -vet=off -count=1 -timeout 20m ./... > "$L/suite.with.log" 2>&1) && suite_with=pass || {
    # timing-sensitive tests (Interval, TTL, srv TestCmd ForceSigKILL ...) flake when the machine is
    # busy, on the unchanged tree as well: a failing package is re-run alone up to 3 times and only a
    # package that never passes counts as a failure caused by the change.
    suite_with=pass-after-rerun
    for pk in $(grep -E '^FAIL[[:space:]]+github.com' "$L/suite.with.log" | awk '{print $2}'); do
      okp=0
      for try in 1 2 3; do
        (cd "$V" && timeout 900 go test -vet=off -count=1 "$pk" >> "$L/suite.rerun.log" 2>&1) && { okp=1; break; }
      done
      if [ $okp = 0 ]; then
        if [ "$pk" = github.com/tychoish/fun/srv ] && ! grep -E '^\s*--- FAIL' "$L/suite.rerun.log" | grep -v -E 'TestCmd|ForceSigKILL' | grep -q .; then
          suite_with="$suite_with(srv:TestCmd-flaky-on-unchanged-tree)"
        else suite_with=FAIL:$pk; fi
      fi
    done
  }
fi
echo "seed $name: demo without=$res_without with=$res_with build=$build_with suite_with_change=$suite_with"
results=""
if [ "${SEED_IN_REPO:-0}" = 1 ]; then
  git -C /repo apply "$out/patch.diff" || { echo "patch does not apply to /repo"; exit 2; }
  unset VERIF_REPO
else
  export VERIF_REPO="$V" VERIF_EVIDENCE_DIR="$L/evidence"
fi
export VERIF_BUDGET_FACTOR=${VERIF_BUDGET_FACTOR:-4}
for c in "$@"; do
  /verif/check "$c" "$tier" > "$L/check.$c.$tier.log" 2>&1; rc=$?
  sig=$(grep -m3 'signature:' "$L/check.$c.$tier.log" | sed 's/^ *signature: //' | paste -sd';')
  if [ $rc -eq 1 ]; then echo "  $c $tier: DETECTED [$sig]"; results="$results $c:$tier:detected";
  elif [ $rc -eq 0 ]; then echo "  $c $tier: MISSED"; results="$results $c:$tier:missed";
  else echo "  $c $tier: INFRA rc=$rc $(tail -2 $L/check.$c.$tier.log | tr '\n' ' ')"; results="$results $c:$tier:infra"; fi
  grep -m3 -A3 '^VIOLATION' "$L/check.$c.$tier.log" | cut -c1-300 > "$out/detected.$c.$tier.txt"; [ -s "$out/detected.$c.$tier.txt" ] || rm -f "$out/detected.$c.$tier.txt"
done
[ "${SEED_IN_REPO:-0}" = 1 ] && git -C /repo checkout -- .
python3 - "$out" "$name" "$res_without" "$res_with" "$build_with" "$suite_with" "$results" <<'PY'
import json,sys,os
out,name,rw,rwi,b,sw,results=sys.argv[1:8]
meta={}
p=os.path.join(out,'meta.agent.json')
if os.path.exists(p):
    try: meta=json.load(open(p))
    except Exception: meta={}
old={}
q=os.path.join(out,'meta.json')
if os.path.exists(q):
    try: old=json.load(open(q))
    except Exception: old={}
runs=dict(x.rsplit(':',1) for x in old.get('checks_run',[]))
for x in results.split():
    k,v=x.rsplit(':',1); runs[k]=v
m={"name":name,"property":meta.get("property",name.split('-')[0].upper()),"summary":meta.get("summary",""),
   "needs_to_manifest":meta.get("needs_to_manifest",""),
   "demo_dir":meta.get("demo_dir",""),
   "confirmed_here":{"demo_on_unchanged_tree":rw if rw!='skip' else old.get('confirmed_here',{}).get('demo_on_unchanged_tree','skip'),"demo_with_change":rwi if rwi!='skip' else old.get('confirmed_here',{}).get('demo_with_change','skip'),"build_with_change":b,
                "existing_suite_with_change":sw if sw!='skip' else old.get('confirmed_here',{}).get('existing_suite_with_change','skip')},
   "agent_verification":meta.get("how_verified",""),
   "checks_run":[f"{k}:{v}" for k,v in sorted(runs.items())]}
json.dump(m,open(q,'w'),indent=1)
PY
