#!/bin/bash
# usage: tools/seedtest.sh <seed-dir> <name> <tier> <check ids...>
# Confirms a seeded change (demo passes on the unchanged tree, fails with the change, suite still
# builds), stores it under /verif/seeded/<name>/ and runs the given checks against /repo with the
# change applied (reverted afterwards). Prints one line per check: DETECTED / MISSED.
set -u
export GOFLAGS=-mod=mod GOPROXY=off GOSUMDB=off GOTOOLCHAIN=local
src="$1"; name="$2"; tier="$3"; shift 3
[ -f "$src/patch.diff" ] || { echo "no patch in $src"; exit 2; }
demo=$(ls "$src"/demo_test.go "$src"/demo/main.go 2>/dev/null | head -1)
out=/verif/seeded/$name
mkdir -p "$out"
cp "$src/patch.diff" "$out/patch.diff"
[ -n "$demo" ] && cp "$demo" "$out/$(basename $demo)"
[ -f "$src/meta.json" ] && cp "$src/meta.json" "$out/meta.agent.json"
V=/tmp/seedverify-$$
git -C /repo worktree add -q --detach "$V" HEAD || exit 2
trap 'git -C /repo worktree remove --force "$V" >/dev/null 2>&1; git -C /repo checkout -- . 2>/dev/null' EXIT
res_without=skip; res_with=skip; build_with=skip
if [ -n "$demo" ] && [ "$(basename $demo)" = demo_test.go ]; then
  pkg=$(grep -m1 '^package ' "$demo" | awk '{print $2}' | sed 's/_test$//')
  case "$pkg" in fun) d=. ;; cmp) d=dt/cmp ;; hdrhist) d=dt/hdrhist ;; *) d=$pkg ;; esac
  cp "$demo" "$V/$d/zz_seed_demo_test.go"
  run=$(grep -o 'func Test[A-Za-z0-9_]*' "$demo" | sed 's/func //' | paste -sd'|')
  (cd "$V" && timeout 600 go test -vet=off -count=1 -run "^($run)\$" "./$d/" > "$out/demo.without.log" 2>&1) && res_without=pass || res_without=FAIL
  (cd "$V" && git apply "$out/patch.diff") || { echo "patch does not apply"; exit 2; }
  (cd "$V" && go build ./... > "$out/build.with.log" 2>&1) && build_with=ok || build_with=FAIL
  (cd "$V" && timeout 600 go test -vet=off -count=1 -run "^($run)\$" "./$d/" > "$out/demo.with.log" 2>&1) && res_with=pass || res_with=fail
else
  (cd "$V" && git apply "$out/patch.diff" && go build ./... > "$out/build.with.log" 2>&1) && build_with=ok || build_with=FAIL
fi
echo "seed $name: demo without=$res_without with=$res_with build=$build_with"
git -C /repo apply "$out/patch.diff" || { echo "patch does not apply to /repo"; exit 2; }
results=""
for c in "$@"; do
  /verif/check "$c" "$tier" > "$out/check.$c.$tier.log" 2>&1; rc=$?
  sig=$(grep -m3 'signature:' "$out/check.$c.$tier.log" | sed 's/^ *signature: //' | paste -sd';')
  if [ $rc -eq 1 ]; then echo "  $c $tier: DETECTED [$sig]"; results="$results $c:$tier:detected"; 
  elif [ $rc -eq 0 ]; then echo "  $c $tier: MISSED"; results="$results $c:$tier:missed";
  else echo "  $c $tier: INFRA rc=$rc $(tail -2 $out/check.$c.$tier.log | tr '\n' ' ')"; results="$results $c:$tier:infra"; fi
done
git -C /repo checkout -- .
python3 - "$out" "$name" "$res_without" "$res_with" "$build_with" "$results" <<'PY'
import json,sys,os
out,name,rw,rwi,b,results=sys.argv[1:7]
meta={}
p=os.path.join(out,'meta.agent.json')
if os.path.exists(p):
    try: meta=json.load(open(p))
    except Exception: meta={}
m={"name":name,"property":meta.get("property",name.split('-')[0].upper()),"summary":meta.get("summary",""),
   "needs_to_manifest":meta.get("needs_to_manifest",""),
   "confirmed":{"demo_on_unchanged_tree":rw,"demo_with_change":rwi,"build_with_change":b,
                "existing_suite_with_change":meta.get("how_verified","see meta.agent.json")},
   "checks_run":results.split()}
json.dump(m,open(os.path.join(out,'meta.json'),'w'),indent=1)
PY
