#!/bin/bash
# usage: tools/thorough_all.sh [ids...]   — runs the thorough tier of each check, one after another,
# against $VP_RUN_REPO (a snapshot of /repo's HEAD) when set, else /repo. For background runs
# (`vp run --with-repo -- tools/thorough_all.sh`); prints one summary line per check.
cd "$(dirname "$0")/.."
export GOFLAGS=-mod=mod GOPROXY=off GOSUMDB=off GOTOOLCHAIN=local
[ -n "${VP_RUN_REPO:-}" ] && export VERIF_REPO="$VP_RUN_REPO"
mkdir -p bin .work/logs
tools/cachecap.sh
go build -o bin/vinstr ./cmd/vinstr || exit 2
ids="$*"; [ -z "$ids" ] && ids="C01 C02 C03 C04 C05 C06 C07 C08 C09 C10 C11 C12 C13 C14 C15 C16 C17 C18 C19 C20"
for id in $ids; do
  s=$(date +%s)
  ./check $id thorough > .work/logs/$id.thorough.log 2>&1; rc=$?
  e=$(date +%s)
  ed=${VERIF_EVIDENCE_DIR:-.work/evidence-alt}; [ -z "${VERIF_REPO:-}" ] && ed=evidence
  echo "$id thorough rc=$rc t=$((e-s))s viol=$(grep -c '^VIOLATION' .work/logs/$id.thorough.log) known=$(grep -c '^KNOWN-FINDING' .work/logs/$id.thorough.log) $(jq -c '{ex:.coverage.exhaustive, b:.coverage.max_bound_completed_all_instances, ev:.coverage.evaluations, st:.coverage.states}' $ed/$id.json 2>/dev/null)"
  grep '^VIOLATION' .work/logs/$id.thorough.log | head -5
done
