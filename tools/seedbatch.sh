#!/bin/bash
# usage: tools/seedbatch.sh <tier> <ID>...   e.g. tools/seedbatch.sh quick C09 C18
# runs seedtest for /tmp/seed-<ID>/_seed/{a,b} against check <ID>; appends to .work/seedsummary.txt
tier=$1; shift
for id in "$@"; do
  lc=$(echo $id | tr A-Z a-z)
  for v in a b; do
    [ -f /tmp/seed-$id/_seed/$v/patch.diff ] || continue
    /verif/tools/seedtest.sh /tmp/seed-$id/_seed/$v $lc-$v $tier $id 2>&1 | grep -E '^seed|^  C' | tee -a /verif/.work/seedsummary.txt
  done
done
