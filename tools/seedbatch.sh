#!/bin/bash
# usage: tools/seedbatch.sh <tier> <ID>...   e.g. tools/seedbatch.sh quick C09 C18
# runs seedtest for every /tmp/seed*-<ID>/_seed/<letter>/ (and /tmp/seed-<ID>/...) against check
# <ID>; appends to .work/seedsummary.txt. SEED_LETTERS="c d" restricts the variants.
tier=$1; shift
mkdir -p /verif/.work
for id in "$@"; do
  lc=$(echo $id | tr A-Z a-z)
  for d in /tmp/seed-$id /tmp/seed[0-9]-$id; do
    [ -d "$d/_seed" ] || continue
    for vdir in "$d"/_seed/*/; do
      v=$(basename "$vdir")
      [ -f "$vdir/patch.diff" ] || continue
      [ -n "${SEED_LETTERS:-}" ] && ! echo " $SEED_LETTERS " | grep -q " $v " && continue
      /verif/tools/seedtest.sh "${vdir%/}" $lc-$v $tier $id 2>&1 | grep -E '^seed|^  C' | tee -a /verif/.work/seedsummary.txt
    done
  done
done
