#!/bin/bash
# Litmus conformance of the runtime model (DESIGN §2.6): same source, real runtime vs model.
set -e
cd "$(dirname "$0")/.."
export VERIF_ROOT="$PWD"
export GOFLAGS=-mod=mod GOPROXY=off GOSUMDB=off GOTOOLCHAIN=local
W=$PWD/.work/litmus-$$
mkdir -p "$W" evidence
trap 'rm -rf "$W"' EXIT
[ -x bin/vinstr ] || go build -o bin/vinstr ./cmd/vinstr
go build -trimpath -o "$W/real.bin" ./checks/litmus
"$W/real.bin" -out "$W/real.json" -iters "${LITMUS_ITERS:-1500}"
# stable instrumentation directory + -trimpath: re-runs hit the go build cache (see ./check)
I=$PWD/.work/inst-litmus
mkdir -p "$I"; exec 9> "$I.lock"; flock 9
rm -rf "$I/inst"
bin/vinstr -root "$PWD" -work "$I/inst" -harness ./checks/litmus . >/dev/null
go build -trimpath -tags verif -overlay "$I/inst/overlay.json" -o "$W/model.bin" ./checks/litmus
rm -rf "$I/inst"; flock -u 9; exec 9>&-
"$W/model.bin" -real "$W/real.json" | tee "$W/out.txt"
rc=${PIPESTATUS[0]}
tail -1 "$W/out.txt" > evidence/litmus.txt
exit $rc
