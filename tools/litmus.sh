#!/bin/bash
# Litmus conformance of the runtime model (DESIGN §2.6): same source, real runtime vs model.
set -e
cd "$(dirname "$0")/.."
export VERIF_ROOT="$PWD"
export GOFLAGS=-mod=mod GOPROXY=off GOSUMDB=off GOTOOLCHAIN=local
W=$PWD/.work/litmus-$$
mkdir -p "$W" evidence
trap 'rm -rf "$W"' EXIT
[ -x bin/vinstr ] || go build -o bin/vinstr ./cmd/vinstr
go build -o "$W/real.bin" ./checks/litmus
"$W/real.bin" -out "$W/real.json" -iters "${LITMUS_ITERS:-1500}"
bin/vinstr -root "$PWD" -work "$W/inst" -harness ./checks/litmus . >/dev/null
go build -tags verif -overlay "$W/inst/overlay.json" -o "$W/model.bin" ./checks/litmus
"$W/model.bin" -real "$W/real.json" | tee "$W/out.txt"
rc=${PIPESTATUS[0]}
tail -1 "$W/out.txt" > evidence/litmus.txt
exit $rc
