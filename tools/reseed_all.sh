#!/bin/bash
# Re-runs the owning check (quick) against every seeded change with the CURRENT checks; no demo,
# no suite (both were confirmed when the seed was taken in). One line per seed.
cd /verif
for d in seeded/*/; do
  n=$(basename $d); id=$(echo ${n%%-*} | tr a-z A-Z)
  [ -f $d/patch.diff ] || continue
  SEED_SKIP_SUITE=1 SEED_SKIP_DEMO=1 tools/seedtest.sh seeded/$n $n quick $id 2>&1 | grep "^  C" | sed "s/^/$n/"
done
