#!/usr/bin/env python3
# prints a markdown table of what the committed evidence files report (for DESIGN.md §9.6)
import json,glob,os
print("| property | level | tier | evaluations | states | transitions | max bound (all instances) | instances | exhaustive | racy sites | known findings witnessed |")
print("|---|---|---|---|---|---|---|---|---|---|---|")
for f in sorted(glob.glob('/verif/evidence/C*.json')):
    e=json.load(open(f)); c=e.get('coverage',{})
    rp=c.get('race_directed_points') or {}
    kf=c.get('known_findings_witnessed') or []
    print(f"| {e.get('property_id')} | {e.get('level',{}).get('category') if isinstance(e.get('level'),dict) else e.get('level')} | {e.get('tier','')} | {c.get('evaluations','')} | {c.get('states','')} | {c.get('transitions','')} | {c.get('max_bound_completed_all_instances','')} | {c.get('instances','')} | {c.get('exhaustive','')} | {rp.get('sites_made_scheduling_points','') if rp else ''} | {len(kf)} |")
