#!/bin/bash
# Builds the framework from files on disk only (offline) and warms the build cache.
set -e
cd "$(dirname "$0")"
export VERIF_ROOT="$PWD"
export GOFLAGS=-mod=mod GOPROXY=off GOSUMDB=off GOTOOLCHAIN=local
mkdir -p bin evidence .work
go build -o bin/vinstr ./cmd/vinstr
go build ./rep ./seq ./vs/...
# warm: plain and instrumented builds of every check (binaries are thrown away)
W=.work/setup-$$
mkdir -p "$W"
trap 'rm -rf "$W"' EXIT
for d in checks/c*/; do
  d=${d%/}
  if [ -f "$d/INSTRUMENTED" ]; then
    bin/vinstr -work "$W/inst" -harness "./$d" $(cat "$d/INSTRUMENTED") >/dev/null
    go build -tags verif -overlay "$W/inst/overlay.json" -o "$W/x.bin" "./$d"
    rm -rf "$W/inst"
  else
    go build -o "$W/x.bin" "./$d"
  fi
done
tools/litmus.sh > .work/litmus.log 2>&1 || echo "WARNING: litmus conformance suite reported failures (see tools/litmus.sh)"
echo setup ok
