#!/bin/bash
# Builds the framework from files on disk only (offline) and warms the build cache.
set -e
cd "$(dirname "$0")"
export VERIF_ROOT="$PWD"
export GOFLAGS=-mod=mod GOPROXY=off GOSUMDB=off GOTOOLCHAIN=local
mkdir -p bin evidence .work
go build -o bin/vinstr ./cmd/vinstr
go build ./rep ./seq ./vs/...
# warm: the same plain / instrumented builds a check run performs (binaries are thrown away)
tools/cachecap.sh
for d in checks/c*/; do
  id=$(basename "$d" | tr a-z A-Z)
  VERIF_BUILD_ONLY=1 ./check "$id" quick
done
tools/litmus.sh > .work/litmus.log 2>&1 || echo "WARNING: litmus conformance suite reported failures (see tools/litmus.sh)"
echo setup ok
