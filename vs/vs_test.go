package vs_test

import (
	"fmt"
	"testing"

	"verif/vs"
	atomic "verif/vs/vatomic"
	context "verif/vs/vctx"
	sync "verif/vs/vsync"
)

// lost update: two threads do load;store on an atomic -> needs 1 preemption
func TestLostUpdate(t *testing.T) {
	sc := func() (func(), func(*vs.End) (string, string)) {
		var a atomic.Int64
		body := func() {
			var wg sync.WaitGroup
			wg.Add(2)
			for i := 0; i < 2; i++ {
				vs.Go(func() { defer wg.Done(); v := a.Load(); a.Store(v + 1) })
			}
			wg.Wait()
		}
		return body, func(e *vs.End) (string, string) {
			if e.Status != vs.Clean {
				return "notclean", e.StuckSites()
			}
			if a.Load() != 2 {
				return "lost", fmt.Sprint(a.Load())
			}
			return "", ""
		}
	}
	st := vs.Explore(vs.Config{Name: "lost", Bound: 0, NoSpin: true}, sc)
	if len(st.Failures) != 0 {
		t.Fatalf("bound 0 should pass: %+v", st.Failures)
	}
	st = vs.Explore(vs.Config{Name: "lost", Bound: 2, NoSpin: true}, sc)
	if len(st.Failures) != 1 || st.Failures[0].Bound != 1 {
		t.Fatalf("expected failure at 1 deviation: %+v", st)
	}
	t.Logf("%+v", st)
}

// lost wake-up: waiter checks flag, (preempt), signaller sets+signals without lock, waiter waits forever
func TestLostWakeup(t *testing.T) {
	sc := func() (func(), func(*vs.End) (string, string)) {
		body := func() {
			var mu sync.Mutex
			c := sync.NewCond(&mu)
			var flag atomic.Bool
			done := vs.MakeChan[struct{}]()
			vs.Go(func() {
				mu.Lock()
				for !flag.Load() {
					c.Wait()
				}
				mu.Unlock()
				done.Close()
			})
			flag.Store(true)
			c.Broadcast()
			done.Recv()
		}
		return body, func(e *vs.End) (string, string) {
			if e.Status != vs.Clean {
				return "stuck", e.StuckSites()
			}
			return "", ""
		}
	}
	st := vs.Explore(vs.Config{Name: "lw", Bound: 2, NoSpin: true}, sc)
	if len(st.Failures) != 1 {
		t.Fatalf("expected lost wakeup: %+v", st)
	}
	t.Logf("%+v", st.Failures[0])
}

func TestCtxSelect(t *testing.T) {
	sc := func() (func(), func(*vs.End) (string, string)) {
		got := ""
		body := func() {
			ctx, cancel := context.WithCancel(context.Background())
			ch := vs.MakeChan[int]()
			vs.Go(func() { ch.Send(1) })
			vs.Go(cancel)
			c0, c1 := vs.RecvCase(ctx.Done()), vs.RecvCase(ch)
			switch vs.Select(false, c0, c1) {
			case 0:
				got = "cancel"
				// drain so the sender does not leak
				vs.Go(func() { ch.Recv() })
			case 1:
				got = fmt.Sprint("v", c1.Val())
			}
		}
		return body, func(e *vs.End) (string, string) {
			if e.Status != vs.Clean {
				return "stuck", e.StuckSites()
			}
			if got == "" {
				return "none", ""
			}
			return "", ""
		}
	}
	st := vs.Explore(vs.Config{Name: "sel", Bound: 3, NoSpin: true}, sc)
	if len(st.Failures) != 0 {
		t.Fatalf("%+v", st.Failures)
	}
	t.Logf("execs=%d outcomes=%v states=%d", st.Executions, st.Outcomes, st.States)
}
