// Package atomic is the model of sync/atomic used by instrumented builds:
// every operation is one visible step, sequentially consistent, and an
// acquire-release on the variable for the happens-before oracle.
package atomic

import "verif/vs"

type base struct {
	obj *vs.Obj
	ver uint64 // bumped on every write (spin detector: a write is progress)
}

func (b *base) step() bool {
	if b.obj == nil {
		b.obj = vs.NewObj("atomic")
		b.obj.State = func() uint64 { return b.ver }
	}
	vs.Point(vs.KAtomic, b.obj, nil)
	if vs.Aborting() {
		return false
	}
	vs.Acquire(b.obj)
	vs.Release(b.obj)
	return true
}

type Bool struct {
	base
	v bool
}

func (a *Bool) Load() bool { a.step(); return a.v }
func (a *Bool) Store(v bool) {
	if a.step() {
		a.v = v
		a.ver++
	}
}
func (a *Bool) Swap(v bool) bool {
	if !a.step() {
		return a.v
	}
	o := a.v
	a.v = v
	a.ver++
	return o
}
func (a *Bool) CompareAndSwap(o, n bool) bool {
	if !a.step() {
		return false
	}
	if a.v == o {
		a.v = n
		a.ver++
		return true
	}
	return false
}

type Int64 struct {
	base
	v int64
}

func (a *Int64) Load() int64 { a.step(); return a.v }
func (a *Int64) Store(v int64) {
	if a.step() {
		a.v = v
		a.ver++
	}
}
func (a *Int64) Add(d int64) int64 {
	if a.step() {
		a.v += d
		a.ver++
	}
	return a.v
}
func (a *Int64) Swap(v int64) int64 {
	if !a.step() {
		return a.v
	}
	o := a.v
	a.v = v
	a.ver++
	return o
}
func (a *Int64) CompareAndSwap(o, n int64) bool {
	if !a.step() {
		return false
	}
	if a.v == o {
		a.v = n
		a.ver++
		return true
	}
	return false
}

type Int32 struct {
	base
	v int32
}

func (a *Int32) Load() int32 { a.step(); return a.v }
func (a *Int32) Store(v int32) {
	if a.step() {
		a.v = v
		a.ver++
	}
}
func (a *Int32) Add(d int32) int32 {
	if a.step() {
		a.v += d
		a.ver++
	}
	return a.v
}
func (a *Int32) Swap(v int32) int32 {
	if !a.step() {
		return a.v
	}
	o := a.v
	a.v = v
	a.ver++
	return o
}
func (a *Int32) CompareAndSwap(o, n int32) bool {
	if !a.step() {
		return false
	}
	if a.v == o {
		a.v = n
		a.ver++
		return true
	}
	return false
}

// Value is atomic.Value (including its panics on nil / inconsistent types).
type Value struct {
	base
	v any
}

func (a *Value) Load() any { a.step(); return a.v }
func (a *Value) check(v any) {
	if v == nil {
		panic("sync/atomic: store of nil value into Value")
	}
}
func (a *Value) Store(v any) {
	a.check(v)
	if a.step() {
		a.v = v
		a.ver++
	}
}
func (a *Value) Swap(v any) any {
	a.check(v)
	if !a.step() {
		return nil
	}
	o := a.v
	a.v = v
	a.ver++
	return o
}
func (a *Value) CompareAndSwap(o, n any) bool {
	a.check(n)
	if !a.step() {
		return false
	}
	if a.v == o {
		a.v = n
		a.ver++
		return true
	}
	return false
}
