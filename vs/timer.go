package vs

import (
	"sort"
	"time"
)

// Timer is the model of a runtime timer. Timers fire only at quiescence (no
// thread enabled), earliest deadline first: "timeouts never beat computation".
type Timer struct {
	when   time.Time
	active bool
	seq    int
	fire   func() // runs in scheduler context: must not block or call Point
}

var timerSeq int

// VNow is the virtual clock.
func VNow() time.Time {
	if X == nil {
		return time.Unix(1_700_000_000, 0)
	}
	return X.now
}

// NewTimerFunc registers fire to run d from now.
func NewTimerFunc(d time.Duration, fire func()) *Timer {
	t := &Timer{fire: fire}
	t.Reset(d)
	return t
}

// Reset re-arms the timer; reports whether it was active.
func (t *Timer) Reset(d time.Duration) bool {
	was := t.active
	if X == nil {
		return was
	}
	if d < 0 {
		d = 0
	}
	t.when = X.now.Add(d)
	timerSeq++
	t.seq = timerSeq
	if !t.active {
		t.active = true
		X.timers = append(X.timers, t)
	}
	return was
}

// Stop disarms the timer; reports whether it was active.
func (t *Timer) Stop() bool {
	was := t.active
	t.active = false
	if X != nil {
		for i, o := range X.timers {
			if o == t {
				X.timers = append(X.timers[:i:i], X.timers[i+1:]...)
				break
			}
		}
	}
	return was
}

func (x *Exec) fireTimer() bool {
	if len(x.timers) == 0 {
		return false
	}
	sort.SliceStable(x.timers, func(i, j int) bool {
		if !x.timers[i].when.Equal(x.timers[j].when) {
			return x.timers[i].when.Before(x.timers[j].when)
		}
		return x.timers[i].seq < x.timers[j].seq
	})
	t := x.timers[0]
	x.timers = x.timers[1:]
	t.active = false
	if t.when.After(x.now) {
		x.now = t.when
	}
	x.steps++
	x.mix(99, 99, t.seq)
	t.fire()
	return true
}

// SendNB is a non-blocking send usable from timer callbacks (no Point).
func SendNB[T any](ch *Chan[T], v T) bool {
	c := ch.core()
	if c == nil || c.closed || len(c.buf) >= c.cap {
		return false
	}
	c.sends++
	c.buf = append(c.buf, item{v: v})
	return true
}

// CloseNB closes ch without a scheduling point (timer / cancel propagation).
func CloseNB[T any](ch *Chan[T]) {
	c := ch.core()
	if c == nil || c.closed {
		return
	}
	c.closed = true
	if X != nil && X.cur != nil {
		c.closeVC = X.cur.vc.clone()
	}
}

// SpawnFromTimer starts a thread from a timer callback.
func SpawnFromTimer(name string, f func()) {
	if X != nil {
		X.spawn(f, name)
	}
}
