// Package sync is the model of package sync used by instrumented builds.
package sync

import (
	"verif/vs"
)

// Locker is sync.Locker.
type Locker interface {
	Lock()
	Unlock()
}

// Mutex: Lock is enabled iff the mutex is free; any waiting locker may win.
type Mutex struct {
	obj    *vs.Obj
	locked bool
}

func (m *Mutex) o() *vs.Obj {
	if m.obj == nil {
		m.obj = vs.NewObj("mutex")
		m.obj.State = m.State
	}
	return m.obj
}

func (m *Mutex) Lock() {
	vs.Point(vs.KLock, m.o(), func() bool { return !m.locked })
	if vs.Aborting() {
		return
	}
	m.locked = true
	vs.Acquire(m.obj)
}

func (m *Mutex) TryLock() bool {
	vs.Point(vs.KLock, m.o(), nil)
	if vs.Aborting() {
		return true
	}
	if m.locked {
		return false
	}
	m.locked = true
	vs.Acquire(m.obj)
	return true
}

func (m *Mutex) Unlock() {
	vs.Point(vs.KUnlock, m.o(), nil)
	if vs.Aborting() {
		return
	}
	if !m.locked {
		panic("sync: unlock of unlocked mutex")
	}
	m.unlockNoPoint()
}

func (m *Mutex) unlockNoPoint() {
	vs.Release(m.o())
	m.locked = false
}

// State is used by the spin detector.
func (m *Mutex) State() uint64 {
	if m.locked {
		return 1
	}
	return 0
}

// RWMutex with Go's rule that a pending writer blocks new readers.
type RWMutex struct {
	obj     *vs.Obj
	writer  bool
	readers int
	pendW   int
}

func (m *RWMutex) o() *vs.Obj {
	if m.obj == nil {
		m.obj = vs.NewObj("rwmutex")
		m.obj.State = func() uint64 {
			s := uint64(m.readers)<<8 | uint64(m.pendW)<<1
			if m.writer {
				s |= 1
			}
			return s
		}
	}
	return m.obj
}

func (m *RWMutex) Lock() {
	m.pendW++
	vs.Point(vs.KLock, m.o(), func() bool { return !m.writer && m.readers == 0 })
	m.pendW--
	if vs.Aborting() {
		return
	}
	m.writer = true
	vs.Acquire(m.obj)
}

func (m *RWMutex) Unlock() {
	vs.Point(vs.KUnlock, m.o(), nil)
	if vs.Aborting() {
		return
	}
	if !m.writer {
		panic("sync: Unlock of unlocked RWMutex")
	}
	vs.Release(m.obj)
	m.writer = false
}

func (m *RWMutex) RLock() {
	vs.Point(vs.KRLock, m.o(), func() bool { return !m.writer && m.pendW == 0 })
	if vs.Aborting() {
		return
	}
	m.readers++
	vs.Acquire(m.obj)
}

func (m *RWMutex) RUnlock() {
	vs.Point(vs.KRUnlock, m.o(), nil)
	if vs.Aborting() {
		return
	}
	if m.readers <= 0 {
		panic("sync: RUnlock of unlocked RWMutex")
	}
	vs.Release(m.obj)
	m.readers--
}

type rlocker RWMutex

func (r *rlocker) Lock()   { (*RWMutex)(r).RLock() }
func (r *rlocker) Unlock() { (*RWMutex)(r).RUnlock() }

func (m *RWMutex) RLocker() Locker { return (*rlocker)(m) }

// Cond: Wait atomically registers on the FIFO notify list and unlocks L
// (exactly Go: notifyListAdd precedes Unlock); Signal wakes the longest
// waiter, Broadcast all; no spurious wake-ups. Signal/Broadcast do not
// require L.
type Cond struct {
	L       Locker
	obj     *vs.Obj
	waiters []*waiter
}

type waiter struct{ notified bool }

func NewCond(l Locker) *Cond { return &Cond{L: l} }

func (c *Cond) o() *vs.Obj {
	if c.obj == nil {
		c.obj = vs.NewObj("cond")
		c.obj.State = func() uint64 { return uint64(len(c.waiters)) }
	}
	return c.obj
}

func (c *Cond) Wait() {
	vs.Point(vs.KCondWait, c.o(), nil)
	if vs.Aborting() {
		return
	}
	w := &waiter{}
	c.waiters = append(c.waiters, w)
	switch l := c.L.(type) {
	case *Mutex:
		if !l.locked {
			panic("sync: unlock of unlocked mutex")
		}
		l.unlockNoPoint()
	default:
		c.L.Unlock()
	}
	vs.Point(vs.KCondWake, c.obj, func() bool { return w.notified })
	if vs.Aborting() {
		return
	}
	vs.Acquire(c.obj)
	c.L.Lock()
}

func (c *Cond) Signal() {
	vs.Point(vs.KSignal, c.o(), nil)
	if vs.Aborting() {
		return
	}
	vs.Release(c.obj)
	if len(c.waiters) > 0 {
		c.waiters[0].notified = true
		c.waiters = c.waiters[1:]
	}
}

func (c *Cond) Broadcast() {
	vs.Point(vs.KBroadcast, c.o(), nil)
	if vs.Aborting() {
		return
	}
	vs.Release(c.obj)
	for _, w := range c.waiters {
		w.notified = true
	}
	c.waiters = nil
}

// Once: callers block until the first call finished.
type Once struct {
	obj     *vs.Obj
	done    bool
	running bool
}

func (o *Once) Do(f func()) {
	if o.obj == nil {
		o.obj = vs.NewObj("once")
		o.obj.State = func() uint64 {
			if o.done {
				return 2
			}
			if o.running {
				return 1
			}
			return 0
		}
	}
	vs.Point(vs.KOnce, o.obj, func() bool { return !o.running })
	if vs.Aborting() {
		return
	}
	if o.done {
		vs.Acquire(o.obj)
		return
	}
	o.running = true
	defer func() {
		o.done = true
		o.running = false
		vs.Release(o.obj)
	}()
	f()
}

// WaitGroup is sync.WaitGroup.
type WaitGroup struct {
	obj *vs.Obj
	n   int
}

func (wg *WaitGroup) o() *vs.Obj {
	if wg.obj == nil {
		wg.obj = vs.NewObj("waitgroup")
		wg.obj.State = func() uint64 { return uint64(wg.n) }
	}
	return wg.obj
}

func (wg *WaitGroup) Add(d int) {
	vs.Point(vs.KWGAdd, wg.o(), nil)
	if vs.Aborting() {
		return
	}
	vs.Release(wg.obj)
	wg.n += d
	if wg.n < 0 {
		panic("sync: negative WaitGroup counter")
	}
}

func (wg *WaitGroup) Done() { wg.Add(-1) }

func (wg *WaitGroup) Wait() {
	vs.Point(vs.KWGWait, wg.o(), func() bool { return wg.n == 0 })
	if vs.Aborting() {
		return
	}
	vs.Acquire(wg.obj)
}

// Pool is a deterministic LIFO free list.
type Pool struct {
	New   func() any
	obj   *vs.Obj
	items []any
}

func (p *Pool) o() *vs.Obj {
	if p.obj == nil {
		p.obj = vs.NewObj("pool")
	}
	return p.obj
}

func (p *Pool) Get() any {
	vs.Point(vs.KPool, p.o(), nil)
	if vs.Aborting() {
		return nil
	}
	if n := len(p.items); n > 0 {
		it := p.items[n-1]
		p.items = p.items[:n-1]
		vs.Acquire(p.obj)
		return it
	}
	if p.New != nil {
		return p.New()
	}
	return nil
}

func (p *Pool) Put(x any) {
	vs.Point(vs.KPool, p.o(), nil)
	if vs.Aborting() {
		return
	}
	if x == nil {
		return
	}
	vs.Release(p.obj)
	p.items = append(p.items, x)
}

// Map is a linearizable map, one step per method; Range iterates over a
// snapshot of the keys in insertion order, re-reading each key.
type Map struct {
	obj  *vs.Obj
	keys []any
	m    map[any]any
}

func (m *Map) step() bool {
	if m.obj == nil {
		m.obj = vs.NewObj("syncmap")
	}
	vs.Point(vs.KMap, m.obj, nil)
	if vs.Aborting() {
		return false
	}
	if m.m == nil {
		m.m = map[any]any{}
	}
	vs.Acquire(m.obj)
	vs.Release(m.obj)
	return true
}

func (m *Map) Load(key any) (any, bool) {
	if !m.step() {
		return nil, false
	}
	v, ok := m.m[key]
	return v, ok
}

func (m *Map) put(key, value any) {
	if _, ok := m.m[key]; !ok {
		m.keys = append(m.keys, key)
	}
	m.m[key] = value
}

func (m *Map) del(key any) {
	if _, ok := m.m[key]; ok {
		delete(m.m, key)
		for i, k := range m.keys {
			if k == key {
				m.keys = append(m.keys[:i:i], m.keys[i+1:]...)
				break
			}
		}
	}
}

func (m *Map) Store(key, value any) {
	if !m.step() {
		return
	}
	m.put(key, value)
}

func (m *Map) LoadOrStore(key, value any) (any, bool) {
	if !m.step() {
		return nil, false
	}
	if v, ok := m.m[key]; ok {
		return v, true
	}
	m.put(key, value)
	return value, false
}

func (m *Map) LoadAndDelete(key any) (any, bool) {
	if !m.step() {
		return nil, false
	}
	v, ok := m.m[key]
	m.del(key)
	return v, ok
}

func (m *Map) Delete(key any) {
	if !m.step() {
		return
	}
	m.del(key)
}

func (m *Map) Swap(key, value any) (any, bool) {
	if !m.step() {
		return nil, false
	}
	v, ok := m.m[key]
	m.put(key, value)
	return v, ok
}

func (m *Map) CompareAndSwap(key, old, new any) bool {
	if !m.step() {
		return false
	}
	if v, ok := m.m[key]; ok && v == old {
		m.m[key] = new
		return true
	}
	return false
}

func (m *Map) CompareAndDelete(key, old any) bool {
	if !m.step() {
		return false
	}
	if v, ok := m.m[key]; ok && v == old {
		m.del(key)
		return true
	}
	return false
}

func (m *Map) Range(f func(key, value any) bool) {
	if !m.step() {
		return
	}
	keys := append([]any(nil), m.keys...)
	for _, k := range keys {
		v, ok := m.Load(k)
		if vs.Aborting() {
			return
		}
		if !ok {
			continue
		}
		if !f(k, v) {
			return
		}
	}
}
