// Package runner drives schedule-exploration checks: it distributes scenario
// instances over worker subprocesses (one managed execution at a time per
// process), merges their statistics into a rep.Report and implements replay.
package runner

import (
	"bufio"
	"encoding/json"
	"flag"
	"fmt"
	"os"
	"os/exec"
	"runtime"
	"sort"
	"strconv"
	"strings"
	"sync"
	"time"

	"verif/rep"
	"verif/vs"
)

// Instance is one closed program (scenario × parameters) to explore.
type Instance struct {
	Group    string // scenario family: first part of the violation signature
	Name     string // unique; Group plus parameters
	Bound    int
	Race     bool
	Horizon  int
	NoSpin   bool
	NoFreeze bool
	// RacePoints: race-directed preemption (vs.Config.RacePoints); implies Race.
	RacePoints bool
	Scenario   vs.Scenario
}

// Options of a check.
type Options struct {
	Property string
	Level    string // exploration | fault_enumeration | model_checking
	// Build returns the instances of a tier and the wall-clock budget.
	Build func(tier string) ([]Instance, time.Duration)
	// Extra runs in the parent process (unmanaged) before exploration, e.g. a
	// sequential conformance part.
	Extra  func(r *rep.Report, tier string)
	Rule   string
	Assume []string
	// LibRace switches the happens-before race oracle on for every instance and
	// reports a race between two library accesses (vs.End.LibRace) as a
	// violation "<group>/data-race/<signature>" when the scenario's own oracle
	// is satisfied: exploring preemptions at synchronisation operations only is
	// exhaustive for race-free executions only, and an unordered pair of
	// accesses inside the code under test is exactly what it would miss.
	LibRace bool
	// RacePoints switches race-directed preemption on for every instance: the
	// happens-before oracle runs in every execution, and as soon as two
	// accesses inside library code are found unordered the instance is explored
	// again from bound 0 with those source sites as additional scheduling
	// points, so that the interleavings around them are decided by the
	// property's own oracle.
	RacePoints bool
}

type taskMsg struct {
	Idx   int      `json:"idx"`
	Bound int      `json:"bound"`
	Racy  []string `json:"racy,omitempty"`
}

type result struct {
	Index int      `json:"index"`
	Stats vs.Stats `json:"stats"`
}

// Main is the entry point of a check binary.
func Main(o Options) {
	tier := flag.String("tier", "quick", "quick|thorough")
	worker := flag.Bool("worker", false, "internal: worker mode")
	replay := flag.String("replay", "", "replay a violation file")
	only := flag.String("only", "", "only instances whose name contains this substring")
	deadline := flag.Int64("deadline", 0, "internal: unix deadline")
	bound := flag.Int("bound", -1, "override deviation bound")
	flag.Parse()
	insts, budget := o.Build(*tier)
	if o.RacePoints {
		for i := range insts {
			insts[i].Race, insts[i].RacePoints = true, true
		}
	}
	if o.LibRace {
		for i := range insts {
			insts[i].Race = true
			inner := insts[i].Scenario
			insts[i].Scenario = func() (func(), func(*vs.End) (string, string)) {
				body, check := inner()
				return body, func(e *vs.End) (string, string) {
					if tag, detail := check(e); tag != "" {
						return tag, detail
					}
					if rc := e.LibRace(); rc != nil {
						return "data-race/" + rc.Signature, rc.A + " <-> " + rc.B
					}
					return "", ""
				}
			}
		}
	}
	if *only != "" {
		var f []Instance
		for _, in := range insts {
			if strings.Contains(in.Name, *only) {
				f = append(f, in)
			}
		}
		insts = f
	}
	if *bound >= 0 {
		for i := range insts {
			insts[i].Bound = *bound
		}
	}
	if *replay != "" {
		os.Exit(doReplay(insts, *replay))
	}
	if *worker {
		runWorker(insts, time.Unix(*deadline, 0))
		return
	}
	r := rep.New(o.Property, *tier, o.Level)
	r.Assume = o.Assume
	if part := os.Getenv("VERIF_PART_IN"); part != "" {
		r.MergePart(part)
	}
	if o.Extra != nil {
		o.Extra(r, *tier)
	}
	if f, err := strconv.ParseFloat(os.Getenv("VERIF_BUDGET_FACTOR"), 64); err == nil && f > 0 {
		// seed testing on a loaded machine: same exploration, more wall clock
		// (registered commands never set this)
		budget = time.Duration(float64(budget) * f)
	}
	dl := time.Now().Add(budget)
	stats, infra := runParent(insts, *tier, *only, *bound, dl)
	if infra != "" {
		fmt.Fprintln(os.Stderr, "INFRASTRUCTURE ERROR:", infra)
		os.Exit(2)
	}
	merge(r, o, insts, stats)
	os.Exit(r.Finish())
}

func cfgOf(in Instance, dl time.Time) vs.Config {
	return vs.Config{Name: in.Name, Bound: in.Bound, Horizon: in.Horizon, Race: in.Race || in.RacePoints, Deadline: dl, NoSpin: in.NoSpin, NoFreeze: in.NoFreeze, RacePoints: in.RacePoints}
}

func runWorker(insts []Instance, dl time.Time) {
	runtime.GOMAXPROCS(1)
	sc := bufio.NewScanner(os.Stdin)
	out := json.NewEncoder(os.Stdout)
	sc.Buffer(make([]byte, 1<<20), 1<<24)
	for sc.Scan() {
		var t taskMsg
		if err := json.Unmarshal(sc.Bytes(), &t); err != nil || t.Idx < 0 || t.Idx >= len(insts) {
			continue
		}
		idx, b := t.Idx, t.Bound
		cfg := cfgOf(insts[idx], dl)
		cfg.RacySites = t.Racy
		cfg.MinBound, cfg.Bound = b, b
		st := vs.Explore(cfg, insts[idx].Scenario)
		_ = out.Encode(result{Index: idx, Stats: st})
	}
}

// runParent explores in rounds: every instance at bound 0, then every instance
// at bound 1, ... so that a deadline cuts all instances at the same depth.
func runParent(insts []Instance, tier, only string, bound int, dl time.Time) ([]vs.Stats, string) {
	n := runtime.NumCPU()
	if n > len(insts) {
		n = len(insts)
	}
	stats := make([]vs.Stats, len(insts))
	for i := range stats {
		stats[i] = vs.Stats{Instance: insts[i].Name, Outcomes: map[string]int{}, BoundCompleted: -1, Exhaustive: true}
	}
	type task struct{ idx, bound int }
	type wk struct {
		cmd *exec.Cmd
		in  interface{ Write([]byte) (int, error) }
		rd  *bufio.Reader
		cl  func()
	}
	var mu sync.Mutex
	infra := ""
	workers := make([]*wk, 0, n)
	for w := 0; w < n; w++ {
		args := []string{"-tier", tier, "-worker", "-deadline", fmt.Sprint(dl.Unix())}
		if only != "" {
			args = append(args, "-only", only)
		}
		cmd := exec.Command(os.Args[0], args...)
		cmd.Stderr = os.Stderr
		in, _ := cmd.StdinPipe()
		outp, _ := cmd.StdoutPipe()
		if err := cmd.Start(); err != nil {
			return stats, err.Error()
		}
		workers = append(workers, &wk{cmd: cmd, in: in, rd: bufio.NewReaderSize(outp, 1<<20), cl: func() { in.Close() }})
	}
	defer func() {
		for _, w := range workers {
			w.cl()
			_ = w.cmd.Wait()
		}
	}()
	maxBound := 0
	for _, in := range insts {
		if in.Bound > maxBound {
			maxBound = in.Bound
		}
	}
	// racy[i]: library sites of instance i that are scheduling points (race-
	// directed preemption); restarts[i] counts how often the set grew, which
	// sends the instance back to bound 0. stalled[i]: a deadline cut it.
	racy := make([][]string, len(insts))
	restarts := make([]int, len(insts))
	stalled := make([]bool, len(insts))
	_ = maxBound
	for infra == "" {
		// every instance advances by one bound per round, so a deadline cuts all
		// instances at about the same depth (restarted ones lag behind)
		var tasks []task
		for i, in := range insts {
			if !stalled[i] && len(stats[i].Failures) == 0 && stats[i].BoundCompleted < in.Bound {
				tasks = append(tasks, task{i, stats[i].BoundCompleted + 1})
			}
		}
		if len(tasks) == 0 {
			break
		}
		work := make(chan task, len(tasks))
		for _, t := range tasks {
			work <- t
		}
		close(work)
		var wg sync.WaitGroup
		for _, w := range workers {
			w := w
			wg.Add(1)
			go func() {
				defer wg.Done()
				for t := range work {
					mu.Lock()
					msg, _ := json.Marshal(taskMsg{Idx: t.idx, Bound: t.bound, Racy: racy[t.idx]})
					mu.Unlock()
					fmt.Fprintf(w.in, "%s\n", msg)
					line, err := w.rd.ReadBytes('\n')
					var res result
					if err != nil || json.Unmarshal(line, &res) != nil {
						mu.Lock()
						infra = fmt.Sprintf("worker died on instance %s (bound %d): %v", insts[t.idx].Name, t.bound, err)
						mu.Unlock()
						return
					}
					mu.Lock()
					st := &stats[res.Index]
					r := res.Stats
					if len(r.NewRacy) > 0 && r.Infra == "" {
						// new unordered library accesses: they become scheduling points and
						// the instance starts over (what was explored without them is dropped)
						racy[res.Index] = append(racy[res.Index], r.NewRacy...)
						sort.Strings(racy[res.Index])
						restarts[res.Index]++
						if restarts[res.Index] > 12 {
							infra = fmt.Sprintf("%s: the set of racy sites did not stabilise after 12 restarts", insts[res.Index].Name)
						}
						*st = vs.Stats{Instance: insts[res.Index].Name, Outcomes: map[string]int{}, BoundCompleted: -1, Exhaustive: true}
						mu.Unlock()
						continue
					}
					st.RacySites = len(racy[res.Index])
					st.Executions += r.Executions
					st.Steps += r.Steps
					if r.States > st.States {
						st.States = r.States
					}
					st.Distinct += r.Distinct
					st.SpinCuts += r.SpinCuts
					if r.MaxSteps > st.MaxSteps {
						st.MaxSteps = r.MaxSteps
					}
					for k, v := range r.Outcomes {
						st.Outcomes[k] += v
					}
					st.Failures = append(st.Failures, r.Failures...)
					if r.BoundCompleted == t.bound {
						st.BoundCompleted = t.bound
					} else if len(r.Failures) == 0 {
						stalled[res.Index] = true
					}
					if r.Infra != "" {
						infra = r.Instance + ": " + r.Infra
					}
					mu.Unlock()
				}
			}()
		}
		wg.Wait()
		if time.Now().After(dl) {
			break
		}
	}
	for i, in := range insts {
		if len(stats[i].Failures) == 0 && stats[i].BoundCompleted < in.Bound {
			stats[i].Exhaustive = false
		}
	}
	return stats, infra
}

func merge(r *rep.Report, o Options, insts []Instance, stats []vs.Stats) {
	outcomes := map[string]int{}
	minBound := 1 << 30
	exhaustive := true
	execs, steps, states, distinct, spins := 0, 0, 0, 0, 0
	incomplete := []string{}
	for i, st := range stats {
		execs += st.Executions
		steps += st.Steps
		states += st.States
		distinct += st.Distinct
		spins += st.SpinCuts
		for k, v := range st.Outcomes {
			outcomes[k] += v
		}
		if len(st.Failures) == 0 {
			if st.BoundCompleted < minBound {
				minBound = st.BoundCompleted
			}
			if !st.Exhaustive {
				exhaustive = false
				incomplete = append(incomplete, fmt.Sprintf("%s(bound %d of %d)", insts[i].Name, st.BoundCompleted, insts[i].Bound))
			}
		}
		for _, f := range st.Failures {
			sig := insts[i].Group + "/" + f.Tag
			r.Violation(sig, map[string]any{"failure": f, "replay_cmd": fmt.Sprintf("./check %s %s -replay <this file>", o.Property, r.Tier)})
		}
		if i < 4 || (i%97 == 0 && i < 1000) {
			r.Sample(map[string]any{"instance": st.Instance, "executions": st.Executions, "bound_completed": st.BoundCompleted, "outcomes": st.Outcomes})
		}
	}
	if minBound == 1<<30 {
		minBound = -1
	}
	names := make([]string, 0, len(outcomes))
	for k := range outcomes {
		names = append(names, k)
	}
	sort.Strings(names)
	r.Add("evaluations", execs)
	r.Add("transitions", steps)
	r.Add("states", states)
	r.Add("distinct_nontrivial", distinct)
	r.Add("instances", len(insts))
	r.Set("max_bound_completed_all_instances", minBound)
	r.Set("outcomes", outcomes)
	r.Set("spin_cuts", spins)
	racySites, racyInst := 0, 0
	for _, st := range stats {
		if st.RacySites > 0 {
			racySites += st.RacySites
			racyInst++
		}
	}
	if o.RacePoints {
		r.Set("race_directed_points", map[string]int{"instances_with_racy_library_sites": racyInst, "sites_made_scheduling_points": racySites})
	}
	if prev, ok := r.Coverage["exhaustive"].(bool); ok {
		exhaustive = exhaustive && prev
	}
	r.Set("exhaustive", exhaustive)
	if len(incomplete) > 0 {
		if len(incomplete) > 20 {
			incomplete = append(incomplete[:20], fmt.Sprintf("... %d more", len(incomplete)-20))
		}
		r.Set("incomplete_instances", incomplete)
	}
	rule := o.Rule
	if rule == "" {
		rule = "every schedule of each closed scenario instance with at most `bound` deviations (running another thread than the fair round-robin default, descheduling the default thread until nothing else can run (freeze), or a non-first ready select case), bounds iterated from 0; evaluations = executions; distinct_nontrivial = distinct visible-step sequences in which at least two threads were simultaneously enabled (real contention); states = distinct hashes of visible-step prefixes"
	}
	if prev, ok := r.Coverage["rule"].(string); ok && prev != "" {
		rule = prev + " || " + rule
	}
	r.Set("rule", rule)
}

func doReplay(insts []Instance, file string) int {
	body, err := os.ReadFile(file)
	if err != nil {
		fmt.Fprintln(os.Stderr, err)
		return 2
	}
	var doc struct {
		Replay struct {
			Failure vs.Failure `json:"failure"`
		} `json:"replay"`
	}
	if err := json.Unmarshal(body, &doc); err != nil {
		fmt.Fprintln(os.Stderr, err)
		return 2
	}
	f := doc.Replay.Failure
	for _, in := range insts {
		if in.Name != f.Instance {
			continue
		}
		cfg := cfgOf(in, time.Time{})
		cfg.NoSpin = true
		cfg.RacySites = f.RacySites
		trace, end, tag, detail := vs.Replay(cfg, in.Scenario, f.Choices)
		for i, s := range trace {
			fmt.Printf("%4d %s\n", i, s)
		}
		fmt.Printf("end: %s stuck=[%s] panics=%v races=%d\n", end.Status, end.StuckSites(), end.Panics, len(end.Races))
		fmt.Printf("verdict: tag=%q detail=%s\n", tag, detail)
		if tag != "" {
			return 1
		}
		return 0
	}
	fmt.Fprintln(os.Stderr, "instance not found:", f.Instance)
	return 2
}
