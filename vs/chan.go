package vs

// Model of Go channels. A channel operation is enabled iff it can complete:
// buffer room/data, closed, or (unbuffered) a counterpart pending on another
// thread. An unbuffered rendezvous is one atomic step that completes both
// sides. When several select cases are ready the choice is an explored branch.

type item struct {
	v  any
	vc VC
}

type chanCore struct {
	obj     *Obj
	cap     int
	buf     []item
	closed  bool
	closeVC VC
	rvc     []VC // clock of the k-th buffered receive (k-th recv happens-before (k+cap)-th send)
	sends   int
}

// Chan is the instrumented replacement of `chan T` (all directions).
type Chan[T any] struct{ c chanCore }

// MakeChan is make(chan T, n).
func MakeChan[T any](n ...int) *Chan[T] {
	ch := &Chan[T]{}
	if len(n) > 0 {
		if n[0] < 0 {
			panic("makechan: size out of range")
		}
		ch.c.cap = n[0]
	}
	ch.c.obj = newObj("chan")
	ch.c.obj.State = ch.c.state
	return ch
}

func (ch *Chan[T]) core() *chanCore {
	if ch == nil {
		return nil
	}
	return &ch.c
}

type selCase struct {
	c    *chanCore
	send bool
	val  any
	ok   bool
}

type selState struct {
	cases []*selCase
	done  bool // completed by the counterpart
	idx   int
}

func (c *chanCore) partner(t *thread, wantSend bool) (*thread, int) {
	if X == nil {
		return nil, 0
	}
	n := len(X.threads)
	for i := 1; i < n; i++ {
		p := X.threads[(t.id+i)%n]
		if p.done || p.sel == nil || p.sel.done {
			continue
		}
		for k, sc := range p.sel.cases {
			if sc.c == c && sc.send == wantSend {
				return p, k
			}
		}
	}
	return nil, 0
}

func (sc *selCase) ready(t *thread) bool {
	c := sc.c
	if c == nil {
		return false
	}
	if sc.send {
		if c.closed || len(c.buf) < c.cap {
			return true
		}
		if c.cap == 0 {
			p, _ := c.partner(t, false)
			return p != nil
		}
		return false
	}
	if len(c.buf) > 0 || c.closed {
		return true
	}
	if c.cap == 0 {
		p, _ := c.partner(t, true)
		return p != nil
	}
	return false
}

// perform executes case sc of the running thread t (which must be ready).
func (sc *selCase) perform(t *thread) {
	c := sc.c
	if sc.send {
		if c.closed {
			panic(chanPanic("send on closed channel"))
		}
		if c.cap == 0 {
			p, k := c.partner(t, false)
			p.sel.done, p.sel.idx = true, k
			p.sel.cases[k].val, p.sel.cases[k].ok = sc.val, true
			j := t.vc.clone().join(p.vc)
			t.vc = j.clone().tick(t.id)
			p.vc = j.tick(p.id)
			return
		}
		s := c.sends
		c.sends++
		if k := s - c.cap; k >= 0 && k < len(c.rvc) {
			AcquireVC(c.rvc[k])
		}
		c.buf = append(c.buf, item{sc.val, SnapshotVC()})
		return
	}
	if len(c.buf) > 0 {
		it := c.buf[0]
		c.buf = c.buf[1:]
		sc.val, sc.ok = it.v, true
		AcquireVC(it.vc)
		c.rvc = append(c.rvc, SnapshotVC())
		return
	}
	if c.closed {
		sc.val, sc.ok = nil, false
		AcquireVC(c.closeVC)
		return
	}
	p, k := c.partner(t, true)
	p.sel.done, p.sel.idx = true, k
	sc.val, sc.ok = p.sel.cases[k].val, true
	j := t.vc.clone().join(p.vc)
	t.vc = j.clone().tick(t.id)
	p.vc = j.tick(p.id)
}

type chanPanic string

func (p chanPanic) Error() string  { return string(p) }
func (p chanPanic) RuntimeError()  {}
func (p chanPanic) String() string { return string(p) }

// doSelect runs a (possibly single-case) channel operation; returns the index
// of the case performed, -1 for default.
func doSelect(kind Kind, hasDefault bool, cases []*selCase) int {
	x := X
	if x == nil {
		// unmanaged: single threaded semantics
		for i, sc := range cases {
			if sc.ready(nil) {
				sc.perform(nil)
				return i
			}
		}
		if hasDefault {
			return -1
		}
		panic("vs: channel operation would block outside a managed execution")
	}
	t := x.cur
	if t.abort {
		return -1
	}
	st := &selState{cases: cases}
	t.sel = st
	var obj *Obj
	for _, sc := range cases {
		if sc.c != nil {
			obj = sc.c.obj
			break
		}
	}
	Point(kind, obj, func() bool {
		if st.done || hasDefault {
			return true
		}
		for _, sc := range cases {
			if sc.ready(t) {
				return true
			}
		}
		return false
	})
	t.sel = nil
	if t.abort {
		return -1
	}
	if st.done {
		return st.idx
	}
	var ready []int
	for i, sc := range cases {
		if sc.ready(t) {
			ready = append(ready, i)
		}
	}
	if len(ready) == 0 {
		return -1
	}
	i := ready[Choose(len(ready))]
	cases[i].perform(t)
	return i
}

func conv[T any](v any) T {
	if v == nil {
		var z T
		return z
	}
	return v.(T)
}

// Send is `ch <- v`.
func (ch *Chan[T]) Send(v T) {
	doSelect(KSend, false, []*selCase{{c: ch.core(), send: true, val: v}})
}

// Recv is `<-ch`.
func (ch *Chan[T]) Recv() T {
	sc := &selCase{c: ch.core()}
	doSelect(KRecv, false, []*selCase{sc})
	return conv[T](sc.val)
}

// Recv2 is `v, ok := <-ch`.
func (ch *Chan[T]) Recv2() (T, bool) {
	sc := &selCase{c: ch.core()}
	doSelect(KRecv, false, []*selCase{sc})
	return conv[T](sc.val), sc.ok
}

// Close is close(ch).
func (ch *Chan[T]) Close() {
	c := ch.core()
	var o *Obj
	if c != nil {
		o = c.obj
	}
	Point(KClose, o, nil)
	if Aborting() {
		return
	}
	if c == nil {
		panic(chanPanic("close of nil channel"))
	}
	if c.closed {
		panic(chanPanic("close of closed channel"))
	}
	c.closed = true
	c.closeVC = SnapshotVC()
}

// Len is len(ch).
func (ch *Chan[T]) Len() int {
	c := ch.core()
	if c == nil {
		return 0
	}
	Point(KChanLen, c.obj, nil)
	return len(c.buf)
}

// Cap is cap(ch).
func (ch *Chan[T]) Cap() int {
	if ch == nil {
		return 0
	}
	return ch.c.cap
}

// State for the spin detector.
func (c *chanCore) state() uint64 {
	s := uint64(len(c.buf)) << 1
	if c.closed {
		s |= 1
	}
	return s
}

// Case is one case of a select statement.
type Case interface{ sc() *selCase }

// RecvC is a receive case; Val/Ok are valid after Select returned its index.
type RecvC[T any] struct{ s selCase }

func (r *RecvC[T]) sc() *selCase { return &r.s }
func (r *RecvC[T]) Val() T       { return conv[T](r.s.val) }
func (r *RecvC[T]) Ok() bool     { return r.s.ok }

// SendC is a send case.
type SendC struct{ s selCase }

func (r *SendC) sc() *selCase { return &r.s }

// RecvCase builds `case <-ch`.
func RecvCase[T any](ch *Chan[T]) *RecvC[T] { return &RecvC[T]{s: selCase{c: ch.core()}} }

// SendCase builds `case ch <- v`.
func SendCase[T any](ch *Chan[T], v T) *SendC {
	return &SendC{s: selCase{c: ch.core(), send: true, val: v}}
}

// Select performs a select statement; returns the index of the case taken or
// -1 for default.
func Select(hasDefault bool, cases ...Case) int {
	scs := make([]*selCase, len(cases))
	for i, c := range cases {
		scs[i] = c.sc()
	}
	return doSelect(KSelect, hasDefault, scs)
}
