// Package time is the model of package time used by instrumented builds: the
// pure parts are re-exported, the clock is virtual and timers fire only when
// no thread is enabled.
package time

import (
	stdtime "time"

	"verif/vs"
)

type (
	Duration = stdtime.Duration
	Time     = stdtime.Time
	Month    = stdtime.Month
	Weekday  = stdtime.Weekday
	Location = stdtime.Location
)

const (
	Nanosecond  = stdtime.Nanosecond
	Microsecond = stdtime.Microsecond
	Millisecond = stdtime.Millisecond
	Second      = stdtime.Second
	Minute      = stdtime.Minute
	Hour        = stdtime.Hour

	RFC3339     = stdtime.RFC3339
	RFC3339Nano = stdtime.RFC3339Nano
	RFC822      = stdtime.RFC822
	Kitchen     = stdtime.Kitchen
)

var UTC = stdtime.UTC

func Now() Time                                { return vs.VNow() }
func Since(t Time) Duration                    { return vs.VNow().Sub(t) }
func Until(t Time) Duration                    { return t.Sub(vs.VNow()) }
func Unix(sec, nsec int64) Time                { return stdtime.Unix(sec, nsec) }
func ParseDuration(s string) (Duration, error) { return stdtime.ParseDuration(s) }
func Date(y int, m Month, d, h, mi, s, ns int, loc *Location) Time {
	return stdtime.Date(y, m, d, h, mi, s, ns, loc)
}

// Timer is time.Timer.
type Timer struct {
	C *vs.Chan[Time]
	t *vs.Timer
}

func NewTimer(d Duration) *Timer {
	tm := &Timer{C: vs.MakeChan[Time](1)}
	tm.t = vs.NewTimerFunc(d, func() { vs.SendNB(tm.C, vs.VNow()) })
	return tm
}

func (t *Timer) Stop() bool            { return t.t.Stop() }
func (t *Timer) Reset(d Duration) bool { return t.t.Reset(d) }

func After(d Duration) *vs.Chan[Time] { return NewTimer(d).C }

func AfterFunc(d Duration, f func()) *Timer {
	tm := &Timer{}
	tm.t = vs.NewTimerFunc(d, func() { vs.SpawnFromTimer("time.AfterFunc", f) })
	return tm
}

func Sleep(d Duration) { After(d).Recv() }

// Ticker is time.Ticker.
type Ticker struct {
	C *vs.Chan[Time]
	t *vs.Timer
	d Duration
}

func NewTicker(d Duration) *Ticker {
	tk := &Ticker{C: vs.MakeChan[Time](1), d: d}
	tk.t = vs.NewTimerFunc(d, func() { vs.SendNB(tk.C, vs.VNow()); tk.t.Reset(tk.d) })
	return tk
}

func (t *Ticker) Stop()            { t.t.Stop() }
func (t *Ticker) Reset(d Duration) { t.d = d; t.t.Reset(d) }
