// Package vs is the runtime model of Go's concurrency primitives together with
// a controlled scheduler. All managed goroutines ("threads") are real
// goroutines but exactly one runs at a time; a thread stops at a point
// immediately before each visible operation and the explorer decides who
// proceeds. See DESIGN.md §2.2/§2.3.
package vs

import (
	"fmt"
	"os"
	"runtime"
	"strings"
	"time"
)

// Kind of a visible operation (for traces and signatures).
type Kind uint8

const (
	KStart Kind = iota
	KLock
	KUnlock
	KRLock
	KRUnlock
	KCondWait
	KCondWake
	KSignal
	KBroadcast
	KOnce
	KWGAdd
	KWGWait
	KAtomic
	KSend
	KRecv
	KClose
	KSelect
	KCancel
	KCtxErr
	KSleep
	KPool
	KMap
	KYield
	KJoin
	KChanLen
	KQuiesce
	KAccess
)

var kindNames = [...]string{"start", "lock", "unlock", "rlock", "runlock", "cond.wait", "cond.wake", "signal", "broadcast",
	"once", "wg.add", "wg.wait", "atomic", "send", "recv", "close", "select", "cancel", "ctx.err", "sleep", "pool", "map", "yield", "join", "chan.len", "quiesce", "access"}

func (k Kind) String() string { return kindNames[k] }

// Status of a finished execution.
type Status int

const (
	Clean   Status = iota // every thread returned
	Stuck                 // no enabled thread, some threads parked
	Horizon               // step horizon exceeded (livelock / non-termination)
	Spin                  // infinite fair cycle detected (accelerated Horizon)
)

func (s Status) String() string { return [...]string{"clean", "stuck", "horizon", "spin"}[s] }

type thread struct {
	id      int
	name    string
	wake    chan struct{}
	done    bool
	abort   bool
	kind    Kind        // pending op
	obj     *Obj        // pending object (may be nil)
	en      func() bool // pending enabledness (nil = always)
	sel     *selState   // pending channel operation (send/recv/select)
	vc      VC
	parked  string // site where the thread was found parked (filled at abort)
	joiners int
	lastRun int
	endStep int // step count when the thread finished (0: did not finish)
	frozen  bool // descheduled by a freeze deviation until nothing else can run
}

// Obj is the identity of a synchronisation object inside one execution.
type Obj struct {
	id    int
	kind  string
	vc    VC
	State func() uint64 // scheduler-visible state (spin detector); may be nil
}

// ThreadInfo describes a thread that did not finish.
type ThreadInfo struct {
	ID   int
	Name string
	Op   string // kind of the operation it is parked in
	Site string // innermost non-runtime function on its stack
}

// PanicInfo is a panic that escaped a thread.
type PanicInfo struct {
	Thread int
	Name   string
	Value  string
	Site   string
}

// RaceInfo is one happens-before race.
type RaceInfo struct {
	Addr      uintptr
	A, B      string // "W site" / "R site"
	Signature string
	// SiteA, SiteB: "function(file:line)" of the two accesses; LibA, LibB: the
	// access is in library code.
	SiteA, SiteB string
	LibA, LibB   bool
	// Lib: both accesses are in library code (not in the harness or in a user
	// function the harness handed to the library).
	Lib bool
}

type pointRec struct {
	n       int  // number of options
	chosen  int  // option taken
	preempt bool // option 0 was "keep running the current thread" (alternatives cost a deviation)
	sel     bool // select-case choice (alternatives cost a deviation)
	sig     uint64
}

// Exec is one controlled execution.
type Exec struct {
	threads    []*thread
	cur        *thread
	prefix     []int
	points     []pointRec
	steps      int
	horizon    int
	status     Status
	end        chan struct{}
	ack        chan struct{}
	aborting   bool
	objs       int
	panics     []PanicInfo
	races      []RaceInfo
	raceSeen   map[string]bool
	trace      []string // only when tracing
	tracing    bool
	hash       uint64 // rolling hash of (thread,kind,obj) steps
	statesFn   func(uint64)
	timers     []*Timer
	now        time.Time
	lastProg   int
	sigSeen    map[uint64]int
	sigStep    map[uint64]int
	spinOff    bool
	shadow     map[uintptr]*shadow
	raceOn     bool
	contended  bool
	forced     int
	freeForced bool
	objList    []*Obj
	quiet      bool // a spin cycle (or true quiescence) lets Quiesce() proceed
	nondet     string
	// racySites: plain accesses at these source sites (library code found racing in an
	// earlier pass over the same instance) are scheduling points; racyPC caches
	// the per-pc decision.
	racySites map[string]bool
	racyPC    map[uintptr]bool
	racyFound map[string]bool // library sites seen in a race during this execution
	raceAll   bool            // harness sites are eligible as racy sites too (litmus suite)
	freezeOn   bool // offer the freeze deviation at scheduling points
	nfrozen    int
	frozeAt    int // step of the oldest outstanding freeze
}

// cur execution (exactly one managed thread runs at a time, so a global is the
// goroutine-local state).
var X *Exec

// Managed reports whether the caller runs inside a controlled execution.
func Managed() bool { return X != nil }

func newObj(kind string) *Obj {
	if X == nil {
		return &Obj{kind: kind}
	}
	X.objs++
	o := &Obj{id: X.objs, kind: kind}
	X.objList = append(X.objList, o)
	return o
}

// NewObj registers a synchronisation object (used by the shim packages).
func NewObj(kind string) *Obj { return newObj(kind) }

// ID is the ordinal of the object inside its execution.
func (o *Obj) ID() int {
	if o == nil {
		return 0
	}
	return o.id
}

func (x *Exec) mix(a, b, c int) {
	h := x.hash
	h ^= uint64(a)*0x9E3779B97F4A7C15 + uint64(b)*0xC2B2AE3D27D4EB4F + uint64(c)*0x165667B19E3779F9
	h *= 0x100000001B3
	h ^= h >> 29
	x.hash = h
}

// Point is a scheduling point: the calling thread is about to perform the
// visible operation (kind, obj) which can execute iff en() (nil: always).
// When Point returns the operation is enabled and the caller must perform it
// without another Point in between.
func Point(kind Kind, obj *Obj, en func() bool) {
	x := X
	if x == nil {
		if en != nil && !en() {
			panic(fmt.Sprintf("vs: %v would block outside a managed execution", kind))
		}
		return
	}
	t := x.cur
	if t.abort {
		return // unwinding: every operation is a non-blocking no-op
	}
	t.kind, t.obj, t.en = kind, obj, en
	x.reschedule(t)
	t.en = nil
	if t.abort {
		t.parked = site()
		runtime.Goexit()
	}
	x.steps++
	t.lastRun = x.steps
	x.mix(t.id, int(kind), obj.ID())
	if x.statesFn != nil {
		x.statesFn(x.hash)
	}
	if x.tracing {
		x.trace = append(x.trace, fmt.Sprintf("%d:%s %s#%d", t.id, t.name, kind, obj.ID()))
	}
}

// Aborting reports whether the calling thread is being unwound (its blocking
// operation was abandoned at the end of a stuck execution).
func Aborting() bool { return X != nil && X.cur != nil && X.cur.abort }

func (t *thread) enabled() bool {
	if t.done {
		return false
	}
	return t.en == nil || t.en()
}

// reschedule picks the next thread to run; t is the caller (parked at a point
// or finished). It returns when t is resumed (never, if t is done).
func (x *Exec) reschedule(t *thread) {
	if x.steps > x.horizon || len(x.threads) > maxThreads {
		// (a loop that starts a goroutine per iteration is cut by the thread
		// count long before the step horizon: every managed thread is a real
		// goroutine with a vector clock)
		x.finish(Horizon, t)
		return
	}
	for {
		opts := x.options(t)
		if x.nfrozen > 0 && (len(opts) == 0 || x.steps-x.frozeAt > freezeHorizon) {
			// nothing else can run (or the others have had freezeHorizon steps):
			// the descheduled threads come back; timers never beat computation.
			x.unfreeze()
			continue
		}
		if len(opts) == 0 {
			if x.fireTimer() {
				continue
			}
			st := Clean
			for _, o := range x.threads {
				if !o.done {
					st = Stuck
				}
			}
			x.finish(st, t)
			return
		}
		selfFirst := opts[0] == t
		idx := 0
		if len(opts) > 1 {
			n := len(opts)
			if x.freezeOn {
				// one more alternative: deschedule the default thread until
				// nothing else can run, and continue with the next one.
				idx = x.choose(n+1, selfFirst || !x.freeForced, false)
				if idx == n {
					if x.nfrozen == 0 {
						x.frozeAt = x.steps
						x.sigSeen, x.sigStep = nil, nil
					}
					opts[0].frozen = true
					x.nfrozen++
					if x.tracing {
						x.trace = append(x.trace, fmt.Sprintf("-- freeze %d:%s (descheduled until nothing else can run)", opts[0].id, opts[0].name))
					}
					idx = 1
					selfFirst = false
				}
			} else {
				idx = x.choose(n, selfFirst || !x.freeForced, false)
			}
			x.contended = true
		}
		next := opts[idx]
		if !selfFirst {
			x.forced++
			if (!x.spinOff || x.nfrozen > 0 || len(x.timers) > 0) && x.spinCheck() {
				if x.nfrozen > 0 {
					// the unfrozen threads only spin: they wait for a frozen one
					x.unfreeze()
					continue
				}
				if q := x.quiescer(); q != nil && !x.spinOff {
					// the other threads only spin: this is quiescence for the harness
					x.quiet = true
					x.sigSeen, x.sigStep = nil, nil
					x.lastProg = x.steps
					next = q
				} else if q == nil && x.fireTimer() {
					// threads that only spin let time pass: the earliest timer fires
					// (model time otherwise advances only when nothing is enabled, and
					// two waiters that wake each other are always enabled)
					x.sigSeen, x.sigStep = nil, nil
					x.lastProg = x.steps
					continue
				} else if !x.spinOff {
					x.finish(Spin, t)
					return
				}
			}
		}
		if next == t {
			return
		}
		x.cur = next
		next.wake <- struct{}{}
		if t.done {
			return
		}
		<-t.wake
		return
	}
}

// maxThreads: an execution that has started more goroutines than this is
// treated like one that exceeded the step horizon (non-termination).
const maxThreads = 1200

// freezeHorizon bounds how long (in visible steps of the other threads) a
// frozen thread stays descheduled; deterministic, so replays agree.
const freezeHorizon = 3000

func (x *Exec) unfreeze() {
	for _, o := range x.threads {
		o.frozen = false
	}
	x.nfrozen = 0
	x.sigSeen, x.sigStep = nil, nil
}

// options returns the enabled threads in canonical order: the running thread
// first if it is still enabled, then the others in cyclic id order after it.
// Frozen threads are left out.
func (x *Exec) options(t *thread) []*thread {
	var opts []*thread
	if t.enabled() && !t.frozen {
		opts = append(opts, t)
	}
	n := len(x.threads)
	for i := 1; i <= n; i++ {
		o := x.threads[(t.id+i)%n]
		if o != t && !o.frozen && o.enabled() {
			opts = append(opts, o)
		}
	}
	return opts
}

// choose records a choice point with n options and returns the option taken:
// the replayed one inside the prefix, option 0 afterwards.
func (x *Exec) choose(n int, preempt, sel bool) int {
	i := len(x.points)
	c := 0
	if i < len(x.prefix) {
		c = x.prefix[i]
		if c >= n {
			x.nondet = fmt.Sprintf("choice %d at point %d out of range (%d options): nondeterminism not captured", c, i, n)
			c = 0
		}
	}
	x.points = append(x.points, pointRec{n: n, chosen: c, preempt: preempt, sel: sel, sig: x.hash})
	if x.tracing {
		x.trace = append(x.trace, fmt.Sprintf("-- choice point %d: %d options, took %d", i, n, c))
	}
	return c
}

// Choose lets a shim (select) or a harness (environment answer) branch on an
// n-way choice; alternatives other than 0 cost one deviation.
func Choose(n int) int {
	if X == nil || n <= 1 || X.cur.abort {
		return 0
	}
	return X.choose(n, false, true)
}

// finish ends the execution from thread t's point of view: the explorer takes
// over and t parks (it is woken again only to be unwound).
func (x *Exec) finish(st Status, t *thread) {
	x.status = st
	x.aborting = true
	x.end <- struct{}{}
	if t.done {
		return
	}
	<-t.wake
}

// Go starts a managed thread.
func Go(f func()) {
	x := X
	if x == nil {
		go f()
		return
	}
	if x.cur.abort {
		return
	}
	x.spawn(f, "")
}

// GoNamed starts a managed thread with a name used in reports.
func GoNamed(name string, f func()) {
	x := X
	if x == nil {
		go f()
		return
	}
	if x.cur.abort {
		return
	}
	x.spawn(f, name)
}

func (x *Exec) spawn(f func(), name string) *thread {
	t := &thread{id: len(x.threads), name: name, wake: make(chan struct{}, 1), kind: KStart}
	if name == "" {
		t.name = spawnSite()
	}
	if x.cur != nil {
		t.vc = x.cur.vc.clone()
		x.cur.vc = x.cur.vc.tick(x.cur.id)
	}
	t.vc = t.vc.tick(t.id)
	x.threads = append(x.threads, t)
	go func() {
		<-t.wake
		defer x.exit(t)
		if t.abort {
			return
		}
		t.en = nil
		f()
	}()
	return t
}

func (x *Exec) exit(t *thread) {
	if r := recover(); r != nil && !t.abort {
		x.panics = append(x.panics, PanicInfo{Thread: t.id, Name: t.name, Value: fmt.Sprint(r), Site: panicSite()})
	}
	t.done = true
	if !t.abort {
		t.endStep = x.steps
	}
	if t.abort {
		x.ack <- struct{}{}
		return
	}
	t.en = nil
	x.reschedule(t)
}

func (x *Exec) quiescer() *thread {
	for _, t := range x.threads {
		if !t.done && t.kind == KQuiesce && t.en != nil {
			return t
		}
	}
	return nil
}

// Quiesce blocks the caller until no other thread can make progress: every
// other thread is finished, blocked, or only spinning in a cycle that changes
// nothing (e.g. two waiters that signal each other before parking again).
func Quiesce() {
	x := X
	if x == nil {
		return
	}
	me := x.cur
	Point(KQuiesce, nil, func() bool {
		if x.quiet {
			return true
		}
		for _, o := range x.threads {
			if o != me && o.enabled() {
				return false
			}
		}
		return len(x.timers) == 0
	})
	x.quiet = false
	Progress()
}

// Yield is an explicit scheduling point (for spin loops in harness code).
func Yield() { Point(KYield, nil, nil) }

// Progress tells the spin detector that something harness-visible happened.
func Progress() {
	if X != nil {
		X.lastProg = X.steps
		X.sigSeen, X.sigStep = nil, nil
	}
}

// Now is the logical time (number of visible steps so far); used as call /
// return timestamps of recorded histories.
func Now() int {
	if X == nil {
		return 0
	}
	return X.steps
}

// ThreadID of the calling managed thread.
func ThreadID() int {
	if X == nil {
		return -1
	}
	return X.cur.id
}

// NumCPU is the environment seam for runtime.NumCPU.
var NumCPUValue = 2

func NumCPU() int { return NumCPUValue }

func site() string {
	pc := make([]uintptr, 48)
	n := runtime.Callers(2, pc)
	fr := runtime.CallersFrames(pc[:n])
	for {
		f, more := fr.Next()
		fn := f.Function
		if fn != "" && !strings.HasPrefix(fn, "verif/vs.") && !strings.HasPrefix(fn, "verif/vs/") && !strings.HasPrefix(fn, "runtime.") {
			if strings.HasPrefix(fn, "main.") || strings.HasPrefix(fn, "verif/") {
				return "harness"
			}
			return shortFn(fn)
		}
		if !more {
			return "?"
		}
	}
}

func panicSite() string {
	pc := make([]uintptr, 64)
	n := runtime.Callers(3, pc)
	fr := runtime.CallersFrames(pc[:n])
	seenPanic := false
	for {
		f, more := fr.Next()
		fn := f.Function
		if fn == "runtime.gopanic" || strings.HasPrefix(fn, "runtime.panic") || fn == "runtime.goPanicIndex" {
			seenPanic = true
		} else if seenPanic && fn != "" && !strings.HasPrefix(fn, "runtime.") && !strings.HasPrefix(fn, "verif/vs.") {
			return shortFn(fn)
		}
		if !more {
			return "?"
		}
	}
}

func spawnSite() string {
	pc := make([]uintptr, 16)
	n := runtime.Callers(3, pc)
	fr := runtime.CallersFrames(pc[:n])
	for {
		f, more := fr.Next()
		fn := f.Function
		if fn != "" && !strings.HasPrefix(fn, "verif/vs.") && !strings.HasPrefix(fn, "runtime.") {
			return "go@" + shortFn(fn)
		}
		if !more {
			return "go@?"
		}
	}
}

func shortFn(fn string) string {
	fn = strings.TrimPrefix(fn, "github.com/tychoish/fun/")
	fn = strings.TrimPrefix(fn, "github.com/tychoish/")
	// drop generic instantiation noise: pkg.(*T[...]).m -> pkg.(*T).m
	for {
		i := strings.Index(fn, "[")
		if i < 0 {
			break
		}
		depth, j := 0, i
		for ; j < len(fn); j++ {
			if fn[j] == '[' {
				depth++
			} else if fn[j] == ']' {
				depth--
				if depth == 0 {
					break
				}
			}
		}
		if j >= len(fn) {
			break
		}
		fn = fn[:i] + fn[j+1:]
	}
	return fn
}

// fatal reports an infrastructure error (never a verdict) and exits 2.
func fatal(format string, args ...any) {
	fmt.Fprintf(os.Stderr, "vs: FATAL: "+format+"\n", args...)
	os.Exit(2)
}
