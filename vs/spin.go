package vs

// spinCheck is evaluated at forced switches (the running thread blocked or
// ended). It returns true when the scheduler-visible state has recurred
// without any progress in between, i.e. the execution is an infinite fair
// cycle of wake-ups that change nothing. Progress is: a harness Progress()
// call, an instrumented plain write, or any change of the visible state.
// Spin verdicts are never reported without being confirmed against the plain
// step horizon (explore.go confirm).
func (x *Exec) spinCheck() bool {
	if x.steps-x.lastProg < 12 {
		return false
	}
	h := uint64(1469598103934665603)
	for _, t := range x.threads {
		v := uint64(t.id)<<8 | uint64(t.kind)
		if t.done {
			v |= 1 << 40
		}
		v ^= uint64(t.obj.ID()) << 16
		if !t.done && (t.en == nil || t.en()) {
			v |= 1 << 41
		}
		h = (h ^ v) * 1099511628211
	}
	for _, o := range x.objList {
		if o.State != nil {
			h = (h ^ o.State() ^ uint64(o.id)<<32) * 1099511628211
		}
	}
	if x.sigSeen == nil {
		x.sigSeen = map[uint64]int{}
		x.sigStep = map[uint64]int{}
	}
	// fairness: a recurrence only counts if every thread that is enabled now
	// has run since the previous occurrence (otherwise the repetition is an
	// artefact of scheduling choices that starve an enabled thread).
	prev, seen := x.sigStep[h]
	x.sigStep[h] = x.steps
	if seen {
		for _, t := range x.threads {
			if !t.done && !t.frozen && (t.en == nil || t.en()) && t.lastRun <= prev {
				x.sigSeen[h] = 1
				return false
			}
		}
	}
	x.sigSeen[h]++
	return x.sigSeen[h] >= 3
}
