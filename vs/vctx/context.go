// Package context is the model of package context used by instrumented
// builds. cancel() is one visible step that marks the context and closes its
// Done channel, followed by one step per descendant (parents are observed
// cancelled before children). Canceled and DeadlineExceeded are the std values.
package context

import (
	stdctx "context"
	"time"

	"verif/vs"
)

var (
	Canceled         = stdctx.Canceled
	DeadlineExceeded = stdctx.DeadlineExceeded
)

// Context mirrors context.Context with the instrumented channel type.
type Context interface {
	Deadline() (deadline time.Time, ok bool)
	Done() *vs.Chan[struct{}]
	Err() error
	Value(key any) any
}

type CancelFunc func()

type emptyCtx struct{}

func (emptyCtx) Deadline() (time.Time, bool) { return time.Time{}, false }
func (emptyCtx) Done() *vs.Chan[struct{}]    { return nil }
func (emptyCtx) Err() error                  { return nil }
func (emptyCtx) Value(any) any               { return nil }

var background = emptyCtx{}

func Background() Context { return background }
func TODO() Context       { return background }

type cancelCtx struct {
	parent   Context
	obj      *vs.Obj
	done     *vs.Chan[struct{}]
	err      error
	children []*cancelCtx
	deadline time.Time
	hasDL    bool
	timer    *vs.Timer
}

func (c *cancelCtx) Deadline() (time.Time, bool) {
	if c.hasDL {
		return c.deadline, true
	}
	return c.parent.Deadline()
}
func (c *cancelCtx) Done() *vs.Chan[struct{}] { return c.done }
func (c *cancelCtx) Err() error {
	vs.Point(vs.KCtxErr, c.obj, nil)
	if c.err != nil {
		vs.Acquire(c.obj)
	}
	return c.err
}

type ckey int

var selfKey ckey

func (c *cancelCtx) Value(key any) any {
	if key == &selfKey {
		return c
	}
	return c.parent.Value(key)
}

func nearest(parent Context) *cancelCtx {
	p, _ := parent.Value(&selfKey).(*cancelCtx)
	return p
}

func newCancel(parent Context) *cancelCtx {
	if parent == nil {
		panic("cannot create context from nil parent")
	}
	c := &cancelCtx{parent: parent, obj: vs.NewObj("ctx"), done: vs.MakeChan[struct{}]()}
	c.obj.State = func() uint64 {
		if c.err != nil {
			return 1
		}
		return 0
	}
	if p := nearest(parent); p != nil {
		if p.err != nil {
			c.markNoPoint(p.err)
		} else {
			p.children = append(p.children, c)
		}
	}
	return c
}

// markNoPoint marks c (only) as cancelled.
func (c *cancelCtx) markNoPoint(err error) bool {
	if c.err != nil {
		return false
	}
	c.err = err
	vs.Release(c.obj)
	vs.CloseNB(c.done)
	if c.timer != nil {
		c.timer.Stop()
	}
	return true
}

func (c *cancelCtx) detach() {
	if p := nearest(c.parent); p != nil {
		for i, ch := range p.children {
			if ch == c {
				p.children = append(p.children[:i:i], p.children[i+1:]...)
				break
			}
		}
	}
}

// cancel from a thread: one step for c, then one per descendant.
func (c *cancelCtx) cancel(err error, first bool) {
	vs.Point(vs.KCancel, c.obj, nil)
	if vs.Aborting() {
		return
	}
	if !c.markNoPoint(err) {
		return
	}
	kids := c.children
	c.children = nil
	for _, k := range kids {
		k.cancel(err, false)
	}
	if first {
		c.detach()
	}
}

// cancelTree from a timer callback (no points).
func (c *cancelCtx) cancelTree(err error) {
	if !c.markNoPoint(err) {
		return
	}
	kids := c.children
	c.children = nil
	for _, k := range kids {
		k.cancelTree(err)
	}
}

func WithCancel(parent Context) (Context, CancelFunc) {
	c := newCancel(parent)
	return c, func() { c.cancel(Canceled, true) }
}

func WithDeadline(parent Context, d time.Time) (Context, CancelFunc) {
	c := newCancel(parent)
	if cur, ok := parent.Deadline(); ok && cur.Before(d) {
		return c, func() { c.cancel(Canceled, true) }
	}
	c.deadline, c.hasDL = d, true
	if c.err == nil {
		c.timer = vs.NewTimerFunc(d.Sub(vs.VNow()), func() { c.cancelTree(DeadlineExceeded); c.detach() })
	}
	return c, func() { c.cancel(Canceled, true) }
}

func WithTimeout(parent Context, d time.Duration) (Context, CancelFunc) {
	return WithDeadline(parent, vs.VNow().Add(d))
}

type valueCtx struct {
	Context
	key, val any
}

func (v *valueCtx) Value(key any) any {
	if v.key == key {
		return v.val
	}
	return v.Context.Value(key)
}

func WithValue(parent Context, key, val any) Context {
	if parent == nil {
		panic("cannot create context from nil parent")
	}
	if key == nil {
		panic("nil key")
	}
	return &valueCtx{parent, key, val}
}
