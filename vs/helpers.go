package vs

import (
	"fmt"
	"sort"
)

// NoFinalizer replaces runtime.SetFinalizer: finalizers would run library
// code on an unmanaged goroutine.
func NoFinalizer(obj any, finalizer any) {}

// MapKeys returns the keys of m in a canonical order so that map iteration
// is not a hidden source of nondeterminism. It also counts as a read of m.
func MapKeys[M ~map[K]V, K comparable, V any](m M) []K {
	if X != nil && X.raceOn && m != nil && !X.cur.abort {
		X.read(mapAddr[M, K, V](m), callerPC())
	}
	keys := make([]K, 0, len(m))
	for k := range m {
		keys = append(keys, k)
	}
	switch ks := any(keys).(type) {
	case []int:
		sort.Ints(ks)
	case []string:
		sort.Strings(ks)
	default:
		strs := make(map[any]string, len(keys))
		for _, k := range keys {
			strs[k] = fmt.Sprintf("%T:%v", k, k)
		}
		sort.SliceStable(keys, func(i, j int) bool { return strs[keys[i]] < strs[keys[j]] })
	}
	return keys
}

// Unreachable is the value panicked with in the synthetic default clause of a
// rewritten select without default (only reachable while a thread is being
// unwound at the end of a stuck execution).
func Unreachable() any { return "vs: select without default returned no case" }
