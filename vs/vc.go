package vs

import (
	"fmt"
	"runtime"
	"strings"
	"unsafe"
)

// VC is a vector clock indexed by thread id.
type VC []uint32

func (v VC) clone() VC { return append(VC(nil), v...) }

func (v VC) tick(i int) VC {
	for len(v) <= i {
		v = append(v, 0)
	}
	v[i]++
	return v
}

func (v VC) join(o VC) VC {
	for len(v) < len(o) {
		v = append(v, 0)
	}
	for i, c := range o {
		if c > v[i] {
			v[i] = c
		}
	}
	return v
}

func (v VC) at(i int) uint32 {
	if i < len(v) {
		return v[i]
	}
	return 0
}

// Acquire makes everything released on o happen-before the caller's next step.
func Acquire(o *Obj) {
	if X == nil || o == nil || X.cur.abort {
		return
	}
	X.cur.vc = X.cur.vc.join(o.vc)
}

// Release publishes the caller's past on o.
func Release(o *Obj) {
	if X == nil || o == nil || X.cur.abort {
		return
	}
	t := X.cur
	o.vc = o.vc.join(t.vc)
	t.vc = t.vc.tick(t.id)
}

// AcquireVC / ReleaseVC work on a bare clock (per-item clocks in channels).
func AcquireVC(v VC) {
	if X == nil || X.cur.abort {
		return
	}
	X.cur.vc = X.cur.vc.join(v)
}

func SnapshotVC() VC {
	if X == nil || X.cur.abort {
		return nil
	}
	t := X.cur
	v := t.vc.clone()
	t.vc = t.vc.tick(t.id)
	return v
}

// ---- happens-before race oracle (FastTrack-style, address keyed) ----

type access struct {
	tid   int
	clock uint32
	site  string
	pc    uintptr
}

type shadow struct {
	w     access
	hasW  bool
	reads []access // at most one per thread
}

var sink unsafe.Pointer

// Writes counts instrumented plain writes of the current execution (progress
// signal for the spin detector).
func (x *Exec) noteWrite() { x.lastProg = x.steps; x.sigSeen, x.sigStep = nil, nil }

func callerPC() uintptr {
	var pcs [1]uintptr
	runtime.Callers(3, pcs[:])
	return pcs[0]
}

func pcSite(pc uintptr) string {
	fr := runtime.CallersFrames([]uintptr{pc})
	f, _ := fr.Next()
	file := f.File
	if i := strings.LastIndex(file, "/"); i >= 0 {
		file = file[i+1:]
	}
	return fmt.Sprintf("%s(%s:%d)", shortFn(f.Function), file, f.Line)
}

func pcFunc(pc uintptr) string {
	fr := runtime.CallersFrames([]uintptr{pc})
	f, _ := fr.Next()
	return shortFn(f.Function)
}

// accessPoint makes the access at pc a scheduling point when its site is in
// the racy set of this exploration (race-directed preemption: interleavings
// around unsynchronised accesses are explored too, not only around
// synchronisation operations).
func (x *Exec) accessPoint(pc uintptr) {
	if len(x.racySites) == 0 {
		return
	}
	racy, ok := x.racyPC[pc]
	if !ok {
		racy = x.racySites[pcSite(pc)]
		x.racyPC[pc] = racy
	}
	if racy {
		Point(KAccess, nil, nil)
	}
}

// R records a plain read of *p and returns p.
func R[T any](p *T) *T {
	x := X
	if x == nil || !x.raceOn || x.cur.abort {
		return p
	}
	if unsafe.Sizeof(*p) == 0 {
		return p
	}
	sink = unsafe.Pointer(p)
	pc := callerPC()
	x.accessPoint(pc)
	if x.cur.abort {
		return p
	}
	x.read(uintptr(unsafe.Pointer(p)), pc)
	return p
}

// W records a plain write of *p and returns p.
func W[T any](p *T) *T {
	x := X
	if x == nil || x.cur.abort {
		return p
	}
	x.noteWrite()
	if !x.raceOn || unsafe.Sizeof(*p) == 0 {
		return p
	}
	sink = unsafe.Pointer(p)
	pc := callerPC()
	x.accessPoint(pc)
	if x.cur.abort {
		return p
	}
	x.write(uintptr(unsafe.Pointer(p)), pc)
	return p
}

// RW records a read-modify-write (x.f++, x.f += v).
func RW[T any](p *T) *T {
	x := X
	if x == nil || x.cur.abort {
		return p
	}
	x.noteWrite()
	if !x.raceOn || unsafe.Sizeof(*p) == 0 {
		return p
	}
	sink = unsafe.Pointer(p)
	pc := callerPC()
	x.accessPoint(pc)
	if x.cur.abort {
		return p
	}
	x.read(uintptr(unsafe.Pointer(p)), pc)
	x.write(uintptr(unsafe.Pointer(p)), pc)
	return p
}

type mapHeader struct{ p unsafe.Pointer }

func mapAddr[M ~map[K]V, K comparable, V any](m M) uintptr {
	return uintptr((*mapHeader)(unsafe.Pointer(&m)).p)
}

// MR records a read of map m (lookup, len, range) and returns m.
func MR[M ~map[K]V, K comparable, V any](m M) M {
	x := X
	if x == nil || !x.raceOn || m == nil || x.cur.abort {
		return m
	}
	pc := callerPC()
	x.accessPoint(pc)
	if x.cur.abort {
		return m
	}
	x.read(mapAddr[M, K, V](m), pc)
	return m
}

// MW records a write of map m (assignment, delete) and returns m.
func MW[M ~map[K]V, K comparable, V any](m M) M {
	x := X
	if x == nil || m == nil || x.cur.abort {
		return m
	}
	x.noteWrite()
	if !x.raceOn {
		return m
	}
	pc := callerPC()
	x.accessPoint(pc)
	if x.cur.abort {
		return m
	}
	x.write(mapAddr[M, K, V](m), pc)
	return m
}

func (x *Exec) sh(addr uintptr) *shadow {
	s := x.shadow[addr]
	if s == nil {
		s = &shadow{}
		x.shadow[addr] = s
	}
	return s
}

func (x *Exec) read(addr uintptr, pc uintptr) {
	t := x.cur
	s := x.sh(addr)
	if s.hasW && s.w.tid != t.id && s.w.clock > t.vc.at(s.w.tid) {
		x.race(addr, s.w, "W", access{tid: t.id, pc: pc}, "R")
	}
	me := access{tid: t.id, clock: t.vc.at(t.id), pc: pc}
	for i := range s.reads {
		if s.reads[i].tid == t.id {
			s.reads[i] = me
			return
		}
	}
	s.reads = append(s.reads, me)
}

func (x *Exec) write(addr uintptr, pc uintptr) {
	t := x.cur
	s := x.sh(addr)
	if s.hasW && s.w.tid != t.id && s.w.clock > t.vc.at(s.w.tid) {
		x.race(addr, s.w, "W", access{tid: t.id, pc: pc}, "W")
	}
	for _, r := range s.reads {
		if r.tid != t.id && r.clock > t.vc.at(r.tid) {
			x.race(addr, r, "R", access{tid: t.id, pc: pc}, "W")
		}
	}
	s.w = access{tid: t.id, clock: t.vc.at(t.id), pc: pc}
	s.hasW = true
	s.reads = s.reads[:0]
}

func (x *Exec) race(addr uintptr, a access, ak string, b access, bk string) {
	fa, fb := pcFunc(a.pc), pcFunc(b.pc)
	p, q := ak+":"+fa, bk+":"+fb
	if q < p {
		p, q = q, p
	}
	sig := p + "~" + q
	if !harnessFn(fa) || x.raceAll {
		x.racyFound[pcSite(a.pc)] = true
	}
	if !harnessFn(fb) || x.raceAll {
		x.racyFound[pcSite(b.pc)] = true
	}
	if x.raceSeen[sig] {
		return
	}
	x.raceSeen[sig] = true
	x.races = append(x.races, RaceInfo{Addr: addr, A: ak + " " + pcSite(a.pc) + fmt.Sprintf(" [thread %d]", a.tid),
		B: bk + " " + pcSite(b.pc) + fmt.Sprintf(" [thread %d]", b.tid), Signature: sig, Lib: !harnessFn(fa) && !harnessFn(fb),
		SiteA: pcSite(a.pc), SiteB: pcSite(b.pc), LibA: !harnessFn(fa), LibB: !harnessFn(fb)})
}

func harnessFn(fn string) bool {
	return strings.HasPrefix(fn, "main.") || strings.HasPrefix(fn, "verif/")
}
