package vs

import (
	"fmt"
	"runtime"
	"runtime/debug"
	"sort"
	"strings"
	"time"
)

// End is what an oracle sees after one execution.
type End struct {
	Status    Status
	Stuck     []ThreadInfo // threads that did not finish (parked or spinning), excluding none
	Panics    []PanicInfo
	Races     []RaceInfo
	Steps     int
	MainStuck bool // thread 0 (the scenario body) did not return
	// ThreadEnd[id] is the logical time (vs.Now) at which thread id returned,
	// 0 if it never did.
	ThreadEnd []int
}

// LibSites is the sorted set of library functions in which unfinished threads
// are parked (harness frames and anonymous helper goroutines are left out):
// the stable part of a stuck signature.
func (e *End) LibSites() string {
	seen := map[string]bool{}
	var s []string
	for _, t := range e.Stuck {
		site := t.Site
		if site == "harness" || site == "not-started" || site == "?" {
			continue
		}
		if i := strings.LastIndex(site, ".func"); i >= 0 {
			continue
		}
		k := t.Op + "@" + site
		if !seen[k] {
			seen[k] = true
			s = append(s, k)
		}
	}
	sort.Strings(s)
	if len(s) == 0 {
		return "harness-only"
	}
	return strings.Join(s, ",")
}

// LibRace returns the first happens-before race of this execution whose two
// accesses are both inside library code, or nil. Checks that explore under the
// sequential-consistency assumption use it as a side oracle: preemption only
// at synchronisation operations is exhaustive only for race-free executions.
func (e *End) LibRace() *RaceInfo {
	for i := range e.Races {
		if e.Races[i].Lib {
			return &e.Races[i]
		}
	}
	return nil
}

// NonTerminating reports a livelock: step horizon exceeded or an infinite
// fair cycle detected.
func (e *End) NonTerminating() bool { return e.Status == Horizon || e.Status == Spin }

// StuckSites is a stable, sorted summary of where unfinished threads are parked.
func (e *End) StuckSites() string {
	var s []string
	for _, t := range e.Stuck {
		s = append(s, t.Op+"@"+t.Site)
	}
	sort.Strings(s)
	return strings.Join(s, ",")
}

// Scenario builds, for every execution, a fresh body (run as thread 0) and a
// fresh oracle. The oracle returns "" when the property held on this execution
// and otherwise a short stable failure tag (used as the signature tail) plus a
// human readable detail.
type Scenario func() (body func(), check func(e *End) (tag, detail string))

// Config of one exploration.
type Config struct {
	Name     string
	Bound    int // maximum number of deviations (iterated MinBound..Bound)
	MinBound int // first bound of the iteration (rounds are driven by the runner)
	Horizon  int // steps; default 20000
	Race     bool
	Deadline time.Time
	NoSpin   bool
	// FreeForced makes the choice of the next thread free (no deviation) when
	// the running thread blocked or ended (pure preemption bounding). Default:
	// every departure from the fair round-robin default costs one deviation
	// (delay bounding), which keeps bound k small enough to finish.
	FreeForced bool
	// NoFreeze removes the freeze deviation (deschedule the default thread
	// until nothing else can run) from the alternatives of a scheduling point.
	NoFreeze bool
	// RacePoints (needs Race): plain accesses at the sites in RacySites are
	// scheduling points; when an execution finds a race at a library site that
	// is not in RacySites yet the exploration stops and reports the enlarged
	// set in Stats.NewRacy, so that the caller restarts the instance with it.
	RacePoints bool
	RacySites  []string
	// RaceAllSites: accesses in harness code may become racy sites as well
	// (used by the litmus suite, whose bodies are the code under test).
	RaceAllSites bool
}

// Failure is one violating execution.
type Failure struct {
	Instance string   `json:"instance"`
	Tag      string   `json:"tag"`
	Detail   string   `json:"detail"`
	Bound    int      `json:"deviations"`
	Choices  []int    `json:"choices"`
	Trace    []string `json:"trace,omitempty"`
	Status   string   `json:"status"`
	// RacySites: the plain-access sites that were scheduling points in this
	// execution (needed to replay the choices).
	RacySites []string `json:"racy_sites,omitempty"`
}

// Stats of one exploration.
type Stats struct {
	Instance       string         `json:"instance"`
	Executions     int            `json:"executions"`
	Steps          int            `json:"steps"`
	States         int            `json:"states"`
	Distinct       int            `json:"distinct"` // distinct step sequences in which threads really contended
	BoundCompleted int            `json:"bound_completed"`
	Exhaustive     bool           `json:"exhaustive"`
	Outcomes       map[string]int `json:"outcomes"`
	SpinCuts       int            `json:"spin_cuts"`
	MaxSteps       int            `json:"max_steps"`
	Failures       []Failure      `json:"failures,omitempty"`
	Infra          string         `json:"infra,omitempty"`
	// NewRacy: racy library sites discovered that were not scheduling points
	// yet (the statistics of this run are then to be discarded).
	NewRacy   []string `json:"new_racy,omitempty"`
	RacySites int      `json:"racy_sites"` // size of the set this run used
}

type explorer struct {
	cfg      Config
	sc       Scenario
	st       *Stats
	states   map[uint64]struct{}
	traces   map[uint64]struct{}
	failSeen map[string]bool
	bound    int
	timedOut bool
	ndet     string
	racy     map[string]bool // sites used as scheduling points
	newRacy  map[string]bool
}

// Explore runs the scenario under every schedule with at most cfg.Bound
// deviations (iterating the bound) and evaluates the oracle on each.
func Explore(cfg Config, sc Scenario) Stats {
	if cfg.Horizon == 0 {
		cfg.Horizon = 20000
	}
	st := Stats{Instance: cfg.Name, Outcomes: map[string]int{}, BoundCompleted: -1, Exhaustive: true}
	e := &explorer{cfg: cfg, sc: sc, st: &st, states: map[uint64]struct{}{}, traces: map[uint64]struct{}{}, failSeen: map[string]bool{},
		racy: map[string]bool{}, newRacy: map[string]bool{}}
	for _, s := range cfg.RacySites {
		e.racy[s] = true
	}
	st.RacySites = len(e.racy)
	if cfg.Race {
		// addresses identify memory in the race oracle: no collection (hence no
		// reuse) during an execution; collect explicitly between executions.
		old := debug.SetGCPercent(-1)
		defer debug.SetGCPercent(old)
	}
	for b := cfg.MinBound; b <= cfg.Bound; b++ {
		e.bound = b
		e.explore(nil, 0)
		if len(e.newRacy) > 0 {
			for s := range e.newRacy {
				st.NewRacy = append(st.NewRacy, s)
			}
			sort.Strings(st.NewRacy)
			st.Exhaustive = false
			st.Failures = nil
			break
		}
		if e.ndet != "" {
			st.Infra = e.ndet
			st.Exhaustive = false
			break
		}
		if e.timedOut {
			st.Exhaustive = false
			break
		}
		st.BoundCompleted = b
		if len(st.Failures) > 0 {
			// counterexamples with the fewest deviations have been found; deeper
			// bounds would only add longer ones for the same tags.
			if b < cfg.Bound {
				st.Exhaustive = false
			}
			break
		}
	}
	st.States = len(e.states)
	st.Distinct = len(e.traces)
	return st
}

// cost of the choices in rec[:n]
func devs(points []pointRec, n int) int {
	c := 0
	for i := 0; i < n; i++ {
		p := points[i]
		if p.chosen != 0 && (p.preempt || p.sel) {
			c++
		}
	}
	return c
}

var gcCounter, gcSteps int

func (e *explorer) explore(prefix []int, used int) {
	if e.timedOut || e.ndet != "" || len(e.newRacy) > 0 {
		return
	}
	if !e.cfg.Deadline.IsZero() && time.Now().After(e.cfg.Deadline) {
		e.timedOut = true
		return
	}
	x, end, tag, detail := e.run(prefix, false)
	if x.nondet != "" {
		e.ndet = x.nondet
		return
	}
	if e.cfg.RacePoints {
		for s := range x.racyFound {
			if !e.racy[s] {
				e.newRacy[s] = true
			}
		}
		if len(e.newRacy) > 0 {
			return
		}
	}
	// only count an execution in the iteration where it is new: it is new at
	// bound b iff it uses exactly b deviations (bounds are iterated upwards).
	total := devs(x.points, len(x.points))
	if total == e.bound {
		e.st.Executions++
		e.st.Steps += x.steps
		if x.steps > e.st.MaxSteps {
			e.st.MaxSteps = x.steps
		}
		out := end.Status.String()
		if tag != "" {
			out += "/" + tag
		}
		e.st.Outcomes[out]++
		if end.Status == Spin {
			e.st.SpinCuts++
		}
		if x.contended {
			e.traces[x.hash] = struct{}{}
		}
		if tag != "" && !e.failSeen[tag] {
			e.failSeen[tag] = true
			e.st.Failures = append(e.st.Failures, e.confirm(x, end, tag, detail))
		}
	}
	points := x.points
	choices := make([]int, len(points))
	for i, p := range points {
		choices[i] = p.chosen
	}
	for i := len(prefix); i < len(points); i++ {
		p := points[i]
		cost := devs(points, i)
		if p.preempt || p.sel {
			cost++
		}
		if cost > e.bound {
			continue
		}
		for alt := 1; alt < p.n; alt++ {
			np := make([]int, i+1)
			copy(np, choices[:i])
			np[i] = alt
			e.explore(np, cost)
		}
	}
}

// run executes the scenario once with the given choice prefix.
func (e *explorer) run(prefix []int, trace bool) (*Exec, *End, string, string) {
	return e.run2(prefix, trace, e.cfg.NoSpin)
}

func (e *explorer) run2(prefix []int, trace, noSpin bool) (*Exec, *End, string, string) {
	body, check := e.sc()
	x := &Exec{prefix: prefix, horizon: e.cfg.Horizon, end: make(chan struct{}, 1), ack: make(chan struct{}),
		raceOn: e.cfg.Race, raceSeen: map[string]bool{}, tracing: trace, spinOff: noSpin, freeForced: e.cfg.FreeForced, freezeOn: !e.cfg.NoFreeze,
		now: time.Unix(1_700_000_000, 0)}
	if x.raceOn {
		x.shadow = map[uintptr]*shadow{}
		x.racyFound = map[string]bool{}
		x.raceAll = e.cfg.RaceAllSites
		if e.cfg.RacePoints && len(e.racy) > 0 {
			x.racySites, x.racyPC = e.racy, map[uintptr]bool{}
		}
	}
	if !trace {
		x.statesFn = func(h uint64) { e.states[h] = struct{}{} }
	}
	if X != nil {
		fatal("nested exploration")
	}
	X = x
	t0 := x.spawn(body, "main")
	x.cur = t0
	watch := time.AfterFunc(180*time.Second, func() {
		fatal("execution of %s did not finish within 180s wall clock (engine hang); prefix=%v", e.cfg.Name, prefix)
	})
	t0.wake <- struct{}{}
	<-x.end
	// unwind whatever is left, one thread at a time
	end := &End{Status: x.status, Steps: x.steps}
	for _, t := range x.threads {
		if t.done {
			continue
		}
		info := ThreadInfo{ID: t.id, Name: t.name, Op: t.kind.String()}
		t.abort = true
		x.cur = t
		t.wake <- struct{}{}
		<-x.ack
		info.Site = t.parked
		if info.Site == "" {
			info.Site = "not-started"
		}
		end.Stuck = append(end.Stuck, info)
		if t.id == 0 {
			end.MainStuck = true
		}
	}
	watch.Stop()
	X = nil
	for _, t := range x.threads {
		end.ThreadEnd = append(end.ThreadEnd, t.endStep)
	}
	end.Panics = x.panics
	end.Races = x.races
	tag, detail := check(end)
	if e.cfg.Race {
		// the collector is off while an execution runs (addresses identify memory);
		// collect between executions in proportion to the work done: long
		// (horizon-length) executions leave hundreds of MB of clocks and shadow
		// state behind each
		gcCounter++
		gcSteps += x.steps
		if gcCounter%256 == 0 || gcSteps > 150000 {
			runtime.GC()
			gcSteps = 0
		}
	}
	return x, end, tag, detail
}

// confirm replays a failing execution (with tracing, and with spin detection
// replaced by the plain horizon) and requires the same verdict every time.
func (e *explorer) confirm(x *Exec, end *End, tag, detail string) Failure {
	choices := make([]int, len(x.points))
	for i, p := range x.points {
		choices[i] = p.chosen
	}
	f := Failure{Instance: e.cfg.Name, Tag: tag, Detail: detail, Bound: devs(x.points, len(x.points)), Choices: choices, Status: end.Status.String(), RacySites: e.cfg.RacySites}
	for i := 0; i < 5; i++ {
		x2, _, tag2, _ := e.run2(choices, true, e.cfg.NoSpin)
		if tag2 != tag {
			e.ndet = fmt.Sprintf("violation %q of %s not reproducible on replay %d (got %q): nondeterminism not captured", tag, e.cfg.Name, i, tag2)
			break
		}
		f.Trace = x2.trace
	}
	if end.Status == Spin && e.ndet == "" {
		// a spin cut is only an accelerated horizon: the same schedule without
		// the detector must really fail to terminate.
		_, end2, _, _ := e.run2(choices, false, true)
		if !end2.NonTerminating() {
			e.ndet = fmt.Sprintf("spin verdict of %s (%q) not confirmed against the step horizon (got %s)", e.cfg.Name, tag, end2.Status)
		}
	}
	if len(f.Trace) > 400 {
		f.Trace = append(f.Trace[:200:200], f.Trace[len(f.Trace)-200:]...)
	}
	return f
}

// Replay runs one execution with the given choices and returns its trace,
// end state and oracle verdict.
func Replay(cfg Config, sc Scenario, choices []int) ([]string, *End, string, string) {
	if cfg.Horizon == 0 {
		cfg.Horizon = 20000
	}
	e := &explorer{cfg: cfg, sc: sc, st: &Stats{Outcomes: map[string]int{}}, states: map[uint64]struct{}{}, traces: map[uint64]struct{}{},
		racy: map[string]bool{}, newRacy: map[string]bool{}}
	for _, s := range cfg.RacySites {
		e.racy[s] = true
	}
	x, end, tag, detail := e.run(choices, true)
	return x.trace, end, tag, detail
}
